#!/usr/bin/env python3
"""Bookkeeping for seeded changes (realistic property-breaking edits written by
independent sub-agents): validation in a scratch worktree, running the checks
against /repo with the change applied (and undoing it straight afterwards),
and the detection matrix.

  seeded.py validate <dir with patch.diff + demo_test.go> [--keep-as <id> --property <Cxx> --needs "..."]
  seeded.py run <id> [<property> ...] [--tier quick|thorough] [--seed N]
  seeded.py matrix [--tier quick] [--only id,id] [--all-props]

Nothing here is part of a registered check; it never leaves /repo modified.
"""
import json, os, shutil, subprocess, sys, time, glob

VERIF = "/verif"
REPO = "/repo"
SEEDED = os.path.join(VERIF, "seeded")
ENV = dict(os.environ, GOFLAGS="-mod=mod", GOPROXY="off", GOSUMDB="off", GOTOOLCHAIN="local")
# checks run against a seeded change never touch the committed evidence / replays
RUN_ENV = dict(ENV, VERIF_OUT_DIR="/tmp/mut/checkout")


def sh(cmd, cwd=None, timeout=3600, env=None):
    p = subprocess.run(cmd, shell=True, cwd=cwd, env=env or ENV, stdout=subprocess.PIPE, stderr=subprocess.STDOUT, timeout=timeout, text=True)
    return p.returncode, p.stdout


def repo_clean():
    rc, out = sh("git status --porcelain", REPO)
    return out.strip() == ""


def validate(src, keep_as=None, prop=None, needs=None):
    """(1) patch applies, builds, suite passes; (2) demo fails with it; (3) demo passes without."""
    wt = "/tmp/mut/eval-%d" % os.getpid()
    sh("git worktree remove --force %s" % wt, REPO)
    rc, out = sh("git worktree add -q %s HEAD" % wt, REPO)
    assert rc == 0, out
    res = {}
    try:
        patch = os.path.join(src, "patch.diff")
        demo = os.path.join(src, "demo_test.go")
        rc, out = sh("git apply --whitespace=nowarn %s" % patch, wt)
        res["applies"] = rc == 0
        if rc != 0:
            res["apply_output"] = out[-2000:]
            return res
        rc, out = sh("go build ./... && go test -vet=off -count=1 ./...", wt)
        res["suite_passes_with_change"] = rc == 0
        if rc != 0:
            res["suite_output"] = out[-3000:]
        shutil.copy(demo, os.path.join(wt, "zz_seeded_demo_test.go"))
        rc, out = sh("go test -vet=off -count=1 -run . . 2>&1 | tail -40", wt)
        rc2, out2 = sh("go test -vet=off -count=1 . >/dev/null 2>&1; echo $?", wt)
        res["demo_fails_with_change"] = out2.strip() != "0"
        res["demo_output_with_change"] = out[-1500:]
        sh("git apply -R --whitespace=nowarn %s" % patch, wt)
        rc3, out3 = sh("go test -vet=off -count=1 . 2>&1 | tail -15", wt)
        rc4, out4 = sh("go test -vet=off -count=1 . >/dev/null 2>&1; echo $?", wt)
        res["demo_passes_without_change"] = out4.strip() == "0"
        if out4.strip() != "0":
            res["demo_output_without_change"] = out3[-1500:]
    finally:
        sh("git worktree remove --force %s" % wt, REPO)
    res["valid"] = all(res.get(k) for k in ("applies", "suite_passes_with_change", "demo_fails_with_change", "demo_passes_without_change"))
    if keep_as and res["valid"]:
        d = os.path.join(SEEDED, keep_as)
        os.makedirs(d, exist_ok=True)
        shutil.copy(os.path.join(src, "patch.diff"), os.path.join(d, "patch.diff"))
        shutil.copy(os.path.join(src, "demo_test.go"), os.path.join(d, "demo_test.go"))
        notes = ""
        if os.path.exists(os.path.join(src, "notes.md")):
            notes = open(os.path.join(src, "notes.md")).read()
            shutil.copy(os.path.join(src, "notes.md"), os.path.join(d, "notes.md"))
        rc, head = sh("git rev-parse --short HEAD", REPO)
        meta = {"id": keep_as, "property": prop, "needs_to_manifest": needs or "", "base_commit": head.strip(),
                "validated": {k: res[k] for k in ("applies", "suite_passes_with_change", "demo_fails_with_change", "demo_passes_without_change")},
                "what_i_ran": "tools/seeded.py validate: scratch worktree of /repo HEAD; git apply patch.diff; go build ./... && go test -vet=off -count=1 ./... (passes); demo_test.go copied in: go test . fails; patch reverted: go test . passes",
                "detected_by": {}}
        json.dump(meta, open(os.path.join(d, "meta.json"), "w"), indent=1)
    return res


def run(mid, props, tier="quick", seed=None):
    d = os.path.join(SEEDED, mid)
    meta = json.load(open(os.path.join(d, "meta.json")))
    if not props:
        props = [meta["property"]]
    assert repo_clean(), "/repo is not clean"
    out = {}
    rc, o = sh("git apply --whitespace=nowarn %s" % os.path.join(d, "patch.diff"), REPO)
    if rc != 0:
        return {"error": "patch does not apply: " + o[-500:]}
    try:
        for p in props:
            t0 = time.time()
            env = "VERIF_SEED=%s " % seed if seed is not None else ""
            os.makedirs("/tmp/mut/checkout", exist_ok=True)
            rc, o = sh("%s./bin/verif check %s --tier %s" % (env, p, tier), VERIF, timeout=7200, env=RUN_ENV)
            viol = [l for l in o.splitlines() if l.startswith("VIOLATION")]
            sig = [l for l in o.splitlines() if l.startswith("verif: " + p + "/")]
            out[p] = {"exit": rc, "violation": bool(viol), "signature": sig[0][7:] if sig else "", "wall_s": round(time.time() - t0, 1)}
            if rc == 2:
                out[p]["tail"] = o[-1200:]
    finally:
        sh("git checkout -- . && git clean -fdq -- . ", REPO)
        assert repo_clean()
    return out


def main():
    a = sys.argv[1:]
    if not a:
        print(__doc__)
        return
    if a[0] == "validate":
        src = a[1]
        keep = prop = needs = None
        if "--keep-as" in a:
            keep = a[a.index("--keep-as") + 1]
        if "--property" in a:
            prop = a[a.index("--property") + 1]
        if "--needs" in a:
            needs = a[a.index("--needs") + 1]
        print(json.dumps(validate(src, keep, prop, needs), indent=1))
    elif a[0] == "run":
        tier = a[a.index("--tier") + 1] if "--tier" in a else "quick"
        seed = a[a.index("--seed") + 1] if "--seed" in a else None
        props = [x for x in a[2:] if x.startswith("C") and len(x) == 3]
        res = run(a[1], props, tier, seed)
        print(json.dumps(res, indent=1))
        _record(a[1], res, tier)
    elif a[0] == "matrix":
        tier = a[a.index("--tier") + 1] if "--tier" in a else "quick"
        only = a[a.index("--only") + 1].split(",") if "--only" in a else None
        ids = sorted(os.path.basename(os.path.dirname(p)) for p in glob.glob(os.path.join(SEEDED, "*", "meta.json")))
        for mid in ids:
            if only and mid not in only:
                continue
            res = run(mid, [], tier)
            _record(mid, res, tier)
            print(mid, json.dumps(res))


def _record(mid, res, tier):
    p = os.path.join(SEEDED, mid, "meta.json")
    meta = json.load(open(p))
    rc, head = sh("git rev-parse --short HEAD", VERIF)
    for prop, r in res.items():
        if isinstance(r, dict) and "exit" in r:
            meta.setdefault("detected_by", {})[prop + "/" + tier] = {"detected": r["violation"], "signature": r["signature"], "wall_s": r["wall_s"], "verif_commit": head.strip()}
    json.dump(meta, open(p, "w"), indent=1)


if __name__ == "__main__":
    main()
