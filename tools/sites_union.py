#!/usr/bin/env python3
"""Union of the go-cose statements executed by the checks (side output of
`VERIF_SITES_DIR=<dir> ./bin/verif check <id> --tier quick`, one file per property
plus ALL.txt): prints the statements no check executed, grouped by function.

  VERIF_SITES_DIR=/tmp/sites ./bin/verif check C01 --tier quick   (for every property)
  tools/sites_union.py /tmp/sites
"""
import sys, os, glob, collections
d = sys.argv[1]
allsites = [l.rstrip("\n") for l in open(os.path.join(d, "ALL.txt")) if l.strip()]
hit = set()
per = {}
for f in sorted(glob.glob(os.path.join(d, "C*.txt"))):
    s = set(l.rstrip("\n") for l in open(f) if l.strip())
    per[os.path.basename(f)[:-4]] = len(s)
    hit |= s
print("statements of package cose:", len(allsites), " executed by at least one check:", len(set(allsites) & hit))
print("per check:", per)
miss = collections.defaultdict(list)
for s in allsites:
    if s not in hit:
        fn, pos = s.split(" ", 1)
        miss[fn].append(pos)
for fn in sorted(miss):
    print("%-45s %s" % (fn, " ".join(p.split(":")[1] if i else p for i, p in enumerate(miss[fn]))))
