#!/bin/sh
# tools/wave.sh <N> [<dirN>]: validate every finished, not yet kept deliverable of wave N
# (/tmp/mut/w<dirN>-Cxx/out/{1,2}; dirN defaults to N) - six validations at a time, each in
# a scratch worktree of its own - and run the check of its target property against it.
cd "$(dirname "$0")/.."
N=$1
D=${2:-$1}
todo=""
for p in C01 C02 C03 C04 C05 C06 C07 C08 C09 C10 C11 C12 C14 C15 C16 C18 C19 C20; do
  for n in 1 2; do
    d=/tmp/mut/w$D-$p/out/$n
    if [ -f $d/notes.md ] && [ -f $d/patch.diff ] && [ -f $d/demo_test.go ] && [ ! -d seeded/S-$p-w$N-$n ]; then
      todo="$todo $p:$n"
    fi
  done
done
echo $todo | tr ' ' '\n' | xargs -P 6 -I{} sh -c 'p=${1%%:*}; n=${1##*:}; d=/tmp/mut/w'$D'-$p/out/$n; v=$(python3 tools/seeded.py validate $d --keep-as S-$p-w'$N'-$n --property $p 2>&1 | grep -c "\"valid\": true"); [ "$v" = "1" ] || echo "INVALID: $d"' _ {}
ids=""
for t in $todo; do p=${t%%:*}; n=${t##*:}; [ -d seeded/S-$p-w$N-$n ] && ids="$ids,S-$p-w$N-$n"; done
[ -n "$ids" ] && python3 tools/seeded.py matrix --only ${ids#,} 2>&1 | grep -v WARNING | cut -c1-230
