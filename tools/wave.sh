#!/bin/sh
# tools/wave.sh <N>: validate every finished, not yet kept deliverable of wave N
# (/tmp/mut/wN-Cxx/out/{1,2}) and run the check of its target property against it.
cd "$(dirname "$0")/.."
N=$1
ids=""
for p in C01 C02 C03 C04 C05 C06 C07 C08 C09 C10 C11 C12 C14 C15 C16 C18 C19 C20; do
  for n in 1 2; do
    d=/tmp/mut/w$N-$p/out/$n
    if [ -f $d/notes.md ] && [ -f $d/patch.diff ] && [ -f $d/demo_test.go ] && [ ! -d seeded/S-$p-w$N-$n ]; then
      v=$(python3 tools/seeded.py validate $d --keep-as S-$p-w$N-$n --property $p 2>&1 | grep -c '"valid": true')
      if [ "$v" = "1" ]; then ids="$ids,S-$p-w$N-$n"; else echo "INVALID: $d"; fi
    fi
  done
done
[ -n "$ids" ] && python3 tools/seeded.py matrix --only ${ids#,} 2>&1 | grep -v WARNING | cut -c1-230
