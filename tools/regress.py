#!/usr/bin/env python3
"""tools/regress.py [--jobs N] [--only id,id] [--snapshot DIR]

Regression of the detection matrix without touching /repo: for every seeded
change and every check recorded as detecting it (meta.json detected_by, tier
quick), clone /repo, apply the change to the clone, run that check against the
clone (VERIF_REPO) from a snapshot of /verif, and report checks that no longer
detect.  Updates detected_by in meta.json (signature, wall time, commit).
Nothing here is part of a registered check.
"""
import json, os, subprocess, sys, glob, shutil, time, re
from concurrent.futures import ThreadPoolExecutor

VERIF = os.path.dirname(os.path.dirname(os.path.abspath(__file__)))
ENV = dict(os.environ, GOFLAGS="-mod=mod", GOPROXY="off", GOSUMDB="off", GOTOOLCHAIN="local")

def main():
    jobs, only, snap = 2, None, None
    a = sys.argv[1:]
    while a:
        x = a.pop(0)
        if x == "--jobs": jobs = int(a.pop(0))
        elif x == "--only": only = set(a.pop(0).split(","))
        elif x == "--snapshot": snap = a.pop(0)
    root = "/var/tmp/regress"
    os.makedirs(root, exist_ok=True)
    if snap is None:
        snap = os.path.join(root, "verif")
        shutil.rmtree(snap, ignore_errors=True)
        subprocess.check_call(["rsync", "-a", "--exclude", ".git", "--exclude", "replays", "--exclude", "seeded", VERIF + "/", snap + "/"])
        subprocess.check_call(["go", "build", "-o", "bin/verif", "./cmd/verif"], cwd=snap, env=ENV)
    commit = subprocess.check_output(["git", "-C", VERIF, "rev-parse", "--short", "HEAD"]).decode().strip()
    work = []
    for d in sorted(glob.glob(os.path.join(VERIF, "seeded", "S-*"))):
        sid = os.path.basename(d)
        if only and sid not in only: continue
        meta = json.load(open(os.path.join(d, "meta.json")))
        for key, r in sorted(meta.get("detected_by", {}).items()):
            if key.endswith("/quick") and r.get("detected"):
                work.append((sid, key.split("/")[0]))
    print(f"{len(work)} (change, check) pairs, {jobs} at a time, snapshot {snap}", flush=True)

    def one(job):
        sid, prop = job
        clone = os.path.join(root, f"repo-{sid}-{prop}")
        out = os.path.join(root, f"out-{sid}-{prop}")
        shutil.rmtree(clone, ignore_errors=True); shutil.rmtree(out, ignore_errors=True)
        subprocess.check_call(["git", "clone", "-q", "/repo", clone])
        subprocess.check_call(["git", "-C", clone, "apply", os.path.join(VERIF, "seeded", sid, "patch.diff")])
        t0 = time.time()
        p = subprocess.run([os.path.join(snap, "bin", "verif"), "check", prop, "--tier", "quick"], cwd=snap,
                           env=dict(ENV, VERIF_REPO=clone, VERIF_OUT_DIR=out, VERIF_SEED="1"), capture_output=True, text=True)
        wall = round(time.time() - t0, 1)
        sig = ""
        m = re.search(r"^verif: (C\d\d/\S.*)$", p.stdout + p.stderr, re.M)
        viol = "VIOLATION property=" in (p.stdout + p.stderr)
        if viol and m: sig = m.group(1).strip()
        shutil.rmtree(clone, ignore_errors=True); shutil.rmtree(out, ignore_errors=True)
        return sid, prop, p.returncode, viol, sig, wall

    lost = []
    with ThreadPoolExecutor(jobs) as ex:
        for sid, prop, rc, viol, sig, wall in ex.map(one, work):
            ok = rc == 1 and viol
            print(f"{sid} {prop} exit={rc} detected={ok} {sig} {wall}s", flush=True)
            mp = os.path.join(VERIF, "seeded", sid, "meta.json")
            meta = json.load(open(mp))
            if rc in (0, 1):
                meta["detected_by"][prop + "/quick"] = {"detected": ok, "signature": sig, "wall_s": wall, "verif_commit": commit}
                json.dump(meta, open(mp, "w"), indent=1)
            if not ok: lost.append((sid, prop, rc))
    print("no longer detected / no verdict:", lost, flush=True)

if __name__ == "__main__":
    main()
