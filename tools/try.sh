#!/bin/sh
# tools/try.sh <seeded-id|patch file|-> <property> [seed]: run one quick check from this
# working copy of /verif against a scratch clone of /repo with the change applied
# (VERIF_REPO), never touching /repo.  "-" = unchanged clone.  Not part of any check.
cd "$(dirname "$0")/.." || exit 2
export GOFLAGS=-mod=mod GOPROXY=off GOSUMDB=off GOTOOLCHAIN=local
id=$1; p=$2; seed=${3:-1}
c=/var/tmp/try-$$-repo; o=/var/tmp/try-$$-out
rm -rf $c $o; git clone -q /repo $c || exit 2
if [ "$id" != "-" ]; then
  f=$id; [ -f "$f" ] && f=$(readlink -f "$f") || f=/verif/seeded/$id/patch.diff
  git -C $c apply --whitespace=nowarn "$f" || { rm -rf $c; exit 2; }
fi
go build -o bin/verif ./cmd/verif || exit 2
VERIF_REPO=$c VERIF_OUT_DIR=$o VERIF_SEED=$seed ./bin/verif check $p --tier ${TIER:-quick} 2>&1 | grep -E "^verif:|VIOLATION|KNOWN|no verdict|DIFFER|panic|exit" | cut -c1-${CUT:-400} | head -${LINES:-12}
rm -rf $c $o
