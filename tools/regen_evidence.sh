#!/bin/sh
# Runs every registered quick check against /repo as it is and validates the
# evidence files they write (to be done before committing evidence).
cd "$(dirname "$0")/.." || exit 2
if [ -n "$(git -C /repo status --porcelain)" ]; then echo "/repo is not clean"; exit 2; fi
unset VERIF_OUT_DIR
rc=0
for p in $(jq -r '.checks[].property_id' MANIFEST.json); do
  out=$(./bin/verif check "$p" --tier "${1:-quick}" 2>&1); code=$?
  echo "$out" | grep -E "^verif: $p (quick|thorough)|^VIOLATION|^KNOWN-FINDING" | cut -c1-180
  [ $code -ne 0 ] && { echo "$p: exit $code"; rc=1; }
done
python3-vt - <<'PY'
import json,jsonschema,glob
s=json.load(open('/root/.vp/EVIDENCE.schema.json'))
for f in sorted(glob.glob('evidence/*.json')):
    e=json.load(open(f)); jsonschema.validate(e,s)
    assert e['violations']==0, f
print('evidence valid, no violations recorded')
PY
exit $rc
