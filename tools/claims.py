claimed("C01", "exploration",
  "Seeded simulation of the fault-free world (issuer, notary, relay, verifier, key directory) over go-cose's public API: every signature the run produced must verify in memory and after a wire round trip, for all structure kinds, algorithms and parent kinds. Sampling, not proof; simulation contributes the entropy stream, hop histories and replay/minimisation, not a new quantifier (class W in DESIGN.md).",
  "Trusts Go crypto/math/big and the input model of DESIGN 2.2; RSA keys from a committed pool.",
  "deterministic simulation (seeded runs of the fault-free configuration, tape replay)", "3/C01")
