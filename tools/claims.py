claimed("C01", "exploration",
  "Seeded simulation of the fault-free world (issuer, notary, relay, verifier, key directory) over go-cose's public API: every signature the run produced must verify in memory and after a wire round trip, for all structure kinds, algorithms and parent kinds. Sampling, not proof; simulation contributes the entropy stream, hop histories and replay/minimisation, not a new quantifier (class W in DESIGN.md).",
  "Trusts Go crypto/math/big and the input model of DESIGN 2.2; RSA keys from a committed pool.",
  "deterministic simulation (seeded runs of the fault-free configuration, tape replay)", "3/C01")
claimed("C02", "exploration",
  "Refinement check at the Signer/Verifier seam inside the simulated exchange: at every Sign/Verify call the content bytes equal the reference RFC 9052 Sig_structure computed from the wire bytes, for messages built in memory, decoded from go-cose output, decoded from a foreign peer's non-deterministic encoding, and damaged-but-still-accepted traffic produced by the fault injectors; plus metamorphic invariance under unprotected edits, tag toggling and nil/empty external. Sampling; the simulator contributes populations no table holds (class W).",
  "Trusts the reference Sig_structure builder (self-tested on the repository vectors) and the input model.",
  "deterministic simulation (seam refinement against a reference model over seeded runs with wire faults)", "3/C02")
claimed("C03", "exploration",
  "Seeded simulation of a corrupting, replaying channel between issuer and verifier: every delivery that still decodes is judged by go-cose's built-in verifier and by an independent reference verdict over the received bytes (iff), plus two lineage invariants that need no crypto oracle. Faults: byte-level, structural at any tree position, splices between messages and structure kinds, signature re-encoding, key substitution, external-data changes; single and double faults.",
  "Trusts Go crypto verification primitives (shared with go-cose) and the reference Sig_structure/algorithm table; forgeries are not constructed.",
  "deterministic simulation with fault injection (seeded fault sequences on the wire, reference-model verdict, tape minimisation and replay)", "3/C03")
claimed("C04", "exploration",
  "Seeded simulation with recording Signer/Verifier seams whose algorithm is drawn independently of the alg header: mismatch must fail without a call at the seam, injected alg must be inside the signed and emitted bytes, decoded alg must be the one in the raw bytes, and a ledger invariant ties every emitted signature to the algorithm in its protected bytes; includes the signer-fault-then-failover history.",
  "Caller-supplied raw protected bytes are assumed consistent with the parsed map.",
  "deterministic simulation (spy seams, fault-then-failover histories, provenance ledger)", "3/C04")
claimed("C05", "exploration",
  "Seeded structural and byte-level fault injection on live valid traffic of every kind (incl. nested countersignatures), every damaged input offered to all seven decoders; accepted implies the reference well-formedness predicate written from the property statement. One direction only (converse is C07).",
  "Trusts the reference predicate; sampling of single/double faults, not the whole byte-string space.",
  "deterministic simulation with fault injection (structural mutation of in-flight messages, reference acceptance predicate)", "3/C05")
claimed("C06", "exploration",
  "Seeded fault injection on messages, signature objects, header buckets, envelopes and COSE_Keys plus random bytes, offered to all nine decoding entry points; every accepted value is pushed through the follow-up operations; oracle = no panic (recover per call) and termination before a watchdog.",
  "Unrecoverable runtime failures are attributed by the driver; watchdog is the only real-clock read.",
  "deterministic simulation with fault injection (crash/hang monitors around every library call)", "3/C06")
claimed("C07", "exploration",
  "Two-party simulation: an independent reference COSE stack issues conforming messages with tape-chosen encoder freedoms and signs its own wire bytes; go-cose must decode and verify message, signatures and nested countersignatures. No fault is involved and none is claimed (class W).",
  "Trusts the reference encoder/signer; limits as the property documents them.",
  "deterministic simulation (independent peer as reference model, seeded encoder choices)", "3/C07")
claimed("C09", "exploration",
  "Relay-chain histories: accepted wire messages (mostly third-party, non-canonical) pass 1..6 decode/encode hops keeping or dropping raw header bytes as the tape decides; output compared with the reference prediction, verdict preservation for signatures and countersignatures, canonical form and fixpoint after dropping raw bytes.",
  "Trusts refcose.PredictReencode as a transcription of the statement.",
  "deterministic simulation (seeded decode/encode histories against a reference prediction)", "3/C09")
claimed("C10", "exploration",
  "Notary simulation over all parent kinds x pointer/value x full/abbreviated x constructed/decoded parents with a recording signer (reference Countersign_structure at the seam) and a faulty channel on the parent (reference verdict over the received parent, benign vs signed-field changes), replay as message signature / other form, refusal of unsigned or payload-less parents.",
  "For abbreviated forms the reference accepts the countersigner-protected slot as h'' or omitted (the statement does not decide it).",
  "deterministic simulation with fault injection (seam refinement + reference verdict under parent corruption)", "3/C10")
claimed("C11", "exploration",
  "COSE_Signature elements treated as messages on a lossy channel (loss, duplication, reordering, surplus, emptied, corrupted; on the wire or in memory), verifier lists permuted/shortened/lengthened/substituted, erroring signers at any position; oracle = positional reference verdict, call order and content at recording verifiers, all-or-nothing, encode/decode refusal of empty signatures.",
  "Signers are well-behaved or erroring (empty-returning signers are judged under C20).",
  "deterministic simulation with fault injection (channel faults on signature elements, signer faults, reference positional verdict)", "3/C11")
claimed("C12", "exploration",
  "Producer histories on one shared base Headers value (deep snapshot unchanged, output conforms to the reference envelope rules and is accepted by the verifier with the same values) and a byzantine issuer signing rule-breaking envelopes with valid signatures (accepted implies reference verdict and rules).",
  "Envelope rules as worded by the property.",
  "deterministic simulation (shared-state histories, byzantine peer as reference model)", "3/C12")
claimed("C14", "exploration",
  "Every key of the simulated world is provisioned through the key directory (Go key -> COSE_Key -> bytes -> COSE_Key -> Go key/signer/verifier) with equality, coordinate-width and sign/verify oracles; rare keys (leading zeros in x, y, d; x = 0 points) come from a biased, tape-driven key search, which is input generation and is called that (class W).",
  "Trusts Go crypto and math/big.",
  "deterministic simulation (key-directory habitat, seeded key search)", "3/C14")
claimed("C15", "exploration",
  "Key store with fault injection: stored COSE_Keys of every type are corrupted (byte-level and structural) and loaded; accepted implies the reference consistency predicate and a canonical re-encoding fixpoint; Signer()/Verifier() success implies private/public material, permitting key_ops and the algorithm fixed by the key.",
  "Reference key predicate transcribes the statement; non-bstr coordinate parameters are not judged.",
  "deterministic simulation with fault injection (storage faults on keys at rest, reference predicate)", "3/C15")
claimed("C08", "exploration",
  "Seeded simulation on an instrumented scratch copy in which the iteration order of every range-over-map loop of go-cose is a tape decision (the schedule dimension the statement names): each object is encoded 6 times under different permutations and in two OS processes; outputs must be byte-equal, deterministic CBOR (reference predicate, inside protected headers too), the signed protected bytes must be the emitted ones, and every encoder/helper output must be accepted by its decoder and re-encode identically, also for rule-breaking caller-built headers (refused or closed).",
  "Map iteration inside fxamacker/cbor and reflect cannot be owned: order-independent oracle plus adversarial insertion order there; supported data model only.",
  "deterministic simulation (tape-owned map iteration order via source instrumentation, repeated and cross-process encodes, reference canonical-form predicate)", "3/C08")
claimed("C16", "exploration",
  "Two seams: an HSM stub behind crypto.Signer returns chosen (r, s) from the boundary classes or mangled ASN.1 (buggify: legal-but-rare dependency behaviour), the native path runs under searched entropy; a format-translating middlebox presents DER / stripped / extended / off-length variants to the verifier. Output must be fixed-width r||s on all three curves, both paths byte-compatible, and only the exact form of a valid signature verifies.",
  "Trusts Go crypto/ecdsa and math/big.",
  "deterministic simulation with fault injection (HSM stub, searched entropy, signature-translating middlebox)", "3/C16")
claimed("C18", "exploration",
  "Deterministic schedule exploration: caller tasks share messages, keys, verifiers and a signer; a tape-drawn schedule decides the running task at each of ~1250 yield points inserted before every statement of go-cose in a scratch copy. Oracles: deep snapshots unchanged at scheduler steps, results equal to sequential execution, and a race-detector build of the same runs in which the hand-off between tasks is invisible to the detector (any conflicting write is reported whatever interleaving ran, and replays).",
  "Preemption inside dependencies is not explored; the race detector is trusted for what it instruments.",
  "deterministic simulation (seeded schedules over instrumented yield points, snapshot monitors, race detector under a serialised deterministic schedule)", "3/C18")
claimed("C19", "exploration",
  "Decode histories of a server that reuses destination variables and network buffers: LOAD/DECODE/SCRIBBLE/ENCODE sequences over valid, damaged and foreign-kind inputs; reference model = fresh decode of a pristine copy of the last good input; atomicity on failure; address-based no-aliasing check against every harness buffer and earlier output. One run in twelve is a block of 2-4 caller tasks decoding at the same time under a tape-drawn schedule (every go-cose statement a preemption point): each result equals the result of decoding the same bytes alone.",
  "Deep snapshots are taken as what a reader can observe.",
  "deterministic simulation (seeded operation histories with buffer-reuse and scribble faults against a reference model; tape-driven schedules of concurrent decodes)", "3/C19")
claimed("C20", "fault_enumeration",
  "Every assignment of {ok, signer error, empty / nil signature, bytes-with-error, HSM error, bad DER, entropy error at byte k, short reads} to each signer call and {ok, verifier error} to each verifier call is enumerated for all 14 signing/verifying entry points with n <= 4 (7483 vectors), each under several tape-drawn contexts; oracle: error propagated with identity, no bytes, failing slot empty, message not serialisable, no later call made, nothing with an empty signature is ever emitted.",
  "Exhaustive over the fault-vector dimension, sampled over contexts (headers, payload, keys, k).",
  "deterministic simulation with exhaustive fault-vector enumeration (forced tape prefixes) and sampled contexts", "3/C20")
