#!/usr/bin/env python3
"""Regenerates the detection table of /verif/seeded inside DESIGN.md (between the SEEDED-TABLE markers)."""
import json, glob, re
rows=[]
for p in sorted(glob.glob('/verif/seeded/*/meta.json')):
    m=json.load(open(p))
    det=m.get('detected_by',{})
    caught=sorted(k for k,v in det.items() if v.get('detected'))
    missed=sorted(k for k,v in det.items() if not v.get('detected'))
    sigs='; '.join(sorted(set(v['signature'] for v in det.values() if v.get('detected') and v.get('signature'))))
    rows.append((m['id'],m.get('property'),m.get('what',''),m.get('needs_to_manifest',''),', '.join(caught) or '-',', '.join(missed) or '-',sigs))
out=['| id | targets | change | needs in order to manifest | caught by (check/tier) | run but silent | signature(s) reported |','|---|---|---|---|---|---|---|']
for r in rows: out.append('| '+' | '.join(str(x).replace('|','/') for x in r)+' |')
n=len(rows); c=sum(1 for r in rows if r[4]!='-'); own=sum(1 for r in rows if (r[1]+'/') in r[4])
out.append('')
out.append('%d seeded changes kept; %d caught by at least one check, %d caught by the check of the property they target.'%(n,c,own))
txt='\n'.join(out)
d=open('/verif/DESIGN.md').read()
a='<!-- SEEDED-TABLE-BEGIN -->'; b='<!-- SEEDED-TABLE-END -->'
if a in d:
    d=d[:d.index(a)+len(a)]+'\n'+txt+'\n'+d[d.index(b):]
    open('/verif/DESIGN.md','w').write(d)
print(txt[-200:])
