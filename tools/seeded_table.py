#!/usr/bin/env python3
"""Prints the detection table of /verif/seeded (markdown)."""
import json, glob, os
rows=[]
for p in sorted(glob.glob('/verif/seeded/*/meta.json')):
    m=json.load(open(p))
    det=m.get('detected_by',{})
    caught=sorted(k for k,v in det.items() if v.get('detected'))
    missed=sorted(k for k,v in det.items() if not v.get('detected'))
    sigs='; '.join(sorted(set(v['signature'] for v in det.values() if v.get('detected') and v.get('signature'))))
    rows.append((m['id'],m.get('property'),m.get('what',''),m.get('needs_to_manifest',''),', '.join(caught) or '-',', '.join(missed) or '-',sigs))
print('| id | property | change | needs | caught by (check/tier) | run but silent | signature(s) |')
print('|---|---|---|---|---|---|---|')
for r in rows: print('| '+' | '.join(str(x).replace('|','/') for x in r)+' |')
