#!/usr/bin/env python3
"""Regenerates /verif/MANIFEST.json from the table below (kept next to the code so
that the manifest is always valid and the not_applicable list is always current)."""
import json, os

ALL = ["C%02d" % i for i in range(1, 21)]

# id -> (level category, level text, level note, technique, design ref)
CLAIMED = {}

NOT_APPLICABLE = {
    "C13": "its quantifier is an exhaustive finite grid (labels x value kinds x bucket x direction x 10 Go spellings) over a single validation call: no schedule, fault, history, entropy or second party for a simulator to own; enumeration would be the deciding technique and this task studies simulation only (DESIGN.md section 4)",
    "C17": "an exhaustive constructor matrix (algorithm ids x key kinds/sizes/invalid points) plus a pointwise digest identity over single calls with no seam the simulator could own (DESIGN.md section 4)",
}

def claimed(id, cat, text, note, technique, ref):
    CLAIMED[id] = (cat, text, note, technique, ref)

exec(open(os.path.join(os.path.dirname(__file__), "claims.py")).read())

checks = []
for pid in ALL:
    if pid not in CLAIMED:
        continue
    cat, text, note, technique, ref = CLAIMED[pid]
    checks.append({
        "property_id": pid,
        "quick_cmd": "./bin/verif check %s --tier quick" % pid,
        "thorough_cmd": "./bin/verif check %s --tier thorough" % pid,
        "evidence_file": "/verif/evidence/%s.json" % pid,
        "replay_cmd_template": "./bin/verif replay {path}",
        "engine": "cosesim",
        "level_claimed": {"category": cat, "text": text, "design_ref": ref},
        "level_note": note,
        "technique": technique,
    })

na = []
for pid in ALL:
    if pid in CLAIMED:
        continue
    reason = NOT_APPLICABLE.get(pid, "check not built yet in this session (planned: DESIGN.md section 3); not claimed until it runs")
    na.append({"property_id": pid, "reason": reason})

manifest = {
    "version": 1,
    "setup_cmd": "./setup.sh",
    "hooks": {
        "guard": "verif",
        "enable": "no committed hooks: every check copies /repo's working tree to a scratch directory, instruments the copy (bin/instrument: a yield call before every statement of package cose, every range-over-map loop routed through the simulator, every time.Now/Since/Until and os.Getenv/LookupEnv routed to the simulated clock and environment) and builds the worker against it with -tags verifinstr; the copy is deleted afterwards",
        "baseline_off_cmd": "cd /repo && go test -vet=off -count=1 -timeout 25m ./...",
        "source_commits": [],
        "add_only": True,
    },
    "engines": [{
        "name": "cosesim",
        "path": "/verif/sim",
        "serves_properties": sorted(CLAIMED),
        "kind_free_text": "deterministic simulator: one tape decides generated operations, faults, entropy, go-cose's map iteration order and task scheduling; seeded search over runs in 16 worker processes; tape minimisation; replay in a fresh process (single run, or run history for violations that need process-wide state); race-detector phase for C18",
    }],
    "checks": checks,
    "not_applicable": na,
    "notes": "Every check rebuilds the worker against /repo's working tree. Exit 0 held / 1 VIOLATION / 2 harness trouble. Known findings: /verif/known_findings.json.",
}
json.dump(manifest, open("/verif/MANIFEST.json", "w"), indent=1)
print("claimed:", sorted(CLAIMED), "not applicable:", [x["property_id"] for x in na])
