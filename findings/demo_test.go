// Package findings demonstrates every entry of ../known_findings.json on its
// concrete input, directly against /repo, without the simulator: the replay
// records in this directory keep the trace of the run that found each one, but
// their tapes are only meaningful for the /verif commit that wrote them (the
// generators have grown since).  `go test -v ./findings` prints, per finding,
// whether the behaviour is still there; it fails only if an input is no
// longer what the comment says (so that the list cannot rot silently).
package findings

import (
	"bytes"
	"encoding/hex"
	"strings"
	"testing"

	cose "github.com/veraison/go-cose"
)

func unhex(t *testing.T, s string) []byte {
	b, err := hex.DecodeString(strings.ReplaceAll(s, " ", ""))
	if err != nil {
		t.Fatal(err)
	}
	return b
}

func report(t *testing.T, id string, present bool, what string) {
	if present {
		t.Logf("%s still present: %s", id, what)
	} else {
		t.Logf("%s NOT observed any more: %s", id, what)
	}
}

// K1: protected {3: 55799(15663)}: content type must be uint / tstr.
func TestK1(t *testing.T) {
	msg := unhex(t, "d2 84 48 a103d9d9f7193d2f a0 40 41 00")
	var m cose.Sign1Message
	err := m.UnmarshalCBOR(msg)
	report(t, "K1", err == nil, "Sign1 with content type 55799(15663) accepted")
}

// K2: COSE_Key {1: 4, 55799(-1): h'00'}: label wrapped in tag 55799 is taken for -1.
func TestK2(t *testing.T) {
	var k cose.Key
	err := k.UnmarshalCBOR(unhex(t, "a2 01 04 d9d9f7 20 41 00"))
	report(t, "K2", err == nil, "COSE_Key with label 55799(-1) accepted")
}

// K3: {1: 99, -100: {0: 0, 1(0): 0}} accepted, re-encoding refused.
func TestK3(t *testing.T) {
	var k cose.Key
	if err := k.UnmarshalCBOR(unhex(t, "a2 01 18 63 38 63 a2 00 00 c1 00 00")); err != nil {
		report(t, "K3", false, "key no longer accepted: "+err.Error())
		return
	}
	out, err := k.MarshalCBOR()
	if err != nil {
		report(t, "K3", false, "re-encoding fails instead: "+err.Error())
		return
	}
	var k2 cose.Key
	err = k2.UnmarshalCBOR(out)
	report(t, "K3", err != nil, "re-encoding "+hex.EncodeToString(out)+" of an accepted key is refused")
}

// K4: symmetric key with -100: 2(h'd3cbf9526a279b1e').
func TestK4(t *testing.T) {
	var k cose.Key
	if err := k.UnmarshalCBOR(unhex(t, "a3 01 04 20 41 00 38 63 c2 48 d3cbf9526a279b1e")); err != nil {
		report(t, "K4", false, "key no longer accepted: "+err.Error())
		return
	}
	out, err := k.MarshalCBOR()
	if err != nil {
		t.Fatal(err)
	}
	var k2 cose.Key
	err = k2.UnmarshalCBOR(out)
	report(t, "K4", err != nil && bytes.Contains(out, unhex(t, "1b d3cbf9526a279b1e")), "bignum re-encoded as 1b d3cbf9526a279b1e, refused: "+errString(err))
}

// K5: Sign1 with protected {1: -7, -70000: 2(h'd3cbf9526a279b1e')}, raw bytes discarded.
func TestK5(t *testing.T) {
	msg := unhex(t, "d2 84 52 a201263a0001116fc248d3cbf9526a279b1e a0 41 01 42 0102")
	var m cose.Sign1Message
	if err := m.UnmarshalCBOR(msg); err != nil {
		report(t, "K5", false, "message no longer accepted: "+err.Error())
		return
	}
	m.Headers.RawProtected, m.Headers.RawUnprotected = nil, nil
	out, err := m.MarshalCBOR()
	if err != nil {
		t.Fatal(err)
	}
	var m2 cose.Sign1Message
	err = m2.UnmarshalCBOR(out)
	report(t, "K5", err != nil, "canonical form "+hex.EncodeToString(out)+" refused: "+errString(err))
}

func errString(err error) string {
	if err == nil {
		return "<nil>"
	}
	return err.Error()
}

// K6: Sign1 with protected {1: -7, -256: {0: 0, 1(0): 0}}, raw bytes discarded.
func TestK6(t *testing.T) {
	msg := unhex(t, "d2 84 4b a2012638ffa20000c10000 a0 41 01 42 0102")
	var m cose.Sign1Message
	if err := m.UnmarshalCBOR(msg); err != nil {
		report(t, "K6", false, "message no longer accepted: "+err.Error())
		return
	}
	m.Headers.RawProtected, m.Headers.RawUnprotected = nil, nil
	out, err := m.MarshalCBOR()
	if err != nil {
		report(t, "K6", false, "re-encoding fails instead: "+err.Error())
		return
	}
	var m2 cose.Sign1Message
	err = m2.UnmarshalCBOR(out)
	report(t, "K6", err != nil, "canonical form "+hex.EncodeToString(out)+" has a duplicate key and is refused: "+errString(err))
}
