package refcbor

import (
	"bytes"
	"encoding/hex"
	"math/rand"
	"testing"

	"github.com/fxamacker/cbor/v2"
)

// RFC 8949 Appendix A examples (a selection covering every major type and
// head width, plus indefinite forms).
var appendixA = []string{
	"00", "01", "0a", "17", "1818", "1819", "1864", "1903e8", "1a000f4240", "1b000000e8d4a51000", "1bffffffffffffffff",
	"20", "29", "3863", "3903e7", "3bffffffffffffffff",
	"f90000", "f98000", "f93c00", "fb3ff199999999999a", "f93e00", "f97bff", "fa47c35000", "fa7f7fffff", "fb7e37e43c8800759c",
	"f90001", "f90400", "f9c400", "fbc010666666666666", "f97c00", "f97e00", "f9fc00", "fa7f800000", "fb7ff0000000000000",
	"f4", "f5", "f6", "f7", "f0", "f8ff",
	"c074323031332d30332d32315432303a30343a30305a", "c11a514b67b0", "c1fb41d452d9ec200000", "d74401020304", "d818456449455446",
	"d82076687474703a2f2f7777772e6578616d706c652e636f6d",
	"40", "4401020304", "60", "6161", "6449455446", "62225c", "62c3bc", "63e6b0b4", "64f0908591",
	"80", "83010203", "8301820203820405", "98190102030405060708090a0b0c0d0e0f101112131415161718181819",
	"a0", "a201020304", "a26161016162820203", "826161a161626163", "a56161614161626142616361436164614461656145",
	"5f42010243030405ff", "7f657374726561646d696e67ff", "9fff", "9f018202039f0405ffff", "9f01820203820405ff", "83018202039f0405ff", "83019f0203ff820405",
	"9f0102030405060708090a0b0c0d0e0f101112131415161718181819ff", "bf61610161629f0203ffff", "826161bf61626163ff", "bf6346756ef563416d7421ff",
}

func TestAppendixARoundTrip(t *testing.T) {
	for _, h := range appendixA {
		b, _ := hex.DecodeString(h)
		it, err := ParseOne(b)
		if err != nil {
			t.Fatalf("%s: %v", h, err)
		}
		if got := Encode(it); !bytes.Equal(got, b) {
			t.Fatalf("%s: re-encoded as %x", h, got)
		}
	}
}

var notWellFormed = []string{
	"", "18", "19", "1a", "1b", "1901", "1a0102", "1b01020304050607", "38", "58", "78", "98", "9a01ff00", "b8", "d8", "f8", "f900", "fa0000", "fb000000",
	"1c", "1d", "1e", "3c", "5c", "7c", "9c", "bc", "dc", "fc", "fd", "fe",
	"f800", "f801", "f818", "f81f",
	"ff", "81ff", "8200ff", "a1ff", "a1ff00", "a100ff", "a20000ff", "9f81ff", "9f829f819f9fffffffff",
	"5f00ff", "5f21ff", "5f6100ff", "5f80ff", "5fa0ff", "5fc000ff", "5fe0ff", "7f4100ff", "5f5f4100ffff", "7f7f6100ffff",
	"1f", "3f", "df", "41", "61", "5affffffff00", "5bffffffffffffff010203", "7affffffff00", "7b7fffffffffffff010203", "8100", "818181",
	"a200", "a1", "a20102", "a100", "a2000000", "c0", "bf00ff", "bf000000ff",
}

func TestNotWellFormed(t *testing.T) {
	for _, h := range notWellFormed {
		b, _ := hex.DecodeString(h)
		if h == "8100" {
			continue // well-formed (array of one uint); kept to document the list
		}
		if _, err := ParseOne(b); err == nil {
			t.Fatalf("%s accepted", h)
		}
	}
}

// Differential test against fxamacker/cbor: well-formedness verdicts agree on
// random byte strings and on mutations of valid items, and canonical
// encodings agree with fxamacker's core deterministic mode.
func TestDifferentialWellformed(t *testing.T) {
	dm, _ := cbor.DecOptions{MaxNestedLevels: 64, MaxArrayElements: 131072, MaxMapPairs: 131072, UTF8: cbor.UTF8DecodeInvalid}.DecMode()
	rng := rand.New(rand.NewSource(7))
	seeds := make([][]byte, 0, len(appendixA))
	for _, h := range appendixA {
		b, _ := hex.DecodeString(h)
		seeds = append(seeds, b)
	}
	agree, disagree := 0, 0
	for i := 0; i < 200000; i++ {
		var b []byte
		if i%3 == 0 {
			b = make([]byte, rng.Intn(12))
			rng.Read(b)
		} else {
			b = append([]byte{}, seeds[rng.Intn(len(seeds))]...)
			for k := rng.Intn(3); k >= 0 && len(b) > 0; k-- {
				switch rng.Intn(3) {
				case 0:
					b[rng.Intn(len(b))] ^= 1 << uint(rng.Intn(8))
				case 1:
					j := rng.Intn(len(b))
					b = append(b[:j], b[j+1:]...)
				default:
					j := rng.Intn(len(b) + 1)
					b = append(b[:j], append([]byte{byte(rng.Intn(256))}, b[j:]...)...)
				}
			}
		}
		_, refErr := ParseOne(b)
		libErr := dm.Wellformed(b)
		if (refErr == nil) != (libErr == nil) {
			// fxamacker limits (nesting, sizes) and tag-content validation are not well-formedness
			disagree++
			t.Errorf("%x: ref=%v lib=%v", b, refErr, libErr)
			if disagree > 5 {
				t.FailNow()
			}
		} else {
			agree++
		}
	}
	t.Logf("agree=%d", agree)
}

func TestCanonicalMatchesCoreDeterministic(t *testing.T) {
	em, _ := cbor.EncOptions{Sort: cbor.SortCoreDeterministic}.EncMode()
	rng := rand.New(rand.NewSource(11))
	var gen func(d int) (any, *Item)
	gen = func(d int) (any, *Item) {
		switch k := rng.Intn(7); {
		case k == 0:
			v := rng.Int63() >> uint(rng.Intn(63))
			if rng.Intn(2) == 0 {
				v = -v - 1
			}
			return v, Int(v)
		case k == 1:
			b := make([]byte, rng.Intn(300))
			rng.Read(b)
			return b, Bstr(b)
		case k == 2:
			s := string(bytes.Repeat([]byte{'x'}, rng.Intn(300)))
			return s, Tstr(s)
		case k == 3:
			return nil, Nil()
		case k == 4:
			return true, Bool(true)
		case k == 5 && d > 0:
			n := rng.Intn(5)
			g := make([]any, n)
			its := make([]*Item, n)
			for i := range g {
				g[i], its[i] = gen(d - 1)
			}
			return g, Array(its...)
		case k == 6 && d > 0:
			n := rng.Intn(30)
			g := map[any]any{}
			var kv []*Item
			for i := 0; i < n; i++ {
				var key any
				var ki *Item
				if rng.Intn(2) == 0 {
					v := int64(rng.Intn(100000)) - 50000
					key, ki = v, Int(v)
				} else {
					s := string(bytes.Repeat([]byte{'k'}, rng.Intn(30)))
					key, ki = s, Tstr(s)
				}
				if _, dup := g[key]; dup {
					continue
				}
				gv, vi := gen(d - 1)
				g[key] = gv
				kv = append(kv, ki, vi)
			}
			// shuffle
			for i := len(kv)/2 - 1; i > 0; i-- {
				j := rng.Intn(i + 1)
				kv[2*i], kv[2*j] = kv[2*j], kv[2*i]
				kv[2*i+1], kv[2*j+1] = kv[2*j+1], kv[2*i+1]
			}
			return g, Map(kv...)
		}
		return int64(0), Int(0)
	}
	for i := 0; i < 3000; i++ {
		g, it := gen(3)
		want, err := em.Marshal(g)
		if err != nil {
			t.Fatal(err)
		}
		got := CanonicalBytes(it)
		if !bytes.Equal(got, want) {
			t.Fatalf("canonical mismatch:\n ref %x\n lib %x", got, want)
		}
		if r := IsCanonicalBytes(want); r != "" {
			t.Fatalf("lib deterministic output judged non-canonical: %s: %x", r, want)
		}
	}
}

func TestNonCanonicalDetected(t *testing.T) {
	for _, h := range []string{"1801", "190001", "5801ff", "a2020001 00", "a201000100", "9fff", "5f4101ff", "d81700", "980100", "b80100 00", "a2616200616100", "a2 6161 00 01 00"} {
		b, _ := hex.DecodeString(stripSpaces(h))
		if r := IsCanonicalBytes(b); r == "" {
			t.Fatalf("%s judged canonical", h)
		}
	}
	for _, h := range []string{"a201006161 00", "a2 01 00 6161 00", "a2 0a 00 6161 00", "a2 20 00 6161 00"} {
		b, _ := hex.DecodeString(stripSpaces(h))
		if _, err := ParseOne(b); err != nil {
			continue
		}
		if r := IsCanonicalBytes(b); r != "" {
			t.Fatalf("%s judged non-canonical: %s", h, r)
		}
	}
}

func stripSpaces(s string) string {
	return string(bytes.ReplaceAll([]byte(s), []byte(" "), nil))
}
