// Package refcbor is a small, strict CBOR (RFC 8949) parser and encoder written
// from the RFC for use as the oracle side of every byte-level comparison.  It
// imports neither go-cose nor fxamacker/cbor.
//
// The parser keeps, per item, what the properties talk about: major type,
// argument, the width of the head, definite/indefinite, byte span.  The
// encoder honours those knobs, so the same tree can be emitted in the core
// deterministic encoding (RFC 8949 section 4.2.1) or in any other valid
// encoding an independent peer could have chosen.
package refcbor

import (
	"bytes"
	"encoding/binary"
	"errors"
	"fmt"
	"math"
	"sort"
)

// Major types.
const (
	MUint   = 0
	MNint   = 1
	MBstr   = 2
	MTstr   = 3
	MArray  = 4
	MMap    = 5
	MTag    = 6
	MSimple = 7
)

// Item is one CBOR data item.
type Item struct {
	Major byte
	// Arg is the head argument: the value (major 0), -1-value (major 1), the
	// length in bytes (2, 3) or in elements/pairs (4, 5) for definite items,
	// the tag number (6), the simple value or raw float bits (7).
	Arg uint64
	// Width is the number of bytes following the initial byte in the head:
	// 0 (argument < 24 in the initial byte), 1, 2, 4 or 8.
	Width int
	// Indef marks an indefinite-length string, array or map.
	Indef bool
	// Data is the content of a byte or text string (chunks concatenated).
	Data []byte
	// Chunks holds the chunks of an indefinite-length string.
	Chunks []*Item
	// Elems holds array elements, map entries as k0,v0,k1,v1,..., or the
	// single content item of a tag.
	Elems []*Item
	// Start, HeadEnd, End delimit the item in the parsed source.
	Start, HeadEnd, End int
}

// ErrTrailing is returned by ParseOne when bytes follow the first item.
var ErrTrailing = errors.New("refcbor: trailing bytes after item")

const maxDepth = 512

type parser struct {
	b []byte
}

// Parse parses exactly one well-formed item starting at b[0] and returns it
// together with the number of bytes consumed.
func Parse(b []byte) (*Item, int, error) {
	p := &parser{b: b}
	it, end, err := p.item(0, 0)
	if err != nil {
		return nil, 0, err
	}
	return it, end, nil
}

// ParseOne parses b as exactly one item with nothing after it.
func ParseOne(b []byte) (*Item, error) {
	it, n, err := Parse(b)
	if err != nil {
		return nil, err
	}
	if n != len(b) {
		return it, ErrTrailing
	}
	return it, nil
}

func (p *parser) head(off int) (major byte, ai byte, arg uint64, width int, end int, err error) {
	if off >= len(p.b) {
		return 0, 0, 0, 0, 0, errors.New("refcbor: unexpected end of input")
	}
	ib := p.b[off]
	major = ib >> 5
	ai = ib & 0x1f
	switch {
	case ai < 24:
		return major, ai, uint64(ai), 0, off + 1, nil
	case ai == 24:
		width = 1
	case ai == 25:
		width = 2
	case ai == 26:
		width = 4
	case ai == 27:
		width = 8
	case ai == 31:
		return major, ai, 0, 0, off + 1, nil
	default:
		return 0, 0, 0, 0, 0, fmt.Errorf("refcbor: reserved additional information %d", ai)
	}
	if off+1+width > len(p.b) {
		return 0, 0, 0, 0, 0, errors.New("refcbor: truncated head")
	}
	switch width {
	case 1:
		arg = uint64(p.b[off+1])
	case 2:
		arg = uint64(binary.BigEndian.Uint16(p.b[off+1:]))
	case 4:
		arg = uint64(binary.BigEndian.Uint32(p.b[off+1:]))
	case 8:
		arg = binary.BigEndian.Uint64(p.b[off+1:])
	}
	return major, ai, arg, width, off + 1 + width, nil
}

func (p *parser) item(off, depth int) (*Item, int, error) {
	if depth > maxDepth {
		return nil, 0, errors.New("refcbor: nesting too deep")
	}
	major, ai, arg, width, hend, err := p.head(off)
	if err != nil {
		return nil, 0, err
	}
	it := &Item{Major: major, Arg: arg, Width: width, Start: off, HeadEnd: hend}
	switch major {
	case MUint, MNint:
		if ai == 31 {
			return nil, 0, errors.New("refcbor: indefinite length on integer")
		}
		it.End = hend
		return it, hend, nil
	case MBstr, MTstr:
		if ai == 31 {
			it.Indef = true
			cur := hend
			for {
				if cur >= len(p.b) {
					return nil, 0, errors.New("refcbor: unterminated indefinite string")
				}
				if p.b[cur] == 0xff {
					cur++
					break
				}
				cm, cai, _, _, _, err := p.head(cur)
				if err != nil {
					return nil, 0, err
				}
				if cm != major || cai == 31 {
					return nil, 0, errors.New("refcbor: bad chunk in indefinite string")
				}
				ch, cend, err := p.item(cur, depth+1)
				if err != nil {
					return nil, 0, err
				}
				it.Chunks = append(it.Chunks, ch)
				it.Data = append(it.Data, ch.Data...)
				cur = cend
			}
			if it.Data == nil {
				it.Data = []byte{}
			}
			it.End = cur
			return it, cur, nil
		}
		if arg > uint64(len(p.b)-hend) {
			return nil, 0, errors.New("refcbor: string exceeds input")
		}
		end := hend + int(arg)
		it.Data = p.b[hend:end:end]
		it.End = end
		return it, end, nil
	case MArray, MMap:
		n := arg
		if major == MMap {
			if ai != 31 && arg > math.MaxUint64/2 {
				return nil, 0, errors.New("refcbor: map too large")
			}
			n = arg * 2
		}
		cur := hend
		if ai == 31 {
			it.Indef = true
			for {
				if cur >= len(p.b) {
					return nil, 0, errors.New("refcbor: unterminated indefinite container")
				}
				if p.b[cur] == 0xff {
					if major == MMap && len(it.Elems)%2 != 0 {
						return nil, 0, errors.New("refcbor: break between map key and value")
					}
					cur++
					break
				}
				el, eend, err := p.item(cur, depth+1)
				if err != nil {
					return nil, 0, err
				}
				it.Elems = append(it.Elems, el)
				cur = eend
			}
			it.End = cur
			return it, cur, nil
		}
		if n > uint64(len(p.b)-cur) {
			return nil, 0, errors.New("refcbor: container exceeds input")
		}
		it.Elems = make([]*Item, 0, int(n))
		for i := uint64(0); i < n; i++ {
			el, eend, err := p.item(cur, depth+1)
			if err != nil {
				return nil, 0, err
			}
			it.Elems = append(it.Elems, el)
			cur = eend
		}
		it.End = cur
		return it, cur, nil
	case MTag:
		if ai == 31 {
			return nil, 0, errors.New("refcbor: indefinite length on tag")
		}
		el, eend, err := p.item(hend, depth+1)
		if err != nil {
			return nil, 0, err
		}
		it.Elems = []*Item{el}
		it.End = eend
		return it, eend, nil
	default: // MSimple
		if ai == 31 {
			return nil, 0, errors.New("refcbor: unexpected break")
		}
		if ai == 24 && arg < 32 {
			return nil, 0, errors.New("refcbor: two-byte simple value below 32")
		}
		it.End = hend
		return it, hend, nil
	}
}

// ---------------------------------------------------------------------------
// Constructors

func minWidth(arg uint64) int {
	switch {
	case arg < 24:
		return 0
	case arg <= 0xff:
		return 1
	case arg <= 0xffff:
		return 2
	case arg <= 0xffffffff:
		return 4
	}
	return 8
}

// Uint returns an unsigned integer item.
func Uint(v uint64) *Item { return &Item{Major: MUint, Arg: v, Width: minWidth(v)} }

// Int returns an integer item for a signed value.
func Int(v int64) *Item {
	if v >= 0 {
		return Uint(uint64(v))
	}
	a := uint64(-(v + 1))
	return &Item{Major: MNint, Arg: a, Width: minWidth(a)}
}

// Bstr returns a byte string item.
func Bstr(b []byte) *Item {
	if b == nil {
		b = []byte{}
	}
	return &Item{Major: MBstr, Arg: uint64(len(b)), Width: minWidth(uint64(len(b))), Data: b}
}

// Tstr returns a text string item.
func Tstr(s string) *Item {
	return &Item{Major: MTstr, Arg: uint64(len(s)), Width: minWidth(uint64(len(s))), Data: []byte(s)}
}

// Array returns an array item.
func Array(els ...*Item) *Item {
	return &Item{Major: MArray, Arg: uint64(len(els)), Width: minWidth(uint64(len(els))), Elems: els}
}

// Map returns a map item from alternating keys and values.
func Map(kv ...*Item) *Item {
	return &Item{Major: MMap, Arg: uint64(len(kv) / 2), Width: minWidth(uint64(len(kv) / 2)), Elems: kv}
}

// Tag wraps an item in a tag.
func Tag(n uint64, content *Item) *Item {
	return &Item{Major: MTag, Arg: n, Width: minWidth(n), Elems: []*Item{content}}
}

// Simple values.
func Nil() *Item       { return &Item{Major: MSimple, Arg: 22} }
func Undefined() *Item { return &Item{Major: MSimple, Arg: 23} }
func Bool(b bool) *Item {
	if b {
		return &Item{Major: MSimple, Arg: 21}
	}
	return &Item{Major: MSimple, Arg: 20}
}

// Float64 returns a double-precision float item.
func Float64(f float64) *Item {
	return &Item{Major: MSimple, Arg: math.Float64bits(f), Width: 8}
}

// IsNil reports whether the item is the simple value null.
func (it *Item) IsNil() bool { return it.Major == MSimple && it.Width == 0 && it.Arg == 22 }

// IsUndefined reports whether the item is the simple value undefined.
func (it *Item) IsUndefined() bool { return it.Major == MSimple && it.Width == 0 && it.Arg == 23 }

// IsInt reports whether the item is a (positive or negative) integer.
func (it *Item) IsInt() bool { return it.Major == MUint || it.Major == MNint }

// Int64 returns the value of an integer item and whether it fits in int64.
func (it *Item) Int64() (int64, bool) {
	switch it.Major {
	case MUint:
		if it.Arg > math.MaxInt64 {
			return 0, false
		}
		return int64(it.Arg), true
	case MNint:
		if it.Arg > math.MaxInt64 {
			return 0, false
		}
		return -1 - int64(it.Arg), true
	}
	return 0, false
}

// Clone returns a deep copy.
func (it *Item) Clone() *Item {
	if it == nil {
		return nil
	}
	c := *it
	if it.Data != nil {
		c.Data = append([]byte{}, it.Data...)
	}
	if it.Chunks != nil {
		c.Chunks = make([]*Item, len(it.Chunks))
		for i, ch := range it.Chunks {
			c.Chunks[i] = ch.Clone()
		}
	}
	if it.Elems != nil {
		c.Elems = make([]*Item, len(it.Elems))
		for i, e := range it.Elems {
			c.Elems[i] = e.Clone()
		}
	}
	return &c
}

// ---------------------------------------------------------------------------
// Encoder

func appendHead(out []byte, major byte, arg uint64, width int) []byte {
	if w := minWidth(arg); width < w {
		width = w
	}
	switch width {
	case 0:
		return append(out, major<<5|byte(arg))
	case 1:
		return append(out, major<<5|24, byte(arg))
	case 2:
		return append(out, major<<5|25, byte(arg>>8), byte(arg))
	case 4:
		return append(out, major<<5|26, byte(arg>>24), byte(arg>>16), byte(arg>>8), byte(arg))
	default:
		return append(out, major<<5|27, byte(arg>>56), byte(arg>>48), byte(arg>>40), byte(arg>>32),
			byte(arg>>24), byte(arg>>16), byte(arg>>8), byte(arg))
	}
}

// Encode emits the item honouring the Width and Indef knobs of every node.
// Lengths are taken from the actual content, never from Arg.
func Encode(it *Item) []byte { return appendItem(nil, it) }

func appendItem(out []byte, it *Item) []byte {
	switch it.Major {
	case MUint, MNint:
		return appendHead(out, it.Major, it.Arg, it.Width)
	case MBstr, MTstr:
		if it.Indef {
			out = append(out, it.Major<<5|31)
			if len(it.Chunks) > 0 {
				for _, ch := range it.Chunks {
					out = appendHead(out, it.Major, uint64(len(ch.Data)), ch.Width)
					out = append(out, ch.Data...)
				}
			} else if len(it.Data) > 0 {
				out = appendHead(out, it.Major, uint64(len(it.Data)), 0)
				out = append(out, it.Data...)
			}
			return append(out, 0xff)
		}
		out = appendHead(out, it.Major, uint64(len(it.Data)), it.Width)
		return append(out, it.Data...)
	case MArray, MMap:
		n := uint64(len(it.Elems))
		if it.Major == MMap {
			n /= 2
		}
		if it.Indef {
			out = append(out, it.Major<<5|31)
		} else {
			out = appendHead(out, it.Major, n, it.Width)
		}
		for _, e := range it.Elems {
			out = appendItem(out, e)
		}
		if it.Indef {
			out = append(out, 0xff)
		}
		return out
	case MTag:
		out = appendHead(out, MTag, it.Arg, it.Width)
		return appendItem(out, it.Elems[0])
	default:
		switch it.Width {
		case 0:
			return append(out, 7<<5|byte(it.Arg&0x1f))
		case 1:
			return append(out, 7<<5|24, byte(it.Arg))
		case 2:
			return append(out, 7<<5|25, byte(it.Arg>>8), byte(it.Arg))
		case 4:
			return append(out, 7<<5|26, byte(it.Arg>>24), byte(it.Arg>>16), byte(it.Arg>>8), byte(it.Arg))
		default:
			return append(out, 7<<5|27, byte(it.Arg>>56), byte(it.Arg>>48), byte(it.Arg>>40), byte(it.Arg>>32),
				byte(it.Arg>>24), byte(it.Arg>>16), byte(it.Arg>>8), byte(it.Arg))
		}
	}
}

// Canonical returns a deep copy in core deterministic form: shortest heads,
// definite lengths, map entries sorted bytewise by encoded key.  Floats are
// left at the width they have (the properties checked do not speak of float
// width).
func Canonical(it *Item) *Item {
	c := &Item{Major: it.Major, Arg: it.Arg}
	switch it.Major {
	case MUint, MNint, MTag:
		c.Width = minWidth(it.Arg)
	case MBstr, MTstr:
		c.Data = append([]byte{}, it.Data...)
		c.Arg = uint64(len(c.Data))
		c.Width = minWidth(c.Arg)
	case MSimple:
		c.Width = it.Width
	}
	switch it.Major {
	case MArray:
		c.Arg = uint64(len(it.Elems))
		c.Width = minWidth(c.Arg)
		for _, e := range it.Elems {
			c.Elems = append(c.Elems, Canonical(e))
		}
	case MTag:
		c.Elems = []*Item{Canonical(it.Elems[0])}
	case MMap:
		type pair struct {
			kb   []byte
			k, v *Item
		}
		var ps []pair
		for i := 0; i+1 < len(it.Elems); i += 2 {
			k := Canonical(it.Elems[i])
			ps = append(ps, pair{Encode(k), k, Canonical(it.Elems[i+1])})
		}
		sort.SliceStable(ps, func(a, b int) bool { return bytes.Compare(ps[a].kb, ps[b].kb) < 0 })
		for _, p := range ps {
			c.Elems = append(c.Elems, p.k, p.v)
		}
		c.Arg = uint64(len(ps))
		c.Width = minWidth(c.Arg)
	}
	return c
}

// CanonicalBytes is Encode(Canonical(it)).
func CanonicalBytes(it *Item) []byte { return Encode(Canonical(it)) }

// NonCanonical explains why a parsed item is not in deterministic form
// (shortest integers and lengths, definite lengths, map keys sorted bytewise
// and unique).  It returns "" for a canonical item.  src is the buffer the
// item was parsed from.
func NonCanonical(it *Item, src []byte) string {
	switch it.Major {
	case MUint, MNint, MTag, MBstr, MTstr, MArray, MMap:
		if it.Indef {
			return fmt.Sprintf("indefinite length at offset %d", it.Start)
		}
		if it.Width != minWidth(it.Arg) {
			return fmt.Sprintf("non-shortest head at offset %d", it.Start)
		}
	}
	switch it.Major {
	case MArray, MTag:
		for _, e := range it.Elems {
			if r := NonCanonical(e, src); r != "" {
				return r
			}
		}
	case MMap:
		var prev []byte
		for i := 0; i+1 < len(it.Elems); i += 2 {
			k := it.Elems[i]
			if r := NonCanonical(k, src); r != "" {
				return r
			}
			if r := NonCanonical(it.Elems[i+1], src); r != "" {
				return r
			}
			kb := src[k.Start:k.End]
			if i > 0 {
				switch c := bytes.Compare(prev, kb); {
				case c == 0:
					return fmt.Sprintf("duplicate map key at offset %d", k.Start)
				case c > 0:
					return fmt.Sprintf("map keys out of order at offset %d", k.Start)
				}
			}
			prev = kb
		}
	}
	return ""
}

// IsCanonicalBytes parses b as one item and reports why it is not canonical
// ("" when it is).
func IsCanonicalBytes(b []byte) string {
	it, err := ParseOne(b)
	if err != nil {
		return "not one well-formed item: " + err.Error()
	}
	return NonCanonical(it, b)
}

// KeyIdentity returns a byte string that is equal for two map keys exactly
// when they are the same value in the CBOR data model: head widths are
// ignored, floats of different widths with the same value coincide.
func KeyIdentity(k *Item) string {
	if k.Major == MSimple && k.Width >= 2 {
		var f float64
		switch k.Width {
		case 2:
			f = float16to64(uint16(k.Arg))
		case 4:
			f = float64(math.Float32frombits(uint32(k.Arg)))
		default:
			f = math.Float64frombits(k.Arg)
		}
		var b [9]byte
		b[0] = 0xfb
		binary.BigEndian.PutUint64(b[1:], math.Float64bits(f))
		return string(b[:])
	}
	return string(CanonicalBytes(k))
}

func float16to64(h uint16) float64 {
	sign := uint64(h>>15) & 1
	exp := int(h>>10) & 0x1f
	frac := uint64(h & 0x3ff)
	var f float64
	switch {
	case exp == 0:
		f = math.Ldexp(float64(frac), -24)
	case exp == 31:
		if frac == 0 {
			f = math.Inf(1)
		} else {
			f = math.NaN()
		}
	default:
		f = math.Ldexp(float64(frac+1024), exp-25)
	}
	if sign == 1 {
		f = -f
	}
	return f
}

// DuplicateKey reports the first map (at any depth, not descending into byte
// strings) that has two equal keys; "" if none.
func DuplicateKey(it *Item) string {
	switch it.Major {
	case MArray, MTag:
		for _, e := range it.Elems {
			if r := DuplicateKey(e); r != "" {
				return r
			}
		}
	case MMap:
		seen := make(map[string]bool, len(it.Elems)/2)
		for i := 0; i+1 < len(it.Elems); i += 2 {
			id := KeyIdentity(it.Elems[i])
			if seen[id] {
				return fmt.Sprintf("duplicate key at offset %d", it.Elems[i].Start)
			}
			seen[id] = true
			if r := DuplicateKey(it.Elems[i]); r != "" {
				return r
			}
			if r := DuplicateKey(it.Elems[i+1]); r != "" {
				return r
			}
		}
	}
	return ""
}

// HasIndefinite reports whether any item in the tree has indefinite length.
func HasIndefinite(it *Item) bool {
	if it.Indef {
		return true
	}
	for _, e := range it.Elems {
		if HasIndefinite(e) {
			return true
		}
	}
	return false
}

// HasTag reports whether any item in the tree is a tag.
func HasTag(it *Item) bool {
	if it.Major == MTag {
		return true
	}
	for _, e := range it.Elems {
		if HasTag(e) {
			return true
		}
	}
	return false
}

// Walk calls f for every item of the tree in document order (pre-order).
func Walk(it *Item, f func(it *Item, depth int)) { walk(it, 0, f) }

func walk(it *Item, d int, f func(*Item, int)) {
	f(it, d)
	for _, e := range it.Elems {
		walk(e, d+1, f)
	}
}

// All returns every item of the tree in document order.
func All(it *Item) []*Item {
	var out []*Item
	Walk(it, func(x *Item, _ int) { out = append(out, x) })
	return out
}

// Diag renders an item in a compact diagnostic notation (for logs and
// evidence samples).
func Diag(it *Item) string {
	var b bytes.Buffer
	diag(&b, it, 0)
	return b.String()
}

func diag(b *bytes.Buffer, it *Item, depth int) {
	if depth > 12 || b.Len() > 600 {
		b.WriteString("...")
		return
	}
	switch it.Major {
	case MUint:
		fmt.Fprintf(b, "%d", it.Arg)
	case MNint:
		if v, ok := it.Int64(); ok {
			fmt.Fprintf(b, "%d", v)
		} else {
			fmt.Fprintf(b, "-1-%d", it.Arg)
		}
	case MBstr:
		if len(it.Data) > 24 {
			fmt.Fprintf(b, "h'%x..'(%d)", it.Data[:8], len(it.Data))
		} else {
			fmt.Fprintf(b, "h'%x'", it.Data)
		}
	case MTstr:
		if len(it.Data) > 24 {
			fmt.Fprintf(b, "%q..(%d)", it.Data[:8], len(it.Data))
		} else {
			fmt.Fprintf(b, "%q", it.Data)
		}
	case MArray:
		b.WriteByte('[')
		for i, e := range it.Elems {
			if i > 0 {
				b.WriteString(", ")
			}
			diag(b, e, depth+1)
		}
		b.WriteByte(']')
	case MMap:
		b.WriteByte('{')
		for i := 0; i+1 < len(it.Elems); i += 2 {
			if i > 0 {
				b.WriteString(", ")
			}
			diag(b, it.Elems[i], depth+1)
			b.WriteString(": ")
			diag(b, it.Elems[i+1], depth+1)
		}
		b.WriteByte('}')
	case MTag:
		fmt.Fprintf(b, "%d(", it.Arg)
		diag(b, it.Elems[0], depth+1)
		b.WriteByte(')')
	default:
		switch {
		case it.Width >= 2:
			fmt.Fprintf(b, "float%d(%x)", it.Width*8, it.Arg)
		case it.Arg == 20:
			b.WriteString("false")
		case it.Arg == 21:
			b.WriteString("true")
		case it.Arg == 22:
			b.WriteString("null")
		case it.Arg == 23:
			b.WriteString("undefined")
		default:
			fmt.Fprintf(b, "simple(%d)", it.Arg)
		}
	}
}
