// Package verifsim is compiled into the instrumented scratch copy of go-cose
// (never into /repo).  It gives the simulator the two things the library has
// no seam for: a preemption point before every statement and the iteration
// order of range-over-map loops.
package verifsim

import (
	"fmt"
	"os"
	"sort"
	"time"
)

// EnvHook, when non-nil, is the process environment of the library: every
// os.Getenv and os.LookupEnv inside a function of package cose is routed here
// by the instrumenter.  (The pinned go-cose reads no environment variable.)
var EnvHook func(name string) (string, bool)

// EnvReads counts the reads of the environment by package cose.
var EnvReads uint64

// LookupEnv replaces os.LookupEnv inside package cose.
func LookupEnv(name string) (string, bool) {
	EnvReads++
	if h := EnvHook; h != nil {
		return h(name)
	}
	return os.LookupEnv(name)
}

// Getenv replaces os.Getenv inside package cose.
func Getenv(name string) string {
	v, _ := LookupEnv(name)
	return v
}

// NowHook, when non-nil, is the wall clock of the library: every time.Now,
// time.Since and time.Until inside package cose is routed here by the
// instrumenter.  (The pinned go-cose reads no clock at all; the seam exists so
// that a change which starts to would read the simulator's clock, not the
// machine's.)
var NowHook func() time.Time

// ClockReads counts the reads of the clock by package cose.
var ClockReads uint64

// Now replaces time.Now inside package cose.
func Now() time.Time {
	ClockReads++
	if h := NowHook; h != nil {
		return h()
	}
	return time.Now()
}

// Since replaces time.Since inside package cose.
func Since(t time.Time) time.Duration { return Now().Sub(t) }

// Until replaces time.Until inside package cose.
func Until(t time.Time) time.Duration { return t.Sub(Now()) }

// YieldHook, when non-nil, is called at every yield site.  It is set by the
// simulator before tasks are started and cleared after they are joined.
var YieldHook func(site int)

// Steps counts the yield points passed: the number of statements of package
// cose executed so far.  It is a deterministic, load-independent measure of
// the work go-cose itself does for a call (work inside the CBOR library and
// crypto is not counted).
var Steps uint64

// Hit marks the yield sites passed at least once (statement coverage of
// package cose as seen by the simulator).  Sized by the generated site table.
var Hit = make([]bool, 1<<14)

// Yield is inserted before every statement of package cose.
//
//go:norace
func Yield(site int) {
	Steps++
	if site < len(Hit) {
		Hit[site] = true
	}
	if h := YieldHook; h != nil {
		h(site)
	}
}

// PermHook, when non-nil, returns the permutation a range-over-map loop of n
// entries must follow (a permutation of 0..n-1 applied to the canonically
// sorted entries).
var PermHook func(n int) []int

// KV is one map entry.
type KV[K comparable, V any] struct {
	K K
	V V
}

// Pairs returns the entries of m sorted canonically (which erases the
// runtime's random order) and then permuted as the simulator decides.
func Pairs[M ~map[K]V, K comparable, V any](m M) []KV[K, V] {
	out := make([]KV[K, V], 0, len(m))
	keys := make([]string, 0, len(m))
	for k, v := range m {
		out = append(out, KV[K, V]{k, v})
		keys = append(keys, fmt.Sprintf("%T/%v", k, k))
	}
	idx := make([]int, len(out))
	for i := range idx {
		idx[i] = i
	}
	sort.SliceStable(idx, func(a, b int) bool { return keys[idx[a]] < keys[idx[b]] })
	sorted := make([]KV[K, V], len(out))
	for i, j := range idx {
		sorted[i] = out[j]
	}
	if h := PermHook; h != nil && len(sorted) > 1 {
		p := h(len(sorted))
		if len(p) == len(sorted) {
			perm := make([]KV[K, V], len(sorted))
			for i, j := range p {
				perm[i] = sorted[j]
			}
			return perm
		}
	}
	return sorted
}
