#!/bin/sh
# Builds the framework from files on disk only (offline).
set -e
cd /verif
export GOFLAGS=-mod=mod GOPROXY=off GOSUMDB=off GOTOOLCHAIN=local
mkdir -p bin evidence replays
go build -o bin/verif ./cmd/verif
go build -o bin/instrument ./cmd/instrument
./bin/verif selftest
