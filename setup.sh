#!/bin/sh
# Builds the framework from files on disk only (offline) and runs the
# self-tests of the machinery (reference model, instrumenter).
set -e
cd "$(dirname "$0")"
export GOFLAGS=-mod=mod GOPROXY=off GOSUMDB=off GOTOOLCHAIN=local
mkdir -p bin evidence replays
go build -o bin/verif ./cmd/verif
go build -o bin/instrument ./cmd/instrument
./bin/verif selftest
