// Package tape is the single source of every choice a simulated run makes:
// generated operations, header content, keys, payload lengths, faults, fault
// positions, task scheduling, map-iteration permutations, entropy bytes.
//
// In generation mode each Choose draws from a PRNG seeded from one integer and
// appends the drawn value to the tape; in replay mode it reads the recorded
// value (mod n; 0 when the tape is exhausted).  The tape - not the seed - is
// the replay file, so shrinking the tape shrinks inputs, faults and schedule
// with one mechanism.  Nothing here reads a clock, a global RNG or a Go map.
package tape

// SplitMix64 is the seed-derivation function: run i of property p under
// VERIF_SEED s uses Mix(s, p, i).
func SplitMix64(x uint64) uint64 {
	x += 0x9e3779b97f4a7c15
	z := x
	z = (z ^ (z >> 30)) * 0xbf58476d1ce4e5b9
	z = (z ^ (z >> 27)) * 0x94d049bb133111eb
	return z ^ (z >> 31)
}

// Mix derives one 64-bit seed from several integers.
func Mix(vs ...uint64) uint64 {
	h := uint64(0x6a09e667f3bcc908)
	for _, v := range vs {
		h = SplitMix64(h ^ v)
	}
	return h
}

// HashString folds a string into a 64-bit value (FNV-1a); used to derive a
// per-property stream from the property id.
func HashString(s string) uint64 {
	h := uint64(14695981039346656037)
	for i := 0; i < len(s); i++ {
		h ^= uint64(s[i])
		h *= 1099511628211
	}
	return h
}

// Tape records or replays a sequence of bounded choices.
type Tape struct {
	rec    []uint32
	pos    int
	replay bool
	state  uint64
	marks  []int // tape positions at operation boundaries (generation and replay)
	forced []uint32
	// Trace, when non-nil, receives one line per choice ("label n -> v").
	// It never influences execution.
	Trace func(label string, n, v int)
}

// New returns a tape in generation mode.
func New(seed uint64) *Tape {
	return &Tape{state: seed}
}

// NewWithPrefix returns a tape in generation mode whose first choices are
// forced to the given values (they are recorded like drawn ones, so the
// recorded tape replays the run without knowing about the prefix).  It is how
// a check enumerates one dimension exhaustively (for example fault vectors)
// while the rest of the run is still drawn from the PRNG.
func NewWithPrefix(seed uint64, prefix []uint32) *Tape {
	return &Tape{state: seed, forced: append([]uint32{}, prefix...)}
}

// Replay returns a tape that replays the recorded values.
func Replay(rec []uint32) *Tape {
	cp := make([]uint32, len(rec))
	copy(cp, rec)
	return &Tape{rec: cp, replay: true}
}

func (t *Tape) next32() uint32 {
	t.state += 0x9e3779b97f4a7c15
	z := t.state
	z = (z ^ (z >> 30)) * 0xbf58476d1ce4e5b9
	z = (z ^ (z >> 27)) * 0x94d049bb133111eb
	z ^= z >> 31
	return uint32(z >> 32)
}

// Choose returns a value in [0, n).  n <= 0 is treated as 1.
func (t *Tape) Choose(n int, label string) int {
	if n <= 1 {
		// Still consumes a slot so that tapes stay aligned when a bound
		// changes between 1 and more during minimisation.
		t.raw()
		if t.Trace != nil {
			t.Trace(label, 1, 0)
		}
		return 0
	}
	v := int(t.raw() % uint32(n))
	if t.Trace != nil {
		t.Trace(label, n, v)
	}
	return v
}

func (t *Tape) raw() uint32 {
	if t.replay {
		if t.pos < len(t.rec) {
			v := t.rec[t.pos]
			t.pos++
			return v
		}
		t.pos++
		return 0
	}
	v := t.next32()
	if t.pos < len(t.forced) {
		v = t.forced[t.pos]
	}
	t.rec = append(t.rec, v)
	t.pos++
	return v
}

// U32 returns a full 32-bit value (used as a sub-seed for bulk content).
func (t *Tape) U32(label string) uint32 {
	v := t.raw()
	if t.Trace != nil {
		t.Trace(label, 0, int(v))
	}
	return v
}

// Bool returns true with probability num/den.
func (t *Tape) Bool(num, den int, label string) bool {
	return t.Choose(den, label) < num
}

// Range returns a value in [lo, hi].
func (t *Tape) Range(lo, hi int, label string) int {
	if hi < lo {
		hi = lo
	}
	return lo + t.Choose(hi-lo+1, label)
}

// Pick returns one of the weights' indices with probability proportional to
// its weight.
func (t *Tape) Pick(weights []int, label string) int {
	total := 0
	for _, w := range weights {
		total += w
	}
	if total <= 0 {
		t.raw()
		return 0
	}
	v := t.Choose(total, label)
	for i, w := range weights {
		if v < w {
			return i
		}
		v -= w
	}
	return len(weights) - 1
}

// Bytes returns n bytes derived from one tape value; a zero tape value gives
// a simple repeating pattern, so minimised tapes carry simple content.
func (t *Tape) Bytes(n int, label string) []byte {
	seed := uint64(t.U32(label))
	if n < 0 {
		n = 0
	}
	out := make([]byte, n)
	if seed == 0 {
		for i := range out {
			out[i] = byte('a' + i%26)
		}
		return out
	}
	s := SplitMix64(seed)
	for i := 0; i < n; i++ {
		if i%8 == 0 {
			s = SplitMix64(s)
		}
		out[i] = byte(s >> (8 * uint(i%8)))
	}
	return out
}

// Perm returns a permutation of 0..n-1 (Fisher-Yates driven by the tape).
func (t *Tape) Perm(n int, label string) []int {
	p := make([]int, n)
	for i := range p {
		p[i] = i
	}
	for i := n - 1; i > 0; i-- {
		j := t.Choose(i+1, label)
		p[i], p[j] = p[j], p[i]
	}
	return p
}

// Mark records an operation boundary at the current position.
func (t *Tape) Mark() { t.marks = append(t.marks, t.pos) }

// Marks returns the recorded operation boundaries.
func (t *Tape) Marks() []int { return t.marks }

// Recorded returns the values consumed so far (generation mode) or the
// replayed tape truncated/padded to what was consumed (replay mode).
func (t *Tape) Recorded() []uint32 {
	if !t.replay {
		out := make([]uint32, len(t.rec))
		copy(out, t.rec)
		return out
	}
	out := make([]uint32, t.pos)
	copy(out, t.rec)
	return out
}

// Pos is the number of choices consumed.
func (t *Tape) Pos() int { return t.pos }
