package main

import (
	"encoding/json"
	"fmt"
	"os"
	"os/exec"
	"path/filepath"
	"strings"
)

// propInfo is the constant description of a check as reported by the worker
// (sim.Infos), plus the driver-side phases.
type propInfo struct {
	Rule         string   `json:"Rule"`
	Assumptions  []string `json:"Assumptions"`
	Real         []string `json:"Real"`
	Stubs        []string `json:"Stubs"`
	QuickRuns    int      `json:"QuickRuns"`
	ThoroughRuns int      `json:"ThoroughRuns"`
	Level        string   `json:"Level"`
	EnumSpace    int      `json:"EnumSpace"`
	EnumRepeat   int      `json:"EnumRepeat"`
	EnumWhat     string   `json:"EnumWhat"`

	Instrumented bool `json:"-"`
	// Fallback allows the plain build when the instrumented one fails.
	Fallback bool `json:"-"`
	// fellBack records that it happened.
	fellBack bool
	// DetRuns is the number of runs the determinism self-test executes in two
	// processes (default 24).
	DetRuns    int  `json:"-"`
	NoMinimise bool `json:"-"`
	// Extra runs property-specific additional phases after the main batch
	// and may return notes for the evidence file and a violation.
	Extra func(dir, id, tier string, seed uint64, knownPath string, agg *aggregate) (map[string]any, *replayFile) `json:"-"`
	// Replay overrides the default replay procedure.
	Replay func(dir, path string, rf *replayFile) int `json:"-"`
}

// props lists the properties that have a check.  The descriptive fields are
// filled from the worker at run time (loadInfo).
var props = map[string]*propInfo{
	// Every check runs against the instrumented scratch copy of /repo's working
	// tree, so that the order of every range-over-map loop inside go-cose is a
	// tape decision everywhere (C08 and C18 need the copy anyway).  For the
	// others a tree the instrumenter cannot handle falls back to the plain
	// build (map order then is the runtime's; said so in the evidence).
	"C01": {Instrumented: true, Fallback: true},
	"C02": {Instrumented: true, Fallback: true},
	"C03": {Instrumented: true, Fallback: true},
	"C04": {Instrumented: true, Fallback: true},
	"C05": {Instrumented: true, Fallback: true},
	"C06": {Instrumented: true, Fallback: true},
	"C07": {Instrumented: true, Fallback: true},
	"C08": {Instrumented: true, DetRuns: 400},
	"C09": {Instrumented: true, Fallback: true},
	"C10": {Instrumented: true, Fallback: true},
	"C11": {Instrumented: true, Fallback: true},
	"C12": {Instrumented: true, Fallback: true},
	"C14": {Instrumented: true, Fallback: true},
	"C15": {Instrumented: true, Fallback: true},
	"C16": {Instrumented: true, Fallback: true},
	"C18": {Instrumented: true, Extra: c18RacePhase, Replay: c18Replay},
	"C19": {Instrumented: true, Fallback: true},
	"C20": {Instrumented: true, Fallback: true},
}

func loadInfo(bin, id string, p *propInfo) error {
	out, err := exec.Command(bin, "info", "-prop", id).Output()
	if err != nil {
		return fmt.Errorf("cosesim info: %v", err)
	}
	keepI, keepN, keepE, keepR, keepD, keepF, keepFB := p.Instrumented, p.NoMinimise, p.Extra, p.Replay, p.DetRuns, p.Fallback, p.fellBack
	if err := json.Unmarshal(out, p); err != nil {
		return err
	}
	p.Instrumented, p.NoMinimise, p.Extra, p.Replay, p.DetRuns, p.Fallback, p.fellBack = keepI, keepN, keepE, keepR, keepD, keepF, keepFB
	return nil
}

// writeEvidence rewrites /verif/evidence/<id>.json from this run's counters.
func writeEvidence(id, tier string, seed uint64, p *propInfo, a *aggregate, det detResult, wall float64, exit int, extra map[string]any, kf knownFile) {
	samples := []any{}
	for _, s := range a.samples {
		samples = append(samples, s)
	}
	if len(samples) == 0 {
		samples = append(samples, "no run evaluated an invariant")
	}
	cov := map[string]any{
		"evaluations":           a.runs,
		"distinct_nontrivial":   len(a.shapes),
		"rule":                  p.Rule,
		"samples":               samples,
		"nontrivial_runs":       a.nontriv,
		"skipped_runs":          a.skipped,
		"operations":            a.ops,
		"logical_steps":         a.steps,
		"invariant_evaluations": a.checks,
		"simulated_time":        fmt.Sprintf("%d logical steps (library calls and scheduler steps); the wall clock is a seam (per run an instant between 1970 and 9999 and a jump of 0 s..80 years per read, both from the tape) that go-cose read %d times in this check (simulated environment: %d reads)", a.steps, a.faults["clock.read-by-library"], a.faults["env.read-by-library"]),
		"faults_fired":          a.faults,
		"probes":                a.probes,
		"runs_per_hour":         int(float64(a.runs) / wall * 3600),
		"seeds":                 []uint64{seed},
		"real_components":       p.Real,
		"stub_components":       append(append([]string{}, p.Stubs...), "wall clock and process environment of package cose: simulated (tape-drawn instant, per-read jump and variable values; time.Now/Since/Until and os.Getenv/LookupEnv rerouted by the instrumenter; the pinned tree reads neither)"),
		"determinism_selftest": map[string]any{
			"tapes": det.tapes, "processes": det.procs, "gomaxprocs": []int{1, 8}, "identical_event_logs": det.ok, "log_sha256": det.hashes,
		},
		"exhaustive":          false,
		"map_iteration_order": mapOrderNote(p),
	}
	if len(a.extra) > 0 {
		cov["counters"] = a.extra
	}
	if a.numSites > 0 {
		cov["go_cose_statements_reached"] = map[string]any{"yield_sites_passed": len(a.sites), "yield_sites_total": a.numSites,
			"measure": "distinct statements of package cose (yield sites of the instrumented copy) executed at least once by this check"}
		if len(siteTable) == a.numSites+1 {
			// per function: statements never executed / statements (functions reached completely are left out)
			tot, miss := map[string]int{}, map[string]int{}
			for i := 1; i < len(siteTable); i++ {
				fn := strings.SplitN(siteTable[i], " ", 2)[0]
				tot[fn]++
				if !a.sites[i] {
					miss[fn]++
				}
			}
			un := map[string]string{}
			for fn, m := range miss {
				un[fn] = fmt.Sprintf("%d/%d", m, tot[fn])
			}
			cov["go_cose_statements_reached"].(map[string]any)["never_executed_by_function"] = un
			if d := os.Getenv("VERIF_SITES_DIR"); d != "" {
				// side output for tools/sites_union.py: the statements this check executed
				var hit []string
				for i := 1; i < len(siteTable); i++ {
					if a.sites[i] {
						hit = append(hit, siteTable[i])
					}
				}
				os.MkdirAll(d, 0o755)
				os.WriteFile(filepath.Join(d, id+".txt"), []byte(strings.Join(hit, "\n")+"\n"), 0o644)
				var all []string
				all = append(all, siteTable[1:]...)
				os.WriteFile(filepath.Join(d, "ALL.txt"), []byte(strings.Join(all, "\n")+"\n"), 0o644)
			}
		}
	}
	if len(a.skips) > 0 {
		cov["skipped_run_reasons"] = a.skips
	}
	if len(a.scheds) > 0 {
		cov["schedules_distinct"] = len(a.scheds)
		cov["schedules_measure"] = "distinct hashes of the (task, yield site) sequence of a concurrent block"
	}
	if p.EnumSpace > 0 {
		complete := a.enumerated >= p.EnumSpace*p.EnumRepeat
		cov["enumerated_dimension"] = map[string]any{
			"what": p.EnumWhat, "space": p.EnumSpace, "contexts_per_element": p.EnumRepeat,
			"runs_with_forced_element": a.enumerated, "enumerated_completely": complete,
		}
		// exhaustive over the fault-vector dimension only; contexts are sampled
		cov["exhaustive"] = false
		cov["exhaustive_over_fault_vectors"] = complete
	}
	for k, v := range extra {
		cov[k] = v
	}
	known := []string{}
	for _, sig := range sortedKnown(a.known) {
		known = append(known, sig)
	}
	cov["known_findings_fired"] = known
	ev := map[string]any{
		"property_id": id,
		"tier":        tier,
		"seed":        seed,
		"level":       p.Level,
		"coverage":    cov,
		"assumptions": p.Assumptions,
		"wall_s":      wall,
		"violations":  exit,
	}
	os.MkdirAll(filepath.Join(outDir(), "evidence"), 0o755)
	b, _ := json.MarshalIndent(ev, "", " ")
	if err := os.WriteFile(filepath.Join(outDir(), "evidence", id+".json"), append(b, '\n'), 0o644); err != nil {
		fmt.Fprintln(os.Stderr, "verif: cannot write evidence:", err)
	}
}

func selftest() int {
	fmt.Println("verif selftest: reference model and determinism")
	cmd := exec.Command("go", "test", "-count=1", "./refcbor/...", "./refcose/...", "./tape/...")
	cmd.Dir = verifDir
	cmd.Env = goEnv()
	cmd.Stdout = os.Stdout
	cmd.Stderr = os.Stderr
	if err := cmd.Run(); err != nil {
		fmt.Fprintln(os.Stderr, "verif selftest: reference-model self-test failed")
		return 2
	}
	// the instrumentation must preserve semantics: the repository's own suite
	// has to pass on the instrumented copy (no scheduler installed: Yield is a
	// load and a return, map ranges follow the canonical order)
	dir := scratch()
	defer os.RemoveAll(dir)
	copyDir := filepath.Join(dir, "repo")
	if err := makeInstrumentedCopy(dir, copyDir); err != nil {
		fmt.Fprintln(os.Stderr, "verif selftest: cannot instrument a copy of /repo:", err)
		return 2
	}
	t := exec.Command("go", "test", "-vet=off", "-count=1", ".")
	t.Dir = copyDir
	t.Env = goEnv()
	out, err := t.CombinedOutput()
	if err != nil {
		fmt.Fprintf(os.Stderr, "verif selftest: the repository's suite fails on the instrumented copy:\n%s\n", out)
		return 2
	}
	fmt.Printf("verif selftest: repository suite passes on the instrumented copy: %s", lastLine(out))
	// the clock seam: code of package cose that reads the wall clock reads
	// the simulator's once instrumented (the pinned tree has no such code, so
	// a probe file is planted in a second copy before instrumenting it)
	dir2 := scratch()
	defer os.RemoveAll(dir2)
	copy2 := filepath.Join(dir2, "repo")
	probe := map[string]string{
		"zz_verif_clock_probe.go": `package cose

import (
	"os"
	"time"
)

func verifClockProbe(t0 time.Time) (time.Time, time.Duration, time.Duration) {
	now := time.Now()
	return now, time.Since(t0), time.Until(t0)
}

func verifEnvProbe() (string, string, bool) {
	a := os.Getenv("VERIF_PROBE_A")
	b, ok := os.LookupEnv("VERIF_PROBE_B")
	return a, b, ok
}
`,
		"zz_verif_clock_probe_test.go": `package cose

import (
	"testing"
	"time"

	"github.com/veraison/go-cose/verifsim"
)

func TestVerifClockProbe(t *testing.T) {
	at := time.Unix(253402300799, 0).UTC()
	verifsim.NowHook = func() time.Time { return at }
	defer func() { verifsim.NowHook = nil }()
	r0 := verifsim.ClockReads
	now, since, until := verifClockProbe(at.Add(-time.Hour))
	if !now.Equal(at) || since != time.Hour || until != -time.Hour || verifsim.ClockReads-r0 != 3 {
		t.Fatalf("clock reads of package cose do not reach the simulated clock: %v %v %v reads=%d", now, since, until, verifsim.ClockReads-r0)
	}
	verifsim.EnvHook = func(name string) (string, bool) { return "sim:" + name, true }
	defer func() { verifsim.EnvHook = nil }()
	e0 := verifsim.EnvReads
	a, b, ok := verifEnvProbe()
	if a != "sim:VERIF_PROBE_A" || b != "sim:VERIF_PROBE_B" || !ok || verifsim.EnvReads-e0 != 2 {
		t.Fatalf("environment reads of package cose do not reach the simulated environment: %q %q %v reads=%d", a, b, ok, verifsim.EnvReads-e0)
	}
}
`,
	}
	if err := makeInstrumentedCopyWith(dir2, copy2, probe); err != nil {
		fmt.Fprintln(os.Stderr, "verif selftest: cannot instrument the clock-probe copy:", err)
		return 2
	}
	t2 := exec.Command("go", "test", "-vet=off", "-count=1", "-run", "TestVerifClockProbe", ".")
	t2.Dir = copy2
	t2.Env = goEnv()
	if out, err := t2.CombinedOutput(); err != nil {
		fmt.Fprintf(os.Stderr, "verif selftest: the clock seam does not work:\n%s\n", out)
		return 2
	}
	fmt.Println("verif selftest: clock and environment seams: time.Now/Since/Until and os.Getenv/LookupEnv planted in package cose read the simulator's")
	return 0
}

func lastLine(b []byte) string {
	s := strings.TrimRight(string(b), "\n")
	if i := strings.LastIndex(s, "\n"); i >= 0 {
		s = s[i+1:]
	}
	return s + "\n"
}

func mapOrderNote(p *propInfo) string {
	if p.Instrumented && !p.fellBack {
		return "owned: worker built against an instrumented scratch copy of /repo's working tree; every range-over-map loop of go-cose follows a tape-drawn permutation (fault kind maporder)"
	}
	return "NOT owned in this run: plain build (instrumented build failed), go-cose's map ranges follow the Go runtime's random order"
}
