// Command verif is the driver of the deterministic simulation checks.
//
//	verif check <property> [--tier quick|thorough]
//	verif replay <replay file>
//	verif selftest
//
// The driver does not link go-cose.  For every check it rebuilds the worker
// (verif/sim/cmd/cosesim) against /repo's current working tree - or, for the
// scheduling and map-order properties, against an instrumented scratch copy
// of that tree made on the spot - fans the runs out over worker processes,
// aggregates, minimises and replays any violation, consults the committed
// known-findings file and rewrites the evidence file.
//
// Exit codes: 0 property held on everything explored; 1 violation (with a
// line "VIOLATION property=<id> replay=<path>"); 2 harness trouble (build
// failure, self-test failure, non-reproducing violation, watchdog).
package main

import (
	"encoding/json"
	"errors"
	"fmt"
	"os"
	"os/exec"
	"path/filepath"
	"regexp"
	"runtime"
	"sort"
	"strconv"
	"strings"
	"sync"
	"time"
)

// repoDir is the tree under test.  Every registered command uses /repo; the
// VERIF_REPO override exists for background sweeps only, which run for hours
// and must not pick up a seeded change that is applied to /repo for a few
// minutes while another check is being tried against it (they point at a
// clean clone of /repo's HEAD instead).
var repoDir = func() string {
	if d := os.Getenv("VERIF_REPO"); d != "" {
		return d
	}
	return "/repo"
}()

// verifDir is the framework directory: the working directory when it holds a
// MANIFEST.json (checks are run with cwd=/verif; background runs from a
// snapshot use the snapshot), /verif otherwise.
var verifDir = func() string {
	if wd, err := os.Getwd(); err == nil {
		if _, err := os.Stat(filepath.Join(wd, "MANIFEST.json")); err == nil {
			return wd
		}
	}
	return "/verif"
}()

func goEnv() []string {
	env := os.Environ()
	env = append(env, "GOFLAGS=-mod=mod", "GOPROXY=off", "GOSUMDB=off", "GOTOOLCHAIN=local")
	return env
}

func fatal2(format string, args ...any) {
	fmt.Fprintf(os.Stderr, "verif: "+format+"\n", args...)
	os.Exit(2)
}

// ---- shapes of the JSON exchanged with the worker (kept in sync with sim/worker.go)

type replayFile struct {
	Property  string   `json:"property"`
	Seed      uint64   `json:"seed"`
	Run       int      `json:"run"`
	Tier      string   `json:"tier"`
	Signature string   `json:"signature"`
	Detail    string   `json:"detail"`
	Tape      []uint32 `json:"tape"`
	Trace     []string `json:"trace,omitempty"`
	Minimised bool     `json:"minimised"`
	OrigLen   int      `json:"original_tape_length,omitempty"`
	Faults    []string `json:"faults_fired,omitempty"`
	Race      bool     `json:"race,omitempty"`
	// HistoryStart/HistoryCount: the violation needs state accumulated in the
	// process by the preceding runs (e.g. a process-wide cache in the code
	// under test): the replay is runs [HistoryStart, HistoryStart+HistoryCount)
	// of this property and seed executed in one fresh process, the last of
	// which is Run.
	HistoryStart int `json:"history_start,omitempty"`
	HistoryCount int `json:"history_count,omitempty"`
}

type knownHit struct {
	Count  int      `json:"count"`
	Detail string   `json:"detail"`
	Run    int      `json:"run"`
	Tape   []uint32 `json:"tape,omitempty"`
}

type sample struct {
	Run     int      `json:"run"`
	Trace   []string `json:"operations"`
	Faults  []string `json:"faults_fired,omitempty"`
	Outcome string   `json:"shape"`
}

type workerResult struct {
	Prop        string               `json:"prop"`
	Runs        int                  `json:"runs"`
	Skipped     int                  `json:"skipped"`
	Nontriv     int                  `json:"nontrivial"`
	Faults      map[string]int       `json:"faults"`
	Probes      map[string]int       `json:"probes"`
	Ops         int                  `json:"ops"`
	Steps       int                  `json:"steps"`
	Checks      int                  `json:"checks"`
	Shapes      []uint64             `json:"shapes"`
	Samples     []sample             `json:"samples"`
	KnownHits   map[string]*knownHit `json:"known_hits"`
	Violation   *replayFile          `json:"violation,omitempty"`
	LogHash     string               `json:"log_hash,omitempty"`
	Extra       map[string]int       `json:"extra,omitempty"`
	Enumerated  int                  `json:"enumerated,omitempty"`
	Scheds      []uint64             `json:"scheds,omitempty"`
	SkipReasons map[string]int       `json:"skip_reasons,omitempty"`
	Sites       []int                `json:"sites,omitempty"`
	NumSites    int                  `json:"num_sites,omitempty"`
}

// ---- known findings

type finding struct {
	Property  string `json:"property"`
	Signature string `json:"signature"`
	What      string `json:"what"`
	Input     string `json:"input"`
}

type knownFile struct {
	Findings []finding `json:"findings"`
	Fixed    []string  `json:"fixed"`
}

func loadKnown() knownFile {
	var kf knownFile
	b, err := os.ReadFile(filepath.Join(verifDir, "known_findings.json"))
	if err != nil {
		if errors.Is(err, os.ErrNotExist) {
			return kf
		}
		fatal2("known_findings.json: %v", err)
	}
	if err := json.Unmarshal(b, &kf); err != nil {
		fatal2("known_findings.json: %v", err)
	}
	return kf
}

// ---- property table (ids, run counts, descriptions) lives in props.go

// outDir is where evidence/ and replays/ are written: the framework
// directory, unless VERIF_OUT_DIR redirects them (used when the checks are
// run against a deliberately broken tree, so that the committed evidence is
// only ever written by runs on /repo as it is).
func outDir() string {
	if d := os.Getenv("VERIF_OUT_DIR"); d != "" {
		return d
	}
	return verifDir
}

func main() {
	if len(os.Args) < 2 {
		fatal2("usage: verif check <id> [--tier quick|thorough] | replay <file> | selftest")
	}
	switch os.Args[1] {
	case "check":
		if len(os.Args) < 3 {
			fatal2("usage: verif check <id> [--tier quick|thorough]")
		}
		id := os.Args[2]
		tier := os.Getenv("VERIF_TIER")
		for i := 3; i < len(os.Args); i++ {
			if os.Args[i] == "--tier" && i+1 < len(os.Args) {
				tier = os.Args[i+1]
				i++
			}
		}
		if tier == "" {
			tier = "quick"
		}
		if tier != "quick" && tier != "thorough" {
			fatal2("unknown tier %q", tier)
		}
		os.Exit(check(id, tier))
	case "replay":
		if len(os.Args) < 3 {
			fatal2("usage: verif replay <file>")
		}
		os.Exit(replay(os.Args[2]))
	case "selftest":
		os.Exit(selftest())
	case "dettest":
		os.Exit(dettest(os.Args[2:]))
	default:
		fatal2("unknown command %q", os.Args[1])
	}
}

func seedFromEnv() uint64 {
	s := os.Getenv("VERIF_SEED")
	if s == "" {
		return 1
	}
	v, err := strconv.ParseUint(s, 10, 64)
	if err != nil {
		iv, err2 := strconv.ParseInt(s, 10, 64)
		if err2 != nil {
			fatal2("VERIF_SEED=%q is not an integer", s)
		}
		v = uint64(iv)
	}
	return v
}

// scratch returns a fresh directory outside /repo and /verif.
func scratch() string {
	base := os.Getenv("TMPDIR")
	if base == "" {
		base = "/var/tmp"
	}
	os.MkdirAll(base, 0o755)
	d, err := os.MkdirTemp(base, "verif-scratch-")
	if err != nil {
		fatal2("scratch dir: %v", err)
	}
	return d
}

// buildWorker builds cosesim against /repo (instr=false) or against an
// instrumented copy of /repo's working tree placed in dir (instr=true).
func buildWorker(dir string, instr, race bool) (string, error) {
	bin := filepath.Join(dir, "cosesim")
	args := []string{"build", "-o", bin}
	if race {
		bin = filepath.Join(dir, "cosesim-race")
		args = []string{"build", "-race", "-o", bin}
	}
	if instr {
		copyDir := filepath.Join(dir, "repo")
		if _, err := os.Stat(copyDir); err != nil {
			if err := makeInstrumentedCopy(dir, copyDir); err != nil {
				return "", err
			}
		}
		modfile := filepath.Join(dir, "go.mod")
		src, err := os.ReadFile(filepath.Join(verifDir, "go.mod"))
		if err != nil {
			return "", err
		}
		mod := strings.Replace(string(src), "=> /repo", "=> "+copyDir, 1)
		if err := os.WriteFile(modfile, []byte(mod), 0o644); err != nil {
			return "", err
		}
		sum, _ := os.ReadFile(filepath.Join(verifDir, "go.sum"))
		os.WriteFile(filepath.Join(dir, "go.sum"), sum, 0o644)
		args = append(args, "-modfile="+modfile, "-tags", "verifinstr")
	}
	args = append(args, "./sim/cmd/cosesim")
	cmd := exec.Command("go", args...)
	cmd.Dir = verifDir
	cmd.Env = goEnv()
	out, err := cmd.CombinedOutput()
	if err != nil {
		return "", fmt.Errorf("go %s: %v\n%s", strings.Join(args, " "), err, out)
	}
	return bin, nil
}

func makeInstrumentedCopy(dir, copyDir string) error {
	return makeInstrumentedCopyWith(dir, copyDir, nil)
}

// makeInstrumentedCopyWith additionally writes extra files (name -> content)
// into the copy BEFORE it is instrumented (self-tests of the seams).
func makeInstrumentedCopyWith(dir, copyDir string, extra map[string]string) error {
	if err := os.MkdirAll(copyDir, 0o755); err != nil {
		return err
	}
	cmd := exec.Command("rsync", "-a", "--exclude", ".git", "--exclude", "reports", repoDir+"/", copyDir+"/")
	if out, err := cmd.CombinedOutput(); err != nil {
		return fmt.Errorf("rsync: %v\n%s", err, out)
	}
	for name, content := range extra {
		if err := os.WriteFile(filepath.Join(copyDir, name), []byte(content), 0o644); err != nil {
			return err
		}
	}
	instr := filepath.Join(verifDir, "bin", "instrument")
	{
		// always rebuilt (a cached build costs a fraction of a second): a
		// stale instrumenter would silently leave seams out
		b := exec.Command("go", "build", "-o", instr, "./cmd/instrument")
		b.Dir = verifDir
		b.Env = goEnv()
		if out, err := b.CombinedOutput(); err != nil {
			return fmt.Errorf("build instrumenter: %v\n%s", err, out)
		}
	}
	cmd = exec.Command(instr, copyDir, filepath.Join(verifDir, "verifsim"))
	cmd.Env = goEnv()
	out, err := cmd.CombinedOutput()
	if err != nil {
		return fmt.Errorf("instrument: %v\n%s", err, out)
	}
	os.WriteFile(filepath.Join(dir, "instrument.log"), out, 0o644)
	loadSiteTable(filepath.Join(copyDir, "verifsim", "sites_gen.go"))
	return nil
}

// siteTable maps yield site numbers of the instrumented copy to
// "func file:line" (read back from the file the instrumenter generated); it
// lets the evidence name the statements of go-cose no run of a check reached.
var siteTable []string

func loadSiteTable(path string) {
	b, err := os.ReadFile(path)
	if err != nil {
		return
	}
	var t []string
	for _, l := range strings.Split(string(b), "\n") {
		l = strings.TrimSpace(l)
		if strings.HasPrefix(l, "\"") && strings.HasSuffix(l, "\",") {
			if s, err := strconv.Unquote(strings.TrimSuffix(l, ",")); err == nil {
				t = append(t, s)
			}
		}
	}
	siteTable = t
}

type batchOutcome struct {
	results []*workerResult
	hung    []int // run indices named by tripped watchdogs
	fatal   []int // run indices in progress when a worker died of an unrecoverable runtime error with go-cose frames on the stack
	crashed []string
}

// fanOut runs [0, total) of a property over nproc worker processes.
func fanOut(bin, dir, prop, tier string, seed uint64, total, nproc int, knownPath string, extraEnv []string, tagName string) batchOutcome {
	if nproc > total {
		nproc = total
	}
	if nproc < 1 {
		nproc = 1
	}
	var bo batchOutcome
	bo.results = make([]*workerResult, nproc)
	var mu sync.Mutex
	var wg sync.WaitGroup
	per := (total + nproc - 1) / nproc
	for w := 0; w < nproc; w++ {
		start := w * per
		count := per
		if start+count > total {
			count = total - start
		}
		if count <= 0 {
			continue
		}
		wg.Add(1)
		go func(w, start, count int) {
			defer wg.Done()
			out := filepath.Join(dir, fmt.Sprintf("res-%s-%d.json", tagName, w))
			cmd := exec.Command(bin, "run", "-prop", prop, "-tier", tier, "-seed", strconv.FormatUint(seed, 10),
				"-start", strconv.Itoa(start), "-count", strconv.Itoa(count), "-known", knownPath, "-out", out)
			cmd.Env = append(os.Environ(), extraEnv...)
			var stderr strings.Builder
			cmd.Stderr = &stderr
			cmd.Stdout = &stderr
			err := cmd.Run()
			mu.Lock()
			defer mu.Unlock()
			if err != nil {
				if hb, herr := os.ReadFile(out + ".hang"); herr == nil {
					n, _ := strconv.Atoi(strings.TrimSpace(string(hb)))
					bo.hung = append(bo.hung, n)
					return
				}
				cur := "?"
				if pb, perr := os.ReadFile(out + ".progress"); perr == nil {
					cur = strings.TrimSpace(string(pb))
				}
				msg := stderr.String()
				if n, aerr := strconv.Atoi(cur); aerr == nil && (strings.Contains(msg, "fatal error:") && strings.Contains(msg, "github.com/veraison/go-cose.") || libraryGoroutinePanic(msg)) {
					// stack exhaustion, concurrent map access, ...: not recoverable
					// by the worker; attributed to the run in progress and
					// confirmed in isolation below
					bo.fatal = append(bo.fatal, n)
					return
				}
				if len(msg) > 4000 {
					msg = msg[:2000] + "\n...\n" + msg[len(msg)-2000:]
				}
				bo.crashed = append(bo.crashed, fmt.Sprintf("worker %d (runs %d..%d) died in run %s: %v\n%s", w, start, start+count-1, cur, err, msg))
				return
			}
			b, rerr := os.ReadFile(out)
			if rerr != nil {
				bo.crashed = append(bo.crashed, fmt.Sprintf("worker %d: %v", w, rerr))
				return
			}
			var wr workerResult
			if jerr := json.Unmarshal(b, &wr); jerr != nil {
				bo.crashed = append(bo.crashed, fmt.Sprintf("worker %d: %v", w, jerr))
				return
			}
			bo.results[w] = &wr
		}(w, start, count)
	}
	wg.Wait()
	return bo
}

type aggregate struct {
	runs, skipped, nontriv, ops, steps, checks, enumerated int
	skips                                                  map[string]int
	sites                                                  map[int]bool
	numSites                                               int
	faults, probes, extra                                  map[string]int
	shapes, scheds                                         map[uint64]bool
	samples                                                []sample
	known                                                  map[string]*knownHit
	violation                                              *replayFile
}

func aggregateResults(rs []*workerResult) aggregate {
	a := aggregate{faults: map[string]int{}, probes: map[string]int{}, extra: map[string]int{}, shapes: map[uint64]bool{}, scheds: map[uint64]bool{}, known: map[string]*knownHit{}}
	for _, r := range rs {
		if r == nil {
			continue
		}
		a.runs += r.Runs
		a.skipped += r.Skipped
		a.nontriv += r.Nontriv
		a.ops += r.Ops
		a.steps += r.Steps
		a.checks += r.Checks
		a.enumerated += r.Enumerated
		for k, v := range r.Faults {
			a.faults[k] += v
		}
		for k, v := range r.Probes {
			if strings.HasPrefix(k, "max-") {
				if v > a.probes[k] {
					a.probes[k] = v
				}
				continue
			}
			a.probes[k] += v
		}
		for k, v := range r.Extra {
			a.extra[k] += v
		}
		for _, h := range r.Shapes {
			a.shapes[h] = true
		}
		for _, h := range r.Scheds {
			a.scheds[h] = true
		}
		for _, s := range r.Sites {
			if a.sites == nil {
				a.sites = map[int]bool{}
			}
			a.sites[s] = true
		}
		if r.NumSites > a.numSites {
			a.numSites = r.NumSites
		}
		for k, v := range r.SkipReasons {
			if a.skips == nil {
				a.skips = map[string]int{}
			}
			a.skips[k] += v
		}
		if len(a.samples) < 4 {
			for _, s := range r.Samples {
				if len(a.samples) < 4 {
					a.samples = append(a.samples, s)
				}
			}
		}
		for sig, kh := range r.KnownHits {
			if old, ok := a.known[sig]; !ok || kh.Run < old.Run {
				c := *kh
				if ok {
					c.Count += old.Count
				}
				a.known[sig] = &c
			} else {
				old.Count += kh.Count
			}
		}
		if r.Violation != nil && (a.violation == nil || r.Violation.Run < a.violation.Run) {
			a.violation = r.Violation
		}
	}
	return a
}

func sortedKeys(m map[string]int) []string {
	ks := make([]string, 0, len(m))
	for k := range m {
		ks = append(ks, k)
	}
	sort.Strings(ks)
	return ks
}

func check(id, tier string) int {
	p, ok := props[id]
	if !ok {
		fatal2("property %s has no check (see MANIFEST.json not_applicable)", id)
	}
	seed := seedFromEnv()
	startT := time.Now()
	dir := scratch()
	defer os.RemoveAll(dir)

	fmt.Printf("verif: property %s tier %s VERIF_SEED=%d\n", id, tier, seed)
	bin, err := buildFor(p, dir)
	if err != nil {
		os.RemoveAll(dir)
		fatal2("build failed (no verdict):\n%v", err)
	}
	if err := loadInfo(bin, id, p); err != nil {
		os.RemoveAll(dir)
		fatal2("%v", err)
	}
	kf := loadKnown()
	var knownSigs []string
	for _, f := range kf.Findings {
		if f.Property == id {
			knownSigs = append(knownSigs, f.Signature)
		}
	}
	if knownSigs == nil {
		knownSigs = []string{}
	}
	knownPath := filepath.Join(dir, "known.json")
	kb, _ := json.Marshal(knownSigs)
	os.WriteFile(knownPath, kb, 0o644)

	// determinism self-test (quick form): the same runs in two processes at
	// different GOMAXPROCS must produce byte-identical event logs
	detRuns := 24
	if p.DetRuns > 0 {
		detRuns = p.DetRuns
	}
	det := determinism(bin, dir, id, tier, seed, knownPath, detRuns)
	if !det.ok {
		// Not a verdict by itself.  If the code under test has become
		// nondeterministic (say it now uses a sync.Pool) the runs below may
		// still expose a violation that replays; only if they find nothing is
		// the outcome "no verdict" (exit 2).
		fmt.Fprintf(os.Stderr, "verif: determinism self-test failed: %s\n", det.note)
	}

	total := p.QuickRuns
	if tier == "thorough" {
		total = p.ThoroughRuns
	}
	nproc := runtime.NumCPU()
	var workerEnv []string
	if p.Instrumented {
		// tasks of a concurrent block hand control to each other by spinning
		// on a word: with one OS thread per worker the spinning goroutines
		// yield to the runnable one instead of burning the other cores
		workerEnv = []string{"GOMAXPROCS=1"}
	}
	bo := fanOut(bin, dir, id, tier, seed, total, nproc, knownPath, workerEnv, "main")
	if len(bo.crashed) > 0 {
		for _, c := range bo.crashed {
			fmt.Fprintln(os.Stderr, "verif:", c)
		}
		os.RemoveAll(dir)
		fmt.Fprintln(os.Stderr, "verif: worker crashed outside a monitored call (harness trouble, no verdict)")
		os.Exit(2)
	}
	agg := aggregateResults(bo.results)

	// property-specific extra phases (race build for C18, second process for C08, ...)
	var extraNotes map[string]any
	if p.Extra != nil {
		var v *replayFile
		extraNotes, v = p.Extra(dir, id, tier, seed, knownPath, &agg)
		if v != nil && (agg.violation == nil) {
			agg.violation = v
		}
	}

	exit := 0
	var violationPath string
	if len(bo.fatal) > 0 {
		sort.Ints(bo.fatal)
		v := fatalViolation(bin, dir, id, tier, seed, bo.fatal[0], knownPath, workerEnv)
		for attempt := 1; v == nil && !det.ok && attempt < 8; attempt++ {
			// nondeterministic code under test: a crash that depends on its own
			// scheduling is tried a few more times
			v = fatalViolation(bin, dir, id, tier, seed, bo.fatal[0], knownPath, workerEnv)
		}
		if v == nil {
			// with the runs that preceded it in the same worker process
			per := (total + nproc - 1) / nproc
			for attempt := 0; v == nil && attempt < 3; attempt++ {
				v = fatalViolationFrom(bin, dir, id, tier, seed, (bo.fatal[0]/per)*per, bo.fatal[0], knownPath, workerEnv)
			}
			if v != nil {
				v.Detail = fmt.Sprintf("(needs the runs %d..%d executed before it in the same process) ", (bo.fatal[0]/per)*per, bo.fatal[0]-1) + v.Detail
			}
		}
		if v == nil {
			os.RemoveAll(dir)
			fmt.Fprintf(os.Stderr, "verif: a worker died of a runtime fatal error in run %d but the run alone does not (no verdict)\n", bo.fatal[0])
			os.Exit(2)
		}
		if id != "C06" && !strings.Contains(v.Signature, "/panic-on-goroutine-started-by-go-cose/") {
			// (a panic on a goroutine of the library's own making is judged
			// where it is met: the call neither returned nor let the caller
			// see the panic)
			os.RemoveAll(dir)
			fmt.Fprintf(os.Stderr, "verif: run %d ends the process with a runtime fatal error inside go-cose (%s); that is property C06's business, no verdict for %s\n", bo.fatal[0], v.Signature, id)
			os.Exit(2)
		}
		if agg.violation == nil || v.Run < agg.violation.Run {
			agg.violation = v
		}
	}
	if len(bo.hung) > 0 {
		sort.Ints(bo.hung)
		v := hangViolation(bin, dir, id, tier, seed, bo.hung[0], knownPath, workerEnv)
		if v == nil {
			os.RemoveAll(dir)
			fmt.Fprintf(os.Stderr, "verif: watchdog tripped in run %d but the hang did not reproduce in isolation (no verdict)\n", bo.hung[0])
			os.Exit(2)
		}
		if id != "C06" && id != "C20" && id != "C18" {
			// (C20: a signing call that never returns after a seam failure has
			// not "returned that error"; C18: concurrent calls that wait for
			// each other for ever are not "safe to run concurrently" - under the
			// serialising scheduler a deadlock replays like any other schedule)
			os.RemoveAll(dir)
			fmt.Fprintf(os.Stderr, "verif: run %d hangs; hangs are property C06's business, no verdict for %s\n", bo.hung[0], id)
			os.Exit(2)
		}
		if agg.violation == nil || v.Run < agg.violation.Run {
			agg.violation = v
		}
	}
	if agg.violation != nil && agg.violation.Race {
		// known-finding check for race reports (signature = pair of frames)
		for _, ks := range knownSigs {
			if ks == agg.violation.Signature {
				agg.known[ks] = &knownHit{Count: 1, Detail: agg.violation.Detail, Run: agg.violation.Run}
				agg.violation = nil
				break
			}
		}
	}
	if agg.violation != nil && agg.violation.Race {
		os.MkdirAll(filepath.Join(outDir(), "replays"), 0o755)
		violationPath = filepath.Join(outDir(), "replays", fmt.Sprintf("%s-%d-%d-race.json", id, seed, agg.violation.Run))
		b, _ := json.MarshalIndent(agg.violation, "", " ")
		os.WriteFile(violationPath, b, 0o644)
		exit = 1
	} else if agg.violation != nil {
		path, ok := minimiseAndConfirm(bin, dir, agg.violation, knownPath, p.NoMinimise || !det.ok, workerEnv)
		for attempt := 1; !ok && !det.ok && attempt < 8; attempt++ {
			// the code under test has become nondeterministic (the
			// determinism self-test failed): every execution is still a real
			// execution judged by the same oracle, so the tape is tried a few
			// more times before the violation is given up as not replayable
			path, ok = minimiseAndConfirm(bin, dir, agg.violation, knownPath, true, workerEnv)
		}
		if !ok {
			// The run alone does not fail.  Before calling that a harness
			// problem, see whether it fails again when the runs that preceded
			// it in the same worker process are executed first: a violation
			// that needs process-wide state of the code under test.
			per := (total + nproc - 1) / nproc
			if hv := historyConfirm(bin, dir, id, tier, seed, agg.violation, (agg.violation.Run/per)*per, knownPath, workerEnv); hv != nil {
				os.MkdirAll(filepath.Join(outDir(), "replays"), 0o755)
				path = filepath.Join(outDir(), "replays", fmt.Sprintf("%s-%d-%d-history.json", id, seed, hv.Run))
				b, _ := json.MarshalIndent(hv, "", " ")
				os.WriteFile(path, b, 0o644)
				agg.violation = hv
				ok = true
			}
		}
		for attempt := 1; !ok && det.ok && attempt < 8; attempt++ {
			// the determinism self-test passed on its sample, yet this run
			// does not replay: the code under test may be nondeterministic on
			// inputs the sample did not hold (goroutines of its own inside one
			// call, a select over ready channels).  Every execution is a real
			// one judged by the same oracle: the tape is tried a few more
			// times, without minimisation, before the outcome is "no verdict".
			path, ok = minimiseAndConfirm(bin, dir, agg.violation, knownPath, true, workerEnv)
			if ok {
				fmt.Fprintf(os.Stderr, "verif: the violation replays from its tape in some fresh processes only (confirmed at attempt %d): the code under test is not deterministic on this input\n", attempt+1)
			}
		}
		if !ok {
			// Code under test that is nondeterministic may break the SAME property
			// in another way on each execution of the tape (two encodings of one map
			// differ on one execution, are equal but unsorted on the next).  Any
			// violation of this property that is not a listed finding, seen again
			// in a fresh process from the same tape, is a real execution judged by
			// the same oracle: the replay file then names that one.
			for attempt := 0; !ok && attempt < 4; attempt++ {
				if sig, detail, seen := replayAnyViolation(bin, path, knownPath, workerEnv); seen {
					fmt.Fprintf(os.Stderr, "verif: the tape of %s breaks the property differently from one fresh process to the next (now %s): the code under test is not deterministic on this input\n", agg.violation.Signature, sig)
					agg.violation.Signature, agg.violation.Detail = sig, detail
					b, _ := json.MarshalIndent(agg.violation, "", " ")
					os.WriteFile(path, b, 0o644)
					ok = true
				}
			}
		}
		if !ok {
			os.RemoveAll(dir)
			fmt.Fprintf(os.Stderr, "verif: violation %s in run %d did not reproduce from its tape in a fresh process: harness determinism bug, no verdict\n", agg.violation.Signature, agg.violation.Run)
			os.Exit(2)
		}
		violationPath = path
		exit = 1
	}

	if !det.ok && exit == 0 {
		os.RemoveAll(dir)
		fmt.Fprintln(os.Stderr, "verif: the same runs produced different event logs in two processes and no replayable violation was found: no verdict")
		os.Exit(2)
	}
	wall := time.Since(startT).Seconds()
	writeEvidence(id, tier, seed, p, &agg, det, wall, exit, extraNotes, kf)

	for _, sig := range sortedKnown(agg.known) {
		kh := agg.known[sig]
		what := ""
		for _, f := range kf.Findings {
			if f.Signature == sig {
				what = f.What
			}
		}
		fmt.Printf("KNOWN-FINDING: property=%s %s (%s; fired in %d runs, first in run %d)\n", id, sig, what, kh.Count, kh.Run)
	}
	fmt.Printf("verif: %s %s: %d runs (%d non-trivial, %d distinct shapes, %d skipped), %d invariant evaluations, %.1fs\n",
		id, tier, agg.runs, agg.nontriv, len(agg.shapes), agg.skipped, agg.checks, wall)
	if exit == 1 {
		fmt.Printf("verif: %s\n  %s\n", agg.violation.Signature, strings.ReplaceAll(agg.violation.Detail, "\n", "\n  "))
		fmt.Printf("VIOLATION property=%s replay=%s\n", id, violationPath)
	}
	return exit
}

func sortedKnown(m map[string]*knownHit) []string {
	ks := make([]string, 0, len(m))
	for k := range m {
		ks = append(ks, k)
	}
	sort.Strings(ks)
	return ks
}

type detResult struct {
	ok     bool
	note   string
	tapes  int
	procs  int
	hashes []string
}

func determinism(bin, dir, id, tier string, seed uint64, knownPath string, n int) detResult {
	res := detResult{tapes: n, procs: 2}
	var hashes []string
	for i, gmp := range []string{"1", "8"} {
		out := filepath.Join(dir, fmt.Sprintf("det-%d.json", i))
		logp := filepath.Join(dir, fmt.Sprintf("det-%d.log", i))
		cmd := exec.Command(bin, "run", "-prop", id, "-tier", tier, "-seed", strconv.FormatUint(seed, 10),
			"-start", "0", "-count", strconv.Itoa(n), "-known", knownPath, "-out", out, "-log", logp)
		cmd.Env = append(os.Environ(), "GOMAXPROCS="+gmp)
		if b, err := cmd.CombinedOutput(); err != nil {
			msg := string(b)
			if len(msg) > 3000 {
				msg = msg[:3000]
			}
			res.note = fmt.Sprintf("worker failed: %v\n%s", err, msg)
			return res
		}
		b, err := os.ReadFile(out)
		if err != nil {
			res.note = err.Error()
			return res
		}
		var wr workerResult
		if err := json.Unmarshal(b, &wr); err != nil {
			res.note = err.Error()
			return res
		}
		hashes = append(hashes, wr.LogHash)
	}
	res.hashes = hashes
	if hashes[0] != hashes[1] || hashes[0] == "" {
		res.note = fmt.Sprintf("event logs differ between processes (GOMAXPROCS 1 vs 8): %s vs %s; logs kept in %s", hashes[0], hashes[1], dir)
		// keep the logs for diagnosis
		keep := filepath.Join(verifDir, "work")
		os.MkdirAll(keep, 0o755)
		for i := 0; i < 2; i++ {
			b, _ := os.ReadFile(filepath.Join(dir, fmt.Sprintf("det-%d.log", i)))
			os.WriteFile(filepath.Join(keep, fmt.Sprintf("det-%s-%d.log", id, i)), b, 0o644)
		}
		return res
	}
	res.ok = true
	return res
}

// fatalViolation re-executes one run alone; if the process dies again of a Go
// runtime fatal error with go-cose frames on the stack, that is the violation.
func fatalViolation(bin, dir, id, tier string, seed uint64, run int, knownPath string, env []string) *replayFile {
	return fatalViolationFrom(bin, dir, id, tier, seed, run, run, knownPath, env)
}

// fatalViolationFrom executes the runs from..run in one process (from == run:
// the run alone).  A crash that needs what earlier runs of the same process
// left behind (a goroutine the library started and did not wait for) shows
// only with its history.
func fatalViolationFrom(bin, dir, id, tier string, seed uint64, from, run int, knownPath string, env []string) *replayFile {
	out := filepath.Join(dir, "fatal-check.json")
	cmd := exec.Command(bin, "run", "-prop", id, "-tier", tier, "-seed", strconv.FormatUint(seed, 10),
		"-start", strconv.Itoa(from), "-count", strconv.Itoa(run-from+1), "-known", knownPath, "-out", out)
	cmd.Env = append(os.Environ(), env...)
	var stderr strings.Builder
	cmd.Stderr = &stderr
	cmd.Stdout = &stderr
	if err := cmd.Run(); err == nil {
		return nil
	}
	msg := stderr.String()
	if libraryGoroutinePanic(msg) {
		// a panic (the application's own code, a seam of the simulation)
		// on a goroutine go-cose started: no caller can recover it
		i := strings.Index(msg, "panic:")
		fn := "?"
		if m := regexp.MustCompile(`created by github\.com/veraison/go-cose\.([A-Za-z0-9_.()*]+)`).FindStringSubmatch(msg[i:]); m != nil {
			fn = m[1]
		}
		if len(msg) > 1500 {
			msg = msg[:1500]
		}
		return &replayFile{Property: id, Seed: seed, Run: run, Tier: tier, Signature: id + "/fatal/panic-on-goroutine-started-by-go-cose/" + fn,
			Detail: fmt.Sprintf("run %d ends the whole process: code handed to go-cose by the caller panicked on a goroutine that go-cose started (%s), where no caller can recover it; replay with: cosesim run -prop %s -seed %d -start %d -count 1\n%s", run, fn, id, seed, run, msg)}
	}
	i := strings.Index(msg, "fatal error:")
	if i < 0 || !strings.Contains(msg, "github.com/veraison/go-cose.") {
		return nil
	}
	kind := strings.TrimSpace(strings.SplitN(msg[i+len("fatal error:"):], "\n", 2)[0])
	fn := "?"
	if m := regexp.MustCompile(`github\.com/veraison/go-cose\.([A-Za-z0-9_.()*]+)\(`).FindStringSubmatch(msg[i:]); m != nil {
		fn = m[1]
	}
	if len(msg) > 1500 {
		msg = msg[:1500]
	}
	return &replayFile{Property: id, Seed: seed, Run: run, Tier: tier, Signature: id + "/fatal/" + strings.ReplaceAll(kind, " ", "-") + "/" + fn,
		Detail: fmt.Sprintf("run %d ends the whole process with the unrecoverable runtime error %q inside go-cose (%s) when executed alone; replay with: cosesim run -prop %s -seed %d -start %d -count 1\n%s", run, kind, fn, id, seed, run, msg)}
}

// libraryGoroutinePanic: the process died of a panic on a goroutine created
// by go-cose code.
func libraryGoroutinePanic(msg string) bool {
	i := strings.Index(msg, "panic:")
	return i >= 0 && strings.Contains(msg[i:], "created by github.com/veraison/go-cose.")
}

func hangViolation(bin, dir, id, tier string, seed uint64, run int, knownPath string, env []string) *replayFile {
	// replay the single run in isolation with a shorter watchdog
	out := filepath.Join(dir, "hang-check.json")
	cmd := exec.Command(bin, "run", "-prop", id, "-tier", tier, "-seed", strconv.FormatUint(seed, 10),
		"-start", strconv.Itoa(run), "-count", "1", "-known", knownPath, "-out", out, "-hang", "30s")
	cmd.Env = append(os.Environ(), env...) // (the same environment as the batch: GOMAXPROCS=1 decides some hangs)
	err := cmd.Run()
	if err == nil {
		return nil
	}
	if _, herr := os.Stat(out + ".hang"); herr != nil {
		return nil
	}
	return &replayFile{Property: id, Seed: seed, Run: run, Tier: tier, Signature: id + "/hang",
		Detail: fmt.Sprintf("run %d does not terminate within the watchdog (30 s) when executed alone; replay with: cosesim run -prop %s -seed %d -start %d -count 1", run, id, seed, run)}
}

// minimiseAndConfirm shrinks the tape, stores the replay file under
// /verif/replays and replays it in a fresh process.
func minimiseAndConfirm(bin, dir string, v *replayFile, knownPath string, noMin bool, env []string) (string, bool) {
	os.MkdirAll(filepath.Join(outDir(), "replays"), 0o755)
	final := filepath.Join(outDir(), "replays", fmt.Sprintf("%s-%d-%d.json", v.Property, v.Seed, v.Run))
	raw := filepath.Join(dir, "violation-raw.json")
	b, _ := json.MarshalIndent(v, "", " ")
	os.WriteFile(raw, b, 0o644)
	if len(v.Tape) == 0 {
		// hang record or external-phase violation without a tape
		os.WriteFile(final, b, 0o644)
		return final, true
	}
	minOK := false
	if !noMin {
		cmd := exec.Command(bin, "minimise", "-file", raw, "-out", final, "-known", knownPath)
		cmd.Env = append(os.Environ(), env...)
		if out, err := cmd.CombinedOutput(); err == nil {
			minOK = true
		} else {
			fmt.Fprintf(os.Stderr, "verif: minimiser failed (%v), keeping the unminimised tape\n%s\n", err, out)
		}
	}
	if !minOK {
		os.WriteFile(final, b, 0o644)
	}
	cmd := exec.Command(bin, "replay", "-file", final, "-known", knownPath)
	cmd.Env = append(os.Environ(), env...)
	out, err := cmd.CombinedOutput()
	var ee *exec.ExitError
	if errors.As(err, &ee) && ee.ExitCode() == 1 && strings.Contains(string(out), "REPRODUCED") {
		return final, true
	}
	fmt.Fprintf(os.Stderr, "verif: replay output:\n%s\n", out)
	return final, false
}

// replayAnyViolation replays a tape in a fresh process and reports the
// violation it met, whatever its signature (known findings excluded by the
// worker).
func replayAnyViolation(bin, file, knownPath string, env []string) (string, string, bool) {
	cmd := exec.Command(bin, "replay", "-file", file, "-known", knownPath)
	cmd.Env = append(os.Environ(), env...)
	out, err := cmd.CombinedOutput()
	var ee *exec.ExitError
	if !errors.As(err, &ee) || (ee.ExitCode() != 1 && ee.ExitCode() != 4) {
		return "", "", false
	}
	const mark = "\n  violation: "
	i := strings.Index(string(out), mark)
	if i < 0 {
		return "", "", false
	}
	rest := string(out)[i+len(mark):]
	sig, detail, _ := strings.Cut(rest, "\n")
	for _, end := range []string{"\nREPRODUCED", "\nDIFFERENT-VIOLATION"} {
		if j := strings.Index(detail, end); j >= 0 {
			detail = detail[:j]
		}
	}
	return strings.TrimSpace(sig), strings.TrimSpace(strings.ReplaceAll(detail, "\n  ", "\n")), sig != ""
}

func replay(path string) int {
	b, err := os.ReadFile(path)
	if err != nil {
		fatal2("%v", err)
	}
	var rf replayFile
	if err := json.Unmarshal(b, &rf); err != nil {
		fatal2("%v", err)
	}
	p, ok := props[rf.Property]
	if !ok {
		fatal2("replay file names unknown property %q", rf.Property)
	}
	dir := scratch()
	defer os.RemoveAll(dir)
	if p.Replay != nil {
		if code := p.Replay(dir, path, &rf); code >= 0 {
			return code
		}
	}
	bin, err := buildFor(p, dir)
	if err != nil {
		fatal2("build failed:\n%v", err)
	}
	if rf.HistoryCount > 1 {
		knownPath := filepath.Join(dir, "known.json")
		os.WriteFile(knownPath, []byte("[]"), 0o644)
		var env []string
		if p.Instrumented {
			env = []string{"GOMAXPROCS=1"}
		}
		v := runHistory(bin, dir, rf.Property, rf.Tier, rf.Seed, rf.HistoryStart, rf.HistoryCount, knownPath, env)
		fmt.Printf("replay of %s: runs %d..%d of property %s, seed %d, in one process\n", path, rf.HistoryStart, rf.HistoryStart+rf.HistoryCount-1, rf.Property, rf.Seed)
		if v != nil && v.Run == rf.Run && v.Signature == rf.Signature {
			fmt.Printf("  violation in run %d: %s\n  %s\nREPRODUCED\n", v.Run, v.Signature, strings.ReplaceAll(v.Detail, "\n", "\n  "))
			fmt.Printf("VIOLATION property=%s replay=%s\n", rf.Property, path)
			return 1
		}
		fmt.Println("NOT-REPRODUCED")
		return 0
	}
	if len(rf.Tape) == 0 && !rf.Minimised {
		// (a minimised tape may be empty: every choice takes its first alternative)
		fmt.Printf("replay file carries no tape: %s\n", rf.Detail)
		return 2
	}
	// known findings do not stop a replay of their own signature: replay
	// with an empty known list
	knownPath := filepath.Join(dir, "known.json")
	os.WriteFile(knownPath, []byte("[]"), 0o644)
	cmd := exec.Command(bin, "replay", "-file", path, "-known", knownPath)
	if p.Instrumented {
		cmd.Env = append(os.Environ(), "GOMAXPROCS=1") // as in the run that found it
	}
	cmd.Stdout = os.Stdout
	cmd.Stderr = os.Stderr
	err = cmd.Run()
	var ee *exec.ExitError
	if errors.As(err, &ee) {
		if ee.ExitCode() == 1 {
			fmt.Printf("VIOLATION property=%s replay=%s\n", rf.Property, path)
			return 1
		}
		return 2
	}
	return 0
}

// runHistory executes runs [start, start+count) in one fresh worker process
// and returns the violation it stopped at (nil if none).
func runHistory(bin, dir, id, tier string, seed uint64, start, count int, knownPath string, env []string) *replayFile {
	out := filepath.Join(dir, fmt.Sprintf("history-%d-%d.json", start, count))
	cmd := exec.Command(bin, "run", "-prop", id, "-tier", tier, "-seed", strconv.FormatUint(seed, 10),
		"-start", strconv.Itoa(start), "-count", strconv.Itoa(count), "-known", knownPath, "-out", out)
	cmd.Env = append(os.Environ(), env...)
	if err := cmd.Run(); err != nil {
		return nil
	}
	b, err := os.ReadFile(out)
	if err != nil {
		return nil
	}
	var wr workerResult
	if json.Unmarshal(b, &wr) != nil {
		return nil
	}
	return wr.Violation
}

// historyConfirm looks for the shortest run history ending in v.Run that
// reproduces v in a fresh process.
func historyConfirm(bin, dir, id, tier string, seed uint64, v *replayFile, batchStart int, knownPath string, env []string) *replayFile {
	same := func(x *replayFile) bool { return x != nil && x.Run == v.Run && x.Signature == v.Signature }
	full := v.Run - batchStart + 1
	if full <= 1 || !same(runHistory(bin, dir, id, tier, seed, batchStart, full, knownPath, env)) {
		return nil
	}
	best := full
	for k := 2; k < full; k *= 2 {
		if same(runHistory(bin, dir, id, tier, seed, v.Run-k+1, k, knownPath, env)) {
			best = k
			break
		}
	}
	hv := *v
	hv.HistoryStart, hv.HistoryCount = v.Run-best+1, best
	hv.Minimised = false
	hv.Detail = fmt.Sprintf("needs process history: run %d alone passes, but fails when runs %d..%d (same property, seed %d) are executed before it in the same process - state kept by the code under test across calls\n", v.Run, hv.HistoryStart, v.Run-1, seed) + v.Detail
	return &hv
}

// dettest is the large determinism self-test: for each property, the same 64
// runs are executed in six fresh processes (GOMAXPROCS 1, 4 and 16, twice
// each) and the SHA-256 of the complete event logs must be identical.
func dettest(ids []string) int {
	if len(ids) == 0 {
		for id := range props {
			ids = append(ids, id)
		}
		sort.Strings(ids)
	}
	seed := seedFromEnv()
	bad := 0
	for _, id := range ids {
		p, ok := props[id]
		if !ok {
			fmt.Printf("%s: no check\n", id)
			continue
		}
		dir := scratch()
		bin, err := buildFor(p, dir)
		if err != nil {
			os.RemoveAll(dir)
			fatal2("build failed:\n%v", err)
		}
		knownPath := filepath.Join(dir, "known.json")
		kf := loadKnown()
		sigs := []string{}
		for _, f := range kf.Findings {
			if f.Property == id {
				sigs = append(sigs, f.Signature)
			}
		}
		kb, _ := json.Marshal(sigs)
		os.WriteFile(knownPath, kb, 0o644)
		hashes := map[string]int{}
		n := 0
		for rep := 0; rep < 2; rep++ {
			for _, gmp := range []string{"1", "4", "16"} {
				out := filepath.Join(dir, fmt.Sprintf("dt-%d-%s.json", rep, gmp))
				cmd := exec.Command(bin, "run", "-prop", id, "-tier", "quick", "-seed", strconv.FormatUint(seed, 10),
					"-start", "0", "-count", "64", "-known", knownPath, "-out", out, "-log", out+".log")
				cmd.Env = append(os.Environ(), "GOMAXPROCS="+gmp)
				if b, err := cmd.CombinedOutput(); err != nil {
					fmt.Printf("%s: worker failed at GOMAXPROCS=%s: %v\n%s\n", id, gmp, err, b)
					bad++
					continue
				}
				var wr workerResult
				b, _ := os.ReadFile(out)
				json.Unmarshal(b, &wr)
				hashes[wr.LogHash]++
				n++
			}
		}
		os.RemoveAll(dir)
		if len(hashes) == 1 && n == 6 {
			for h := range hashes {
				fmt.Printf("%s: 64 runs x 6 processes (GOMAXPROCS 1/4/16, twice): identical event logs %s\n", id, h[:16])
			}
		} else {
			fmt.Printf("%s: event logs DIFFER across processes: %v\n", id, hashes)
			bad++
		}
	}
	if bad > 0 {
		return 2
	}
	return 0
}

// buildFor builds the worker for a property: against the instrumented copy,
// or - when that fails and the property allows it - against /repo directly.
func buildFor(p *propInfo, dir string) (string, error) {
	bin, err := buildWorker(dir, p.Instrumented, false)
	if err != nil && p.Instrumented && p.Fallback {
		fmt.Fprintf(os.Stderr, "verif: instrumented build failed, falling back to the plain build (map iteration order not owned in this run):\n%v\n", err)
		p.Instrumented, p.fellBack = false, true
		os.RemoveAll(filepath.Join(dir, "repo"))
		bin, err = buildWorker(dir, false, false)
	}
	return bin, err
}
