package main

import (
	"encoding/json"
	"errors"
	"fmt"
	"os"
	"os/exec"
	"path/filepath"
	"regexp"
	"runtime"
	"sort"
	"strconv"
	"strings"
	"sync"
)

// The race phase of C18: the same runs as the plain phase, executed by a
// race-detector build of the instrumented worker.  The scheduler's hand-off
// is invisible to the detector, so a conflicting access between two tasks is
// reported whatever interleaving ran; the process then exits with code 66,
// the run in progress is read from the worker's progress file, and the run is
// replayed alone to confirm before anything is reported.

func raceEnv(logPath string) []string {
	return []string{"GORACE=halt_on_error=1 exitcode=66 log_path=" + logPath, "VERIF_RACE=1", "GOMAXPROCS=1"}
}

var raceFrame = regexp.MustCompile(`^\s+github\.com/veraison/go-cose\.((?:\(\*?\w+\)\.)?[\w.]+)\(`)

// raceSignature extracts the innermost go-cose frame of the two conflicting
// stacks from a race report.
func raceSignature(report string) (string, string) {
	var frames []string
	cur := ""
	inStack := false
	for _, line := range strings.Split(report, "\n") {
		switch {
		case strings.HasPrefix(line, "Write at"), strings.HasPrefix(line, "Read at"), strings.HasPrefix(line, "Previous write at"), strings.HasPrefix(line, "Previous read at"):
			if inStack && cur != "" {
				frames = append(frames, cur)
			}
			cur, inStack = "", true
		case strings.HasPrefix(line, "Goroutine "), strings.HasPrefix(line, "===="):
			if inStack {
				frames = append(frames, cur)
			}
			inStack = false
		case inStack && cur == "":
			if m := raceFrame.FindStringSubmatch(line); m != nil {
				f := m[1]
				if i := strings.Index(f, ".func"); i >= 0 {
					f = f[:i]
				}
				cur = f
			}
		}
	}
	for len(frames) < 2 {
		frames = append(frames, "?")
	}
	a, b := frames[0], frames[1]
	if a == "" {
		a = "outside-go-cose"
	}
	if b == "" {
		b = "outside-go-cose"
	}
	pair := []string{a, b}
	sort.Strings(pair)
	excerpt := report
	if len(excerpt) > 2500 {
		excerpt = excerpt[:2500] + "\n..."
	}
	return "C18/data-race/" + pair[0] + "~" + pair[1], excerpt
}

func readRaceLogs(prefix string) string {
	matches, _ := filepath.Glob(prefix + "*")
	sort.Strings(matches)
	var sb strings.Builder
	for _, m := range matches {
		b, _ := os.ReadFile(m)
		sb.Write(b)
	}
	return sb.String()
}

// tapeOf obtains the recorded tape of one run from the plain worker.
func tapeOf(bin, dir, id, tier string, seed uint64, run int, knownPath string) []uint32 {
	out := filepath.Join(dir, fmt.Sprintf("tape-%d.json", run))
	cmd := exec.Command(bin, "tape", "-prop", id, "-tier", tier, "-seed", strconv.FormatUint(seed, 10), "-start", strconv.Itoa(run), "-known", knownPath, "-out", out)
	cmd.Env = append(os.Environ(), "VERIF_RACE=1", "GOMAXPROCS=1")
	if b, err := cmd.CombinedOutput(); err != nil {
		fmt.Fprintf(os.Stderr, "verif: cosesim tape: %v\n%s\n", err, b)
		return nil
	}
	b, err := os.ReadFile(out)
	if err != nil {
		return nil
	}
	var t []uint32
	json.Unmarshal(b, &t)
	return t
}

func c18RacePhase(dir, id, tier string, seed uint64, knownPath string, agg *aggregate) (map[string]any, *replayFile) {
	notes := map[string]any{}
	raceBin, err := buildWorker(dir, true, true)
	if err != nil {
		fmt.Fprintf(os.Stderr, "verif: race build failed (no verdict):\n%v\n", err)
		os.Exit(2)
	}
	total := 600
	if tier == "thorough" {
		total = 12000
	}
	nproc := runtime.NumCPU()
	per := (total + nproc - 1) / nproc
	type outcome struct {
		hung  bool
		raced bool
		run   int
		log   string
		fail  string
		runs  int
	}
	outs := make([]outcome, nproc)
	var wg sync.WaitGroup
	for w := 0; w < nproc; w++ {
		start := w * per
		count := per
		if start+count > total {
			count = total - start
		}
		if count <= 0 {
			continue
		}
		wg.Add(1)
		go func(w, start, count int) {
			defer wg.Done()
			out := filepath.Join(dir, fmt.Sprintf("race-res-%d.json", w))
			logp := filepath.Join(dir, fmt.Sprintf("race-log-%d", w))
			cmd := exec.Command(raceBin, "run", "-prop", id, "-tier", tier, "-seed", strconv.FormatUint(seed, 10),
				"-start", strconv.Itoa(start), "-count", strconv.Itoa(count), "-known", knownPath, "-out", out, "-hang", "120s")
			cmd.Env = append(os.Environ(), raceEnv(logp)...)
			b, err := cmd.CombinedOutput()
			var ee *exec.ExitError
			if err != nil {
				if errors.As(err, &ee) && ee.ExitCode() == 66 {
					run := start
					if pb, perr := os.ReadFile(out + ".progress"); perr == nil {
						run, _ = strconv.Atoi(strings.TrimSpace(string(pb)))
					}
					outs[w] = outcome{raced: true, run: run, log: readRaceLogs(logp)}
					return
				}
				if hb, herr := os.ReadFile(out + ".hang"); herr == nil {
					// the watchdog named a run that does not end
					n, _ := strconv.Atoi(strings.TrimSpace(string(hb)))
					outs[w] = outcome{hung: true, run: n}
					return
				}
				msg := string(b)
				if len(msg) > 3000 {
					msg = msg[len(msg)-3000:]
				}
				outs[w] = outcome{fail: fmt.Sprintf("race worker %d: %v\n%s", w, err, msg)}
				return
			}
			var wr workerResult
			if rb, rerr := os.ReadFile(out); rerr == nil && json.Unmarshal(rb, &wr) == nil {
				outs[w].runs = wr.Runs
				if wr.Violation != nil {
					// a monitor violation seen by the race build too: the plain phase reports it
				}
			}
		}(w, start, count)
	}
	wg.Wait()
	ran := 0
	var first *outcome
	for i := range outs {
		if o := &outs[i]; o.hung {
			// concurrent calls that never return: confirmed by executing the
			// run alone (same build, same environment, 30 s watchdog)
			v := hangViolation(raceBin, dir, id, tier, seed, o.run, knownPath, raceEnv(filepath.Join(dir, "race-hang-confirm")))
			if v == nil {
				fmt.Fprintf(os.Stderr, "verif: race phase: watchdog tripped in run %d but the hang did not reproduce in isolation (no verdict)\n", o.run)
				os.Exit(2)
			}
			v.Detail = "race build: " + v.Detail
			return notes, v
		}
	}
	for i := range outs {
		o := &outs[i]
		if o.fail != "" {
			fmt.Fprintln(os.Stderr, "verif:", o.fail)
			fmt.Fprintln(os.Stderr, "verif: race worker died for another reason than a race report (harness trouble, no verdict)")
			os.Exit(2)
		}
		ran += o.runs
		if o.raced && (first == nil || o.run < first.run) {
			first = o
		}
	}
	notes["race_phase"] = map[string]any{"runs_under_race_detector": ran, "planned": total, "race_reports": first != nil,
		"note": "same seeds and run indices as the plain phase; GORACE=halt_on_error=1; the task hand-off is invisible to the detector"}
	if first == nil {
		return notes, nil
	}
	// confirm in isolation.  The detector keeps only a few recent accesses per
	// memory word and evicts them at random, so a genuine race between two
	// accesses that are far apart is reported with a probability < 1 on each
	// execution: the same run is tried several times before giving up.
	logp := filepath.Join(dir, "race-confirm")
	confirmed := false
	for attempt := 0; attempt < 8 && !confirmed; attempt++ {
		out := filepath.Join(dir, "race-confirm.json")
		cmd := exec.Command(raceBin, "run", "-prop", id, "-tier", tier, "-seed", strconv.FormatUint(seed, 10),
			"-start", strconv.Itoa(first.run), "-count", "1", "-known", knownPath, "-out", out, "-hang", "120s")
		cmd.Env = append(os.Environ(), raceEnv(logp)...)
		cerr := cmd.Run()
		var ee *exec.ExitError
		confirmed = errors.As(cerr, &ee) && ee.ExitCode() == 66
	}
	if !confirmed && agg != nil && agg.violation != nil {
		// The report could not be tied to one run, so it decides nothing - but
		// the plain phase holds a violation of its own (a monitor saw shared
		// state change, a result differ), which is replayed and judged on its
		// own evidence by the caller.
		fmt.Fprintf(os.Stderr, "verif: race phase: a race was reported during run %d but 8 executions of that run alone report none; the report is set aside, the plain phase's violation (%s) is confirmed separately\n", first.run, agg.violation.Signature)
		notes["race_phase"].(map[string]any)["unconfirmed_report_set_aside"] = true
		return notes, nil
	}
	if !confirmed {
		fmt.Fprintf(os.Stderr, "verif: the race detector reported a race during run %d but 8 executions of that run alone report none: not reproducible, no verdict\n%s\n", first.run, first.log)
		os.Exit(2)
	}
	report := readRaceLogs(logp)
	sig, excerpt := raceSignature(report)
	plain := filepath.Join(dir, "cosesim")
	tp := tapeOf(plain, dir, id, tier, seed, first.run, knownPath)
	v := &replayFile{Property: id, Seed: seed, Run: first.run, Tier: tier, Signature: sig, Tape: tp, Race: true,
		Detail: "the race detector reports conflicting unsynchronised accesses between two caller tasks of a concurrent block (the interleaving that ran is irrelevant to the report: the hand-off between tasks is invisible to the detector)\n" + excerpt}
	return notes, v
}

// c18Replay replays a C18 replay file; race findings need the race build.
func c18Replay(dir, path string, rf *replayFile) int {
	if !rf.Race {
		return -1 // default procedure
	}
	raceBin, err := buildWorker(dir, true, true)
	if err != nil {
		fatal2("race build failed:\n%v", err)
	}
	knownPath := filepath.Join(dir, "known.json")
	os.WriteFile(knownPath, []byte("[]"), 0o644)
	logp := filepath.Join(dir, "race-replay")
	for attempt := 0; attempt < 10; attempt++ {
		cmd := exec.Command(raceBin, "replay", "-file", path, "-known", knownPath)
		cmd.Env = append(os.Environ(), raceEnv(logp)...)
		b, rerr := cmd.CombinedOutput()
		var ee *exec.ExitError
		if errors.As(rerr, &ee) && ee.ExitCode() == 66 {
			os.Stdout.Write(b)
			report := readRaceLogs(logp)
			sig, excerpt := raceSignature(report)
			fmt.Println(excerpt)
			if sig == rf.Signature {
				fmt.Printf("REPRODUCED (execution %d of at most 10: the detector's shadow memory is sampled)\n", attempt+1)
			} else {
				fmt.Printf("race reproduced with another pair of frames: %s (recorded %s)\n", sig, rf.Signature)
			}
			fmt.Printf("VIOLATION property=%s replay=%s\n", rf.Property, path)
			return 1
		}
	}
	fmt.Println("NOT-REPRODUCED")
	return 0
}
