// Command instrument rewrites a scratch copy of go-cose so that the simulator
// owns (a) every preemption point - a call verifsim.Yield(site) before every
// statement of every function of package cose - and (b) the iteration order of
// every `for ... range <map>` loop, which is routed through verifsim.Pairs,
// (c) the wall clock (time.Now/Since/Until -> verifsim) and (d) the process
// environment (os.Getenv/LookupEnv -> verifsim).
//
// It edits source text at AST positions (comments, build tags and formatting
// survive) and copies the verifsim package into the tree.  With no scheduler
// installed Yield is a load and a return and Pairs is a sorted iteration, so
// the repository's own test suite passes on the instrumented copy.
//
//	instrument <copy of repo> <verifsim source dir>
package main

import (
	"fmt"
	"go/ast"
	"go/importer"
	"go/parser"
	"go/token"
	"go/types"
	"os"
	"path/filepath"
	"sort"
	"strings"
)

type edit struct {
	off, end int // replace [off,end); end==off for pure insertion
	text     string
}

func main() {
	if len(os.Args) != 3 {
		fmt.Fprintln(os.Stderr, "usage: instrument <repo copy> <verifsim dir>")
		os.Exit(2)
	}
	dir, simsrc := os.Args[1], os.Args[2]
	// copy verifsim
	dst := filepath.Join(dir, "verifsim")
	if err := os.MkdirAll(dst, 0o755); err != nil {
		die(err)
	}
	ents, err := os.ReadDir(simsrc)
	if err != nil {
		die(err)
	}
	for _, e := range ents {
		if strings.HasSuffix(e.Name(), ".go") {
			b, err := os.ReadFile(filepath.Join(simsrc, e.Name()))
			if err != nil {
				die(err)
			}
			if err := os.WriteFile(filepath.Join(dst, e.Name()), b, 0o644); err != nil {
				die(err)
			}
		}
	}

	fset := token.NewFileSet()
	pkgs, err := parser.ParseDir(fset, dir, func(fi os.FileInfo) bool { return !strings.HasSuffix(fi.Name(), "_test.go") }, parser.ParseComments)
	if err != nil {
		die(err)
	}
	pkg := pkgs["cose"]
	if pkg == nil {
		die(fmt.Errorf("package cose not found in %s", dir))
	}
	var names []string
	for n := range pkg.Files {
		names = append(names, n)
	}
	sort.Strings(names)
	var files []*ast.File
	for _, n := range names {
		files = append(files, pkg.Files[n])
	}
	info := &types.Info{Types: map[ast.Expr]types.TypeAndValue{}, Uses: map[*ast.Ident]types.Object{}}
	var typeErrs []string
	conf := types.Config{Importer: importer.ForCompiler(fset, "source", nil), Error: func(err error) { typeErrs = append(typeErrs, err.Error()) }}
	if err := os.Chdir(dir); err != nil {
		die(err)
	}
	conf.Check("github.com/veraison/go-cose", fset, files, info)
	if len(typeErrs) > 0 {
		// A tree that does not type-check does not compile either; report
		// and let the build step produce the authoritative error.
		fmt.Println("type errors (build will report them):", strings.Join(typeErrs, "; "))
	}
	site, maps, clocks, envs := 0, 0, 0, 0
	var table []string
	timeFiles := map[string]bool{}
	osFiles := map[string]bool{}
	for i, f := range files {
		name := names[i]
		src, err := os.ReadFile(name)
		if err != nil {
			die(err)
		}
		var edits []edit
		off := func(p token.Pos) int { return fset.Position(p).Offset }
		var curFunc string
		addStmts := func(list []ast.Stmt) {
			for _, st := range list {
				switch st.(type) {
				case *ast.CaseClause, *ast.CommClause:
					continue
				}
				if ls, ok := st.(*ast.LabeledStmt); ok {
					_ = ls // a yield before a labelled statement is fine: label stays attached to the statement
				}
				site++
				table = append(table, fmt.Sprintf("%d %s %s:%d", site, curFunc, filepath.Base(name), fset.Position(st.Pos()).Line))
				edits = append(edits, edit{off(st.Pos()), off(st.Pos()), fmt.Sprintf("verifsim.Yield(%d); ", site)})
			}
		}
		for _, d := range f.Decls {
			fd, ok := d.(*ast.FuncDecl)
			if !ok || fd.Body == nil || fd.Name.Name == "init" {
				continue
			}
			curFunc = fd.Name.Name
			if fd.Recv != nil && len(fd.Recv.List) > 0 {
				curFunc = typeName(fd.Recv.List[0].Type) + "." + curFunc
			}
			ast.Inspect(fd.Body, func(n ast.Node) bool {
				switch n := n.(type) {
				case *ast.BlockStmt:
					addStmts(n.List)
				case *ast.CaseClause:
					addStmts(n.Body)
				case *ast.CommClause:
					addStmts(n.Body)
				case *ast.SelectorExpr:
					// (c) the wall clock: time.Now / time.Since / time.Until
					// read the simulator's clock
					id, ok := n.X.(*ast.Ident)
					if !ok {
						break
					}
					pn, ok := info.Uses[id].(*types.PkgName)
					if !ok {
						break
					}
					switch pn.Imported().Path() {
					case "time":
						switch n.Sel.Name {
						case "Now", "Since", "Until":
							clocks++
							timeFiles[name] = true
							edits = append(edits, edit{off(n.Pos()), off(n.End()), "verifsim." + n.Sel.Name})
						}
					case "os":
						// (d) the process environment: os.Getenv / os.LookupEnv
						// read the simulator's
						switch n.Sel.Name {
						case "Getenv", "LookupEnv":
							envs++
							osFiles[name] = true
							edits = append(edits, edit{off(n.Pos()), off(n.End()), "verifsim." + n.Sel.Name})
						}
					}
				case *ast.RangeStmt:
					tv, ok := info.Types[n.X]
					if !ok {
						break
					}
					if _, isMap := tv.Type.Underlying().(*types.Map); !isMap {
						break
					}
					maps++
					k, v := "_", "_"
					if n.Key != nil {
						k = string(src[off(n.Key.Pos()):off(n.Key.End())])
					}
					if n.Value != nil {
						v = string(src[off(n.Value.Pos()):off(n.Value.End())])
					}
					x := string(src[off(n.X.Pos()):off(n.X.End())])
					tok := ":="
					if n.Tok == token.ASSIGN {
						tok = "="
					}
					hdr := fmt.Sprintf("for _, verifKV := range verifsim.Pairs(%s) {", x)
					var bind string
					switch {
					case k != "_" && v != "_":
						bind = fmt.Sprintf(" %s, %s %s verifKV.K, verifKV.V; _, _ = %s, %s;", k, v, tok, k, v)
					case k != "_":
						bind = fmt.Sprintf(" %s %s verifKV.K; _ = %s;", k, tok, k)
					case v != "_":
						bind = fmt.Sprintf(" %s %s verifKV.V; _ = %s;", v, tok, v)
					default:
						bind = " _ = verifKV;"
					}
					// inner block preserves shadowing inside the body
					edits = append(edits, edit{off(n.Pos()), off(n.Body.Lbrace) + 1, hdr + bind + " {"})
					edits = append(edits, edit{off(n.Body.Rbrace), off(n.Body.Rbrace), "}"})
				}
				return true
			})
		}
		if len(edits) == 0 {
			continue
		}
		keep := ""
		if timeFiles[name] {
			keep = "\nvar _ = time.Nanosecond // (keeps the import used once the clock reads are rerouted)\n"
		}
		edits = append(edits, edit{off(f.Name.End()), off(f.Name.End()), "\nimport \"github.com/veraison/go-cose/verifsim\"\n"})
		if osFiles[name] {
			keep += "\nvar _ = os.ErrNotExist // (keeps the import used once the environment reads are rerouted)\n"
		}
		if keep != "" {
			edits = append(edits, edit{len(src), len(src), keep})
		}
		sort.SliceStable(edits, func(a, b int) bool {
			if edits[a].off != edits[b].off {
				return edits[a].off > edits[b].off
			}
			return edits[a].end > edits[b].end // replacements before pure insertions at the same offset
		})
		out := src
		for _, e := range edits {
			out = append(append(append([]byte{}, out[:e.off]...), e.text...), out[e.end:]...)
		}
		if err := os.WriteFile(name, out, 0o644); err != nil {
			die(err)
		}
	}
	// the site table lets the simulator name sites in schedules and probes
	var tb strings.Builder
	tb.WriteString("package verifsim\n\n// SiteTable maps yield site numbers to \"func file:line\" (generated).\nvar SiteTable = []string{\n\t\"\",\n")
	for _, l := range table {
		parts := strings.SplitN(l, " ", 2)
		fmt.Fprintf(&tb, "\t%q,\n", parts[1])
	}
	tb.WriteString("}\n")
	if err := os.WriteFile(filepath.Join("verifsim", "sites_gen.go"), []byte(tb.String()), 0o644); err != nil {
		die(err)
	}
	fmt.Printf("sites: %d map ranges: %d clock reads: %d environment reads: %d\n", site, maps, clocks, envs)
}

func typeName(e ast.Expr) string {
	switch t := e.(type) {
	case *ast.StarExpr:
		return typeName(t.X)
	case *ast.Ident:
		return t.Name
	case *ast.IndexExpr:
		return typeName(t.X)
	}
	return "?"
}

func die(err error) {
	fmt.Fprintln(os.Stderr, "instrument:", err)
	os.Exit(2)
}
