package sim

import (
	"bytes"
	"crypto/ecdsa"
	"crypto/elliptic"
	"encoding/asn1"
	"errors"
	"fmt"
	"math/big"

	cose "github.com/veraison/go-cose"

	"verif/refcbor"
	"verif/refcose"
	"verif/tape"
)

func init() {
	Scenarios["C16"] = scenarioC16
	Infos["C16"] = ScenarioInfo{
		Level: "exploration",
		Rule: "producer runs: an HSM stub behind NewSigner(ES*, crypto.Signer) returns ASN.1 for tape-chosen (r, s) from the boundary classes (1, 2 or many leading zero bytes in r and/or s, r or s equal to 1 or n-1, random) - the buggify idiom: a dependency doing something legal and rare - or mangled ASN.1 (bad DER, trailing bytes, negative, oversize); " +
			"the native-key path is driven with a seeded entropy stream searched until r or s has a leading zero byte. Output must be I2OSP(r, n) || I2OSP(s, n) of length twice the curve-order size, both paths byte-compatible, and real signatures from both paths must verify under go-cose and the reference. " +
			"consumer runs: a format-translating middlebox presents DER, zero-stripped, zero-extended, off-length (0..2n+4) and bit-flipped variants of valid signatures, exact-length signatures with an all-zero half or a half equal to the group order, and random strings; a panic of the verifier is a violation; the verifier may return nil only for the exact fixed-width form of a valid (r, s), everything else must be ErrVerification. " +
			"Non-trivial = an output or verdict was judged; distinct = distinct (curve, algorithm, (r,s) class or variant, outcome).",
		Assumptions: []string{"Go crypto/ecdsa and math/big are correct", "RFC 9053 section 2.1 as transcribed in refcose.ECDSASigBytes"},
		Real:        []string{"github.com/veraison/go-cose (ecdsa.go, signer.go, verifier.go)", "Go crypto/ecdsa"},
		Stubs:       []string{"HSM / KMS behind crypto.Signer (chosen or mangled ASN.1)", "entropy source (seeded, searched)", "format-translating middlebox"},
		QuickRuns:   40000, ThoroughRuns: 600000,
	}
}

// boundaryScalar draws an integer in [1, n-1] from the boundary classes.
func boundaryScalar(t *tape.Tape, n *big.Int) (*big.Int, string) {
	size := (n.BitLen() + 7) / 8
	one := big.NewInt(1)
	nm1 := new(big.Int).Sub(n, one)
	switch t.Choose(8, "c16.scalar.class") {
	case 0:
		return big.NewInt(1), "one"
	case 1:
		return nm1, "n-1"
	case 2, 3, 4:
		// k leading zero bytes
		k := []int{1, 2, size / 2, size - 1}[t.Choose(4, "c16.scalar.zeros")]
		b := t.Bytes(size-k, "c16.scalar.bytes")
		if len(b) > 0 && b[0] == 0 {
			b[0] = 1
		}
		v := new(big.Int).SetBytes(b)
		if v.Sign() == 0 {
			v = big.NewInt(1)
		}
		if v.Cmp(n) >= 0 {
			v.Mod(v, nm1).Add(v, one)
		}
		return v, fmt.Sprintf("lead0x%d", size-len(v.Bytes()))
	default:
		v := new(big.Int).SetBytes(t.Bytes(size+8, "c16.scalar.rand"))
		v.Mod(v, nm1).Add(v, one)
		if len(v.Bytes()) < size {
			return v, fmt.Sprintf("lead0x%d", size-len(v.Bytes()))
		}
		return v, "full"
	}
}

// wrappedCurve is a Go curve value that is not one of the stock ones but
// behaves exactly like the stock curve it embeds (same Params): the shape a
// PKCS#11 or cloud-KMS shim hands out.  crypto/ecdsa dispatches on Params(), so
// such a key signs normally; its signatures have the stock curve's width.
type wrappedCurve struct{ elliptic.Curve }

func c16Key(t *tape.Tape) *KeyPair {
	k := c16KeyStock(t)
	if t.Bool(1, 6, "c16.wrappedcurve") {
		p := k.Priv.(*ecdsa.PrivateKey)
		w := &ecdsa.PrivateKey{PublicKey: ecdsa.PublicKey{Curve: wrappedCurve{p.Curve}, X: p.X, Y: p.Y}, D: p.D}
		c := *k
		c.Priv = w
		c.Name = k.Name + "/wrapped-curve"
		return &c
	}
	return k
}

func c16KeyStock(t *tape.Tape) *KeyPair {
	k := poolEC[t.Choose(len(poolEC), "c16.key")]
	if t.Bool(1, 3, "c16.otheralg") {
		// the library lets an ES* algorithm be used with any of the three curves
		return k.withAlg([]int64{-7, -35, -36}[t.Choose(3, "c16.alg")])
	}
	return k
}

func scenarioC16(r *Run) {
	t := r.T
	switch t.Pick([]int{4, 3, 5, 2}, "c16.part") {
	case 3:
		c16Message(r, t)
	case 0:
		c16HSM(r, t)
	case 1:
		c16Native(r, t)
	default:
		c16Verifier(r, t)
	}
}

// c16HSM: chosen / mangled ASN.1 through NewSigner(ES*, crypto.Signer).
func c16HSM(r *Run, t *tape.Tape) {
	k := c16Key(t)
	priv := k.Priv.(*ecdsa.PrivateKey)
	curve := k.Curve
	n := curve.Params().N
	hsm := &HSM{Key: priv}
	var signer cose.Signer
	var err error
	r.Lib(func() { signer, err = cose.NewSigner(cose.Algorithm(k.Alg), hsm) })
	if err != nil {
		r.Skip("NewSigner with a crypto.Signer stub failed: " + err.Error())
	}
	ent := NewEntropy(uint64(t.U32("entropy.seed")))
	content := t.Bytes(1+t.Choose(40, "c16.content.n"), "c16.content")
	mode := []string{"chosen", "chosen", "chosen", "real", "err", "badDER", "trailing", "negative", "oversize"}[t.Choose(9, "c16.hsm.mode")]
	name := curve.Params().Name
	switch mode {
	case "chosen":
		rr, rc := boundaryScalar(t, n)
		ss, sc := boundaryScalar(t, n)
		if t.Bool(1, 6, "c16.derlen") {
			// (r, s) whose DER encoding happens to be exactly as long as the
			// fixed-width form: a length test cannot tell the two apart
			if a, b := derLenTwoN(t, n); a != nil {
				rr, ss = a, b
				rc, sc = fmt.Sprintf("lead0x%d", refcose.OrderLen(curve)-len(a.Bytes())), fmt.Sprintf("lead0x%d", refcose.OrderLen(curve)-len(b.Bytes()))
				r.Probe("der-length-equals-fixed-width")
			}
		}
		hsm.Mode, hsm.R, hsm.S = "chosen", rr, ss
		var sig []byte
		r.Lib(func() { sig, err = signer.Sign(ent, content) })
		r.Fired("hsm.rareRS")
		r.Op("HSM_SIGN", "%s alg=%d chosen r:%s s:%s -> %s", name, k.Alg, rc, sc, errTag(err))
		r.Outcome(fmt.Sprintf("hsm/%s/r:%s/s:%s", name, rc, sc))
		r.Check()
		if err != nil {
			r.Fail("hsm-legal-rs-refused/"+name, "a crypto.Signer returned valid ASN.1 for r, s in [1, n-1] (r %s, s %s) and Sign failed: %v", rc, sc, err)
			return
		}
		want := refcose.ECDSASigBytes(curve, rr, ss)
		if !bytes.Equal(sig, want) {
			r.Fail("ecdsa-signature-not-fixed-width/hsm/"+name+"/r:"+zeroClass(rc)+"/s:"+zeroClass(sc),
				"signature from the crypto.Signer path is not I2OSP(r)||I2OSP(s) of %d bytes\n got (%d): %x\nwant (%d): %x", len(want), len(sig), sig, len(want), want)
		}
		if rc != "full" || sc != "full" {
			r.Probe("r-or-s-leading-zero")
		}
	case "real":
		// a real signature with a leading zero, found by searching nonces
		rr, ss := c16SearchRealSig(t, priv, k.Alg, content)
		hsm.Mode, hsm.R, hsm.S = "chosen", rr, ss
		var sig []byte
		r.Lib(func() { sig, err = signer.Sign(ent, content) })
		r.Fired("hsm.rareRS")
		want := refcose.ECDSASigBytes(curve, rr, ss)
		lz := len(rr.Bytes()) < refcose.OrderLen(curve) || len(ss.Bytes()) < refcose.OrderLen(curve)
		r.Op("HSM_SIGN", "%s alg=%d real signature leading-zero=%v -> %s", name, k.Alg, lz, errTag(err))
		r.Outcome(fmt.Sprintf("hsm-real/%s/lz=%v", name, lz))
		r.Check()
		if err != nil || !bytes.Equal(sig, want) {
			r.Fail("ecdsa-signature-not-fixed-width/hsm-real/"+name+fmt.Sprintf("/lz=%v", lz), "err=%v\n got: %x\nwant: %x", err, sig, want)
			return
		}
		verifier := r.verifierFor(k, false)
		var verr error
		r.Lib(func() { verr = verifier.Verify(content, sig) })
		if verr != nil || !refcose.ValidSignature(k.Alg, k.Pub, content, sig) {
			r.Fail("valid-hsm-signature-does-not-verify/"+name+fmt.Sprintf("/lz=%v", lz), "a real (r, s) through the crypto.Signer path: go-cose verifier %v, reference %v\nsig: %x", verr, refcose.ValidSignature(k.Alg, k.Pub, content, sig), sig)
		}
		if lz {
			r.Probe("real-signature-leading-zero-verified")
		}
	default:
		hsm.Mode = mode
		var sig []byte
		r.Lib(func() { sig, err = signer.Sign(ent, content) })
		r.Fired("hsm." + mode)
		r.Op("HSM_SIGN", "%s alg=%d %s -> %s", name, k.Alg, mode, errTag(err))
		r.Outcome("hsm/" + name + "/" + mode + "/" + errTag(err))
		r.Check()
		want := 2 * refcose.OrderLen(curve)
		if err != nil {
			if len(sig) > 0 {
				r.Fail("hsm-error-with-bytes/"+mode, "Sign returned %d bytes together with %v", len(sig), err)
			}
			if mode == "err" && !errors.Is(err, ErrHSM) {
				r.Fail("hsm-error-not-propagated", "the crypto.Signer's error was replaced by %v", err)
			}
			return
		}
		if mode == "err" || mode == "negative" || mode == "oversize" || mode == "badDER" {
			r.Fail("hsm-garbage-accepted/"+mode, "the crypto.Signer returned %s and Sign returned a %d-byte signature without error", mode, len(sig))
			return
		}
		if len(sig) != want {
			r.Fail("ecdsa-signature-not-fixed-width/hsm-"+mode+"/"+name, "signature has %d bytes, want %d", len(sig), want)
		}
	}
}

func zeroClass(c string) string {
	if c == "full" {
		return "full"
	}
	if c == "one" || c == "n-1" {
		return c
	}
	return "lead0"
}

// c16SearchRealSig signs with the standard library under tape-seeded nonces
// until r or s has a leading zero byte (bounded search; returns the last
// candidate otherwise).
func c16SearchRealSig(t *tape.Tape, priv *ecdsa.PrivateKey, alg int64, content []byte) (*big.Int, *big.Int) {
	h := refcose.HashFor(alg)
	digest := refcose.Digest(h, content)
	size := refcose.OrderLen(elliptic.Curve(priv.Curve))
	seed := uint64(t.U32("c16.search.seed"))
	want := t.Bool(3, 4, "c16.search.wantzero")
	var rr, ss *big.Int
	for i := 0; i < 400; i++ {
		e := NewEntropy(tape.Mix(seed, uint64(i)))
		var err error
		rr, ss, err = ecdsa.Sign(e, priv, digest)
		if err != nil {
			panic(err)
		}
		if !want || len(rr.Bytes()) < size || len(ss.Bytes()) < size {
			break
		}
	}
	return rr, ss
}

// c16Native: the native-key path under searched entropy.
func c16Native(r *Run, t *tape.Tape) {
	k := c16Key(t)
	priv := k.Priv.(*ecdsa.PrivateKey)
	curve := k.Curve
	size := refcose.OrderLen(curve)
	name := curve.Params().Name
	signer := r.signerFor(k, false)
	verifier := r.verifierFor(k, false)
	content := t.Bytes(1+t.Choose(40, "c16.content.n"), "c16.content")
	seed := uint64(t.U32("c16.search.seed"))
	want := t.Bool(3, 4, "c16.search.wantzero")
	var sig []byte
	var err error
	tries := 0
	for i := 0; i < 400; i++ {
		tries++
		e := NewEntropy(tape.Mix(seed, uint64(i)))
		r.Lib(func() { sig, err = signer.Sign(e, content) })
		if err != nil || len(sig) != 2*size {
			break
		}
		if !want || sig[0] == 0 || sig[size] == 0 {
			break
		}
	}
	lz := err == nil && len(sig) == 2*size && (sig[0] == 0 || sig[size] == 0)
	r.Op("SIGN", "%s alg=%d native key, %d entropy seeds tried, leading-zero=%v -> %s", name, k.Alg, tries, lz, errTag(err))
	r.Outcome(fmt.Sprintf("native/%s/lz=%v", name, lz))
	r.Check()
	if err != nil {
		r.Fail("native-sign-fails/"+name, "signing with a native ECDSA key failed: %v", err)
		return
	}
	if len(sig) != 2*size {
		r.Fail("ecdsa-signature-not-fixed-width/native/"+name, "signature has %d bytes, want %d: %x", len(sig), 2*size, sig)
		return
	}
	var verr error
	r.Lib(func() { verr = verifier.Verify(content, sig) })
	if verr != nil || !refcose.ValidSignature(k.Alg, k.Pub, content, sig) {
		r.Fail("valid-native-signature-does-not-verify/"+name+fmt.Sprintf("/lz=%v", lz), "go-cose verifier: %v, reference: %v\nsig: %x", verr, refcose.ValidSignature(k.Alg, k.Pub, content, sig), sig)
		return
	}
	if lz {
		r.Probe("native-signature-leading-zero-verified")
	}
	// the same signer through a message object taken from a pool (signature
	// slot: an empty slice with capacity left from a smaller curve): the
	// stored signature has the full fixed width all the same
	if t.Bool(1, 3, "c16.recycled") {
		capv := []int{1, 32, 64, 96}[t.Choose(4, "c16.recycled.cap")]
		m := &cose.Sign1Message{Headers: cose.Headers{Protected: cose.ProtectedHeader{cose.HeaderLabelAlgorithm: cose.Algorithm(k.Alg)}}, Payload: content, Signature: make([]byte, 0, capv)}
		var merr error
		r.Lib(func() { merr = m.Sign(NewEntropy(tape.Mix(seed, 77)), nil, signer) })
		r.Check()
		if merr != nil || len(m.Signature) != 2*size {
			r.Fail("ecdsa-signature-not-fixed-width/recycled-message/"+name, "Sign on a message whose signature slot is an empty slice of capacity %d: %v, stored signature has %d bytes, want %d", capv, merr, len(m.Signature), 2*size)
			return
		}
		var verr2 error
		r.Lib(func() { verr2 = m.Verify(nil, verifier) })
		if verr2 != nil {
			r.Fail("ecdsa-signature-not-fixed-width/recycled-message/"+name, "the signature stored in a recycled message object does not verify: %v (%x)", verr2, m.Signature)
			return
		}
		r.Probe("recycled-message-object-signed")
	}
	// byte compatibility: the same (r, s) through the crypto.Signer path
	rr, ss := new(big.Int).SetBytes(sig[:size]), new(big.Int).SetBytes(sig[size:])
	hsm := &HSM{Key: priv, Mode: "chosen", R: rr, S: ss}
	var s2 cose.Signer
	r.Lib(func() { s2, err = cose.NewSigner(cose.Algorithm(k.Alg), hsm) })
	if err != nil {
		return
	}
	var sig2 []byte
	r.Lib(func() { sig2, err = s2.Sign(NewEntropy(1), content) })
	if err != nil || !bytes.Equal(sig, sig2) {
		r.Fail("signing-paths-not-byte-compatible/"+name+fmt.Sprintf("/lz=%v", lz), "the same (r, s) gives different bytes on the two paths (%v)\nnative: %x\ncrypto.Signer: %x", err, sig, sig2)
	}
}

// c16Verifier: only the exact fixed-width form of a valid (r, s) verifies.
func c16Verifier(r *Run, t *tape.Tape) {
	k := c16Key(t)
	priv := k.Priv.(*ecdsa.PrivateKey)
	curve := k.Curve
	size := refcose.OrderLen(curve)
	name := curve.Params().Name
	content := t.Bytes(1+t.Choose(40, "c16.content.n"), "c16.content")
	rr, ss := c16SearchRealSig(t, priv, k.Alg, content)
	verifier := r.verifierFor(k, false)
	if t.Bool(1, 4, "c16.forged") {
		// a key for which a CHOSEN (r, s) with many leading zero bytes is a
		// genuine signature of the content: Q = r^-1 (s R - z G) for a point R
		// whose x-coordinate is r.  Gives every curve signatures whose halves
		// leave room for "+ n" inside the fixed width.
		if q, fr, fs := forgeECKey(t, curve, refcose.Digest(refcose.HashFor(k.Alg), content)); q != nil {
			fk := &KeyPair{Name: k.Name + "-forged", Alg: k.Alg, Pub: q, Curve: curve}
			var fv cose.Verifier
			var ferr error
			r.Lib(func() { fv, ferr = cose.NewVerifier(cose.Algorithm(k.Alg), q) })
			if ferr == nil && refcose.ValidSignature(k.Alg, q, content, refcose.ECDSASigBytes(curve, fr, fs)) {
				k, verifier, rr, ss = fk, fv, fr, fs
				r.Probe("forged-key-with-short-r-and-s")
			}
		}
	}
	good := refcose.ECDSASigBytes(curve, rr, ss)
	var offered []byte
	variant := ""
	switch t.Choose(16, "c16.variant") {
	case 15:
		// zero octets whose number is a multiple of 2^8 (or 2^16), put where a
		// peer or a record format might put padding: in front of r, between
		// the halves, behind s, or half of them in front of each half.  The
		// total length is then congruent to 2n modulo 2^8 / 2^16 - a length
		// kept in a narrow integer sees the right number - and r and s are
		// still found by anything that reads the halves as integers.
		pad := []int{256, 512, 768, 1024, 65536}[t.Choose(5, "c16.farpad.n")]
		z := make([]byte, pad)
		switch t.Choose(4, "c16.farpad.where") {
		case 0:
			offered = append(append(append([]byte{}, good[:size]...), z...), good[size:]...)
		case 1:
			offered = append(append([]byte{}, z...), good...)
		case 2:
			offered = append(append([]byte{}, good...), z...)
		default:
			offered = append(append(append(append([]byte{}, z[:pad/2]...), good[:size]...), z[:pad/2]...), good[size:]...)
		}
		variant = "far-padding"
	case 14:
		// r, then one to three zero octets, then s: an odd or even total that
		// halves "almost" right (a peer that pads s one octet too far, or a
		// record separator left between the halves)
		k0 := 1 + t.Choose(3, "c16.midzero.n")
		offered = append(append(append([]byte{}, good[:size]...), make([]byte, k0)...), good[size:]...)
		variant = "mid-zero"
	case 13:
		// the first bytes of a DER signature, or a DER header with nothing
		// behind it: what a truncating channel leaves of a DER-encoding peer's
		// signature
		der, _ := asn1.Marshal(struct{ R, S *big.Int }{rr, ss})
		fixed := [][]byte{{0x30}, {0x30, 0x00}, {0x30, 0x81}, {0x30, 0x81, 0x00}, {0x30, 0x02, 0x02}, {0x30, 0x03, 0x02, 0x01}, {0x30, 0x06, 0x02, 0x01, 0x01, 0x02}}
		if i := t.Choose(len(fixed)+6, "c16.derprefix"); i < len(fixed) {
			offered = fixed[i]
		} else {
			offered = der[:min(len(der), 1+t.Choose(8, "c16.derprefix.n"))]
		}
		variant = "der-prefix"
	case 11, 12:
		// a half replaced by itself plus the group order, where that still
		// fits the fixed width: congruent modulo n, but not in [1, n-1]
		offered, variant = good, "exact"
		nn := curve.Params().N
		rp, sp := new(big.Int).Add(rr, nn), new(big.Int).Add(ss, nn)
		rfits, sfits := len(rp.Bytes()) <= size, len(sp.Bytes()) <= size
		which := t.Choose(3, "c16.plus.which")
		if rfits && (which == 0 || which == 2 || !sfits) {
			offered = append(rp.FillBytes(make([]byte, size)), good[size:]...)
			variant = "half-plus-order"
		}
		if sfits && (which == 1 || which == 2 || !rfits) {
			offered = append(append([]byte{}, offered[:size]...), sp.FillBytes(make([]byte, size))...)
			variant = "half-plus-order"
		}
	case 0:
		offered, variant = good, "exact"
	case 1:
		offered, _ = asn1.Marshal(struct{ R, S *big.Int }{rr, ss})
		variant = "der"
	case 2:
		offered, variant = append(append([]byte{}, rr.Bytes()...), ss.Bytes()...), "stripped"
	case 3:
		offered = append([]byte{0}, good[:size]...)
		offered = append(offered, 0)
		offered = append(offered, good[size:]...)
		variant = "each-half-extended"
	case 4:
		offered, variant = append([]byte{0}, good...), "lead0"
	case 5:
		offered, variant = append(append([]byte{}, good...), 0), "trail0"
	case 6:
		n := t.Choose(2*size+5, "c16.len")
		offered = t.Bytes(n, "c16.randsig")
		variant = "random-length"
	case 7:
		offered = append([]byte{}, good...)
		if t.Bool(1, 3, "c16.flip.top") {
			// the most significant octet of a half: on P-521 seven of its bits
			// lie beyond the group order's width
			offered[[]int{0, size}[t.Choose(2, "c16.flip.half")]] ^= 1 << uint(1+t.Choose(7, "c16.flip.topbit"))
		} else {
			offered[t.Choose(len(offered), "c16.flip.pos")] ^= 1 << uint(t.Choose(8, "c16.flip.bit"))
		}
		variant = "bitflip"
	case 9:
		// exact length, one half (or both) all zero: r = 0 or s = 0 is never valid
		offered = append([]byte{}, good...)
		switch t.Choose(3, "c16.zero.which") {
		case 0:
			for i := 0; i < size; i++ {
				offered[i] = 0
			}
		case 1:
			for i := size; i < 2*size; i++ {
				offered[i] = 0
			}
		default:
			offered = make([]byte, 2*size)
		}
		variant = "zero-half"
	case 10:
		// halves equal to the group order or larger
		offered = append([]byte{}, good...)
		nb := curve.Params().N.FillBytes(make([]byte, size))
		if t.Bool(1, 2, "c16.order.which") {
			copy(offered[:size], nb)
		} else {
			copy(offered[size:], nb)
		}
		variant = "half-equals-order"
	default:
		n := t.Choose(2*size+5, "c16.len")
		if n <= len(good) {
			offered = good[:n]
		} else {
			offered = append(append([]byte{}, good...), make([]byte, n-len(good))...)
		}
		variant = "resized"
	}
	if variant != "exact" {
		r.Fired("sig.reencode." + variant)
	}
	if len(offered) == len(good) && variant != "exact" && t.Bool(1, 3, "c16.samebuffer") {
		// a receive buffer that is re-used: the genuine signature is verified
		// out of it first, then the variant is written over it in place and
		// the same slice is offered to the same verifier again
		buf := append([]byte{}, good...)
		r.Lib(func() { verifier.Verify(content, buf) })
		copy(buf, offered)
		offered = buf
		r.Fired("sig.same-buffer-overwritten")
	}
	var err error
	r.Steps++
	if lp := call(func() { err = verifier.Verify(content, offered) }); lp != nil {
		r.Check()
		r.Fail("ecdsa-verifier-panics/"+variant+"/"+name, "the verifier panicked (%v, in %s) instead of returning a verification error for a %d-byte %s signature: %x", lp.Value, lp.Frame, len(offered), variant, offered)
		return
	}
	want := refcose.ValidSignature(k.Alg, k.Pub, content, offered)
	lz := len(rr.Bytes()) < size || len(ss.Bytes()) < size
	r.Op("VERIFY", "%s alg=%d variant=%s (%dB, canonical %dB) leading-zero=%v -> %s", name, k.Alg, variant, len(offered), 2*size, lz, errTag(err))
	r.Outcome(fmt.Sprintf("verify/%s/%s/lz=%v/%s", name, variant, lz, errTag(err)))
	r.Check()
	switch {
	case err == nil && !want:
		r.Fail("non-canonical-ecdsa-signature-accepted/"+variant+"/"+name, "the verifier returned nil for a %d-byte %s form (canonical form has %d bytes)\noffered: %x\n  exact: %x", len(offered), variant, 2*size, offered, good)
	case err != nil && want:
		r.Fail("canonical-ecdsa-signature-rejected/"+name+fmt.Sprintf("/lz=%v", lz), "the verifier returned %v for the exact fixed-width form of a valid signature: %x", err, offered)
	case err != nil && !errors.Is(err, cose.ErrVerification):
		r.Fail("ecdsa-rejection-not-a-verification-error/"+variant, "rejected with %v, which is not ErrVerification", err)
	}
	if lz && variant == "stripped" {
		r.Probe("stripped-variant-of-leading-zero-signature")
	}
	// the digest entry point of the same verifier is held to the same rule
	if dv, ok := verifier.(cose.DigestVerifier); ok {
		digest := refcose.Digest(refcose.HashFor(k.Alg), content)
		var derr error
		r.Lib(func() { derr = dv.VerifyDigest(digest, offered) })
		r.Check()
		switch {
		case derr == nil && !want:
			r.Fail("non-canonical-ecdsa-signature-accepted/"+variant+"/"+name+"/VerifyDigest", "VerifyDigest returned nil for a %d-byte %s form (canonical form has %d bytes)\noffered: %x\n  exact: %x", len(offered), variant, 2*size, offered, good)
		case derr != nil && want:
			r.Fail("canonical-ecdsa-signature-rejected/"+name+"/VerifyDigest", "VerifyDigest returned %v for the exact fixed-width form of a valid signature", derr)
		case derr != nil && !errors.Is(derr, cose.ErrVerification):
			r.Fail("ecdsa-rejection-not-a-verification-error/"+variant+"/VerifyDigest", "rejected with %v, which is not ErrVerification", derr)
		}
	}
}

var _ = elliptic.P256

// derLenTwoN returns r, s in [1, n-1] whose ASN.1 DER ECDSA-Sig-Value is exactly
// 2*size bytes long (size = byte length of n).
func derLenTwoN(t *tape.Tape, n *big.Int) (*big.Int, *big.Int) {
	size := (n.BitLen() + 7) / 8
	for hdr := 2; hdr <= 3; hdr++ {
		total := 2*size - hdr - 4 // bytes of the two integer contents
		if total < 2 || (hdr == 2 && total+4 > 127) || (hdr == 3 && (total+4 < 128 || total+4 > 255)) {
			continue
		}
		lo, hi := total-(size-1), size-1
		if lo < 1 {
			lo = 1
		}
		if hi > total-1 {
			hi = total - 1
		}
		if lo > hi {
			continue
		}
		lr := lo + t.Choose(hi-lo+1, "c16.derlen.lr")
		mk := func(l int) *big.Int {
			b := t.Bytes(l, "c16.derlen.bytes")
			b[0] = b[0]&0x7f | 0x01 // no DER sign padding, no leading zero
			return new(big.Int).SetBytes(b)
		}
		a, b := mk(lr), mk(total-lr)
		der, err := asn1.Marshal(struct{ R, S *big.Int }{a, b})
		if err != nil || len(der) != 2*size || a.Cmp(n) >= 0 || b.Cmp(n) >= 0 {
			continue
		}
		return a, b
	}
	return nil, nil
}

// forgeECKey chooses r and s with several leading zero bytes and returns the
// public key under which (r, s) is a valid ECDSA signature of digest.
func forgeECKey(t *tape.Tape, curve elliptic.Curve, digest []byte) (*ecdsa.PublicKey, *big.Int, *big.Int) {
	p := curve.Params()
	size := (p.N.BitLen() + 7) / 8
	short := func(label string) *big.Int {
		k := 4 + t.Choose(size/2, label)
		b := t.Bytes(size-k, label+".b")
		b[0] |= 1
		return new(big.Int).SetBytes(b)
	}
	if size <= 48 && t.Bool(1, 3, "c16.forge.derlike") {
		// a genuine signature whose fixed-width form begins like a DER
		// SEQUENCE of the right total length (30 <2n-2> 02 ..): valid r||s
		// all the same
		short = func(label string) *big.Int {
			b := t.Bytes(size, label+".b")
			if label == "c16.forge.r" {
				b[0], b[1], b[2] = 0x30, byte(2*size-2), 0x02
				if t.Bool(1, 2, "c16.forge.derlike.inner") {
					b[3] = byte(size - 4)
				}
			} else {
				b[0] &= 0x7f
			}
			return new(big.Int).SetBytes(b)
		}
	}
	three := big.NewInt(3)
	for try := 0; try < 40; try++ {
		r := short("c16.forge.r")
		if try > 0 {
			r.Add(r, big.NewInt(int64(try)))
		}
		// y^2 = x^3 - 3x + b
		x3 := new(big.Int).Exp(r, three, p.P)
		x3.Sub(x3, new(big.Int).Mul(three, r)).Add(x3, p.B).Mod(x3, p.P)
		y := new(big.Int).ModSqrt(x3, p.P)
		if y == nil || !curve.IsOnCurve(r, y) {
			continue
		}
		s := short("c16.forge.s")
		z := new(big.Int).SetBytes(digest)
		if len(digest) > size {
			z.SetBytes(digest[:size])
		}
		if excess := min(len(digest), size)*8 - p.N.BitLen(); excess > 0 {
			z.Rsh(z, uint(excess))
		}
		rinv := new(big.Int).ModInverse(r, p.N)
		if rinv == nil {
			continue
		}
		sx, sy := curve.ScalarMult(r, y, s.Bytes())
		negz := new(big.Int).Sub(p.N, new(big.Int).Mod(z, p.N))
		zx, zy := curve.ScalarBaseMult(negz.Bytes())
		tx, ty := curve.Add(sx, sy, zx, zy)
		qx, qy := curve.ScalarMult(tx, ty, rinv.Bytes())
		if qx.Sign() == 0 && qy.Sign() == 0 {
			continue
		}
		return &ecdsa.PublicKey{Curve: curve, X: qx, Y: qy}, r, s
	}
	return nil, nil, nil
}

// c16Message: the same rule one layer up.  A COSE_Sign1 signed by the foreign
// peer crosses a format-translating middlebox that re-encodes the signature
// FIELD (DER, stripped or extended halves); decoded and verified as a
// message, only the exact fixed-width form passes - whatever a decoder may
// want to do for such peers.
func c16Message(r *Run, t *tape.Tape) {
	k := c16Key(t)
	ent := NewEntropy(uint64(t.U32("entropy.seed")))
	spec := genSpec(t, SpecOpts{Kinds: []refcose.Kind{refcose.KSign1Tagged, refcose.KSign1Untagged}, MaxExtra: 2, AlgPresent: 1})
	spec.Key = k
	spec.Layer.Prot = append(removeLabel(spec.Layer.Prot, refcose.LAlg), KV{refcbor.Uint(refcose.LAlg), refcbor.Int(k.Alg)})
	w := r.ForeignWire(t, spec, genKnobs(t), ent, false, 0, false)
	wire, variant := w.B, "exact"
	if t.Bool(3, 4, "c16.msg.reencode") {
		if out, how := reencodeSignatureOnWire(t, w.B); how != "" {
			wire, variant = out, how
			r.Fired("sig.reencode." + how)
		}
	}
	name := k.Curve.Params().Name
	r.Op("DELIVER", "%s signed by the peer (%s, alg %d), signature field: %s", spec.Kind, name, k.Alg, variant)
	r.Outcome("message/" + name + "/" + variant)
	rc, err := r.Decode(spec.Kind, wire)
	if err != nil {
		r.Outcome("message-refused-at-decode")
		return
	}
	verr := r.VerifyLib(rc, spec.External, r.verifierFor(k, false))
	ref, perr := RefVerdict(spec.Kind, wire, []*KeyPair{k}, spec.External, nil)
	r.Check()
	want := perr == nil && len(ref) == 1 && ref[0].Valid
	switch {
	case verr == nil && !want:
		r.Fail("non-canonical-ecdsa-signature-accepted/message/"+variant+"/"+name, "a %s whose signature field carries the %s form verifies after decoding\nwire: %s", spec.Kind, variant, hexShort(wire))
	case verr != nil && want:
		r.Fail("canonical-ecdsa-signature-rejected/message/"+name, "a %s with the exact fixed-width signature does not verify: %v\nwire: %s", spec.Kind, verr, hexShort(wire))
	}
	// the decoder hands the signature field on as it came
	if pm, e := refcose.ParseMsg(spec.Kind, wire); e == nil && pm.Signature != nil && pm.Signature.Major == refcbor.MBstr && rc.M1 != nil && !bytes.Equal(rc.M1.Signature, pm.Signature.Data) {
		r.Fail("decoder-rewrites-signature-field/"+variant, "the decoded message's Signature differs from the bytes of the signature field on the wire\n wire: %x\ndecoded: %x", pm.Signature.Data, rc.M1.Signature)
	}
}
