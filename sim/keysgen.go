package sim

import (
	"crypto/ecdsa"
	"crypto/ed25519"
	"crypto/elliptic"
	"fmt"
	"math/big"

	"verif/refcbor"
	"verif/refcose"
	"verif/tape"
)

// KeySpec is the abstract description of one COSE_Key at rest in the key
// directory, as the reference encoder writes it.
type KeySpec struct {
	Kty     int64
	Crv     *int64
	Alg     *int64
	Ops     []*refcbor.Item // nil: key_ops absent
	HasOps  bool
	Kid     []byte
	BaseIV  []byte
	X, Y, D []byte // nil: absent
	YSign   *bool  // when set, y is written as a bool (compressed point)
	K       []byte // symmetric
	Extra   []KV
	Pair    *KeyPair // the Go key it was derived from (nil for symmetric/custom)
	Desc    string
	// Unsupported: a genuine key on an OKP curve this library has no code for
	Unsupported bool
}

func crvOf(c elliptic.Curve) int64 {
	switch c {
	case elliptic.P256():
		return refcose.CrvP256
	case elliptic.P384():
		return refcose.CrvP384
	case elliptic.P521():
		return refcose.CrvP521
	}
	return 0
}

func padTo(b []byte, n int) []byte {
	if len(b) >= n {
		return b
	}
	return append(make([]byte, n-len(b)), b...)
}

// Item renders the key as a CBOR map (entries in generation order).
func (k *KeySpec) Item() *refcbor.Item {
	var kv []*refcbor.Item
	add := func(l int64, v *refcbor.Item) { kv = append(kv, refcbor.Int(l), v) }
	add(1, refcbor.Int(k.Kty))
	if k.Kid != nil {
		add(2, refcbor.Bstr(k.Kid))
	}
	if k.Alg != nil {
		add(3, refcbor.Int(*k.Alg))
	}
	if k.HasOps {
		add(4, refcbor.Array(k.Ops...))
	}
	if k.BaseIV != nil {
		add(5, refcbor.Bstr(k.BaseIV))
	}
	if k.Crv != nil {
		add(-1, refcbor.Int(*k.Crv))
	}
	if k.K != nil {
		add(-1, refcbor.Bstr(k.K))
	}
	if k.X != nil {
		add(-2, refcbor.Bstr(k.X))
	}
	if k.YSign != nil {
		// compressed point: y is the sign bit (RFC 9053 section 7.1.1)
		add(-3, refcbor.Bool(*k.YSign))
	} else if k.Y != nil {
		add(-3, refcbor.Bstr(k.Y))
	}
	if k.D != nil {
		add(-4, refcbor.Bstr(k.D))
	}
	for _, e := range k.Extra {
		kv = append(kv, e.K, e.V)
	}
	return refcbor.Map(kv...)
}

// Bytes is the canonical encoding of the key.
func (k *KeySpec) Bytes() []byte { return refcbor.CanonicalBytes(k.Item()) }

func genOps(t *tape.Tape) ([]*refcbor.Item, bool) {
	switch t.Pick([]int{5, 2, 2, 1, 1, 1}, "key.ops.kind") {
	case 0:
		return nil, false
	case 1:
		if t.Bool(1, 2, "key.ops.order") {
			// the order of the entries carries no meaning and is the writer's
			return []*refcbor.Item{refcbor.Int(refcose.KeyOpVerify), refcbor.Int(refcose.KeyOpSign)}, true
		}
		return []*refcbor.Item{refcbor.Int(refcose.KeyOpSign), refcbor.Int(refcose.KeyOpVerify)}, true
	case 2:
		one := []int64{refcose.KeyOpSign, refcose.KeyOpVerify}[t.Choose(2, "key.ops.one")]
		if t.Bool(1, 3, "key.ops.text") {
			return []*refcbor.Item{refcbor.Tstr(map[int64]string{1: "sign", 2: "verify"}[one])}, true
		}
		return []*refcbor.Item{refcbor.Int(one)}, true
	case 3:
		return []*refcbor.Item{refcbor.Int(3), refcbor.Int(4), refcbor.Tstr("wrapKey")}, true // encrypt, decrypt, wrap: neither sign nor verify
	case 4:
		return []*refcbor.Item{}, true // present but empty
	default:
		n := 1 + t.Choose(4, "key.ops.n")
		var out []*refcbor.Item
		for i := 0; i < n; i++ {
			out = append(out, refcbor.Int(int64(1+t.Choose(10, "key.ops.v"))))
		}
		return out, true
	}
}

// genKeySpec generates a valid COSE_Key of the world: EC2 / OKP keys derived
// from pool keys (private or public-only, with or without alg, key_ops, kid,
// base IV and extra parameters), symmetric keys, and keys of an unregistered
// type.
func genKeySpec(t *tape.Tape) *KeySpec {
	ks := &KeySpec{}
	switch t.Pick([]int{6, 3, 1, 1}, "keyspec.kind") {
	case 0:
		kp := poolEC[t.Choose(len(poolEC), "keyspec.ec")]
		if t.Bool(1, 3, "keyspec.ec.fresh") {
			kp = freshECKey(t)
		}
		priv := kp.Priv.(*ecdsa.PrivateKey)
		crv := crvOf(priv.Curve)
		size := refcose.CoordSize(crv)
		ks.Kty, ks.Crv, ks.Pair = refcose.KtyEC2, &crv, kp
		ks.X, ks.Y = padTo(priv.X.Bytes(), size), padTo(priv.Y.Bytes(), size)
		if (len(priv.X.Bytes()) < size || len(priv.Y.Bytes()) < size) && t.Bool(1, 3, "keyspec.xy.trim") {
			// a peer that writes coordinates as its big-number library hands
			// them out (leading zero octets dropped): within the curve's size
			ks.X, ks.Y = priv.X.Bytes(), priv.Y.Bytes()
		}
		if t.Bool(2, 3, "keyspec.private") {
			ks.D = padTo(priv.D.Bytes(), size)
			if t.Bool(1, 4, "keyspec.d.trim") {
				ks.D = priv.D.Bytes() // a peer may trim d
			}
		}
		if t.Bool(1, 2, "keyspec.alg") {
			a := algForCurve(priv.Curve)
			ks.Alg = &a
		}
		if t.Bool(1, 15, "keyspec.ec.otheralg") {
			// alg names another ECDSA algorithm than the one the curve fixes
			a := []int64{-7, -35, -36}[t.Choose(3, "keyspec.ec.otheralg.v")]
			ks.Alg = &a
			if a != algForCurve(priv.Curve) {
				ks.Pair = nil
			}
		}
		if t.Bool(1, 12, "keyspec.ec.compressed") {
			// a peer that writes compressed points; x is the key's own or any
			// string of the right length (about half of which are not the
			// abscissa of a curve point)
			b := t.Bool(1, 2, "keyspec.ec.ysign")
			ks.YSign = &b
			if t.Bool(1, 2, "keyspec.ec.anyx") {
				ks.X = t.Bytes(size, "keyspec.ec.x")
			}
			ks.Pair = nil // not the generated pair any more
		}
		ks.Desc = "EC2 " + kp.Name
	case 1:
		kp := poolEd[t.Choose(len(poolEd), "keyspec.ed")]
		priv := kp.Priv.(ed25519.PrivateKey)
		crv := int64(refcose.CrvEd25519)
		ks.Kty, ks.Crv, ks.Pair = refcose.KtyOKP, &crv, kp
		ks.X = append([]byte{}, priv[32:]...)
		if t.Bool(2, 3, "keyspec.private") {
			ks.D = append([]byte{}, priv[:32]...)
			if t.Bool(1, 4, "keyspec.okp.nox") {
				ks.X = nil
			}
			if t.Bool(1, 10, "keyspec.okp.d64") {
				// a peer that writes Go's 64-byte ed25519.PrivateKey (seed
				// followed by the public key) into d: twice the curve's size
				ks.D = append([]byte{}, priv...)
			}
		}
		if t.Bool(1, 2, "keyspec.alg") {
			a := int64(-8)
			ks.Alg = &a
		}
		ks.Desc = "OKP " + kp.Name
	case 2:
		ks.Kty = refcose.KtySymmetric
		ks.K = t.Bytes(16+t.Choose(17, "keyspec.sym.n"), "keyspec.sym")
		ks.Desc = "Symmetric"
	default:
		ks.Kty = int64(10 + t.Choose(100, "keyspec.custom.kty"))
		ks.Extra = append(ks.Extra, KV{refcbor.Int(-70000), refcbor.Int(genInt(t))}, KV{refcbor.Tstr("note"), refcbor.Tstr(genText(t, 8))})
		ks.Desc = fmt.Sprintf("custom kty %d", ks.Kty)
	}
	ks.Ops, ks.HasOps = genOps(t)
	if t.Bool(1, 3, "keyspec.kid") {
		ks.Kid = t.Bytes(genLen(t, 32), "keyspec.kid.v")
	}
	if t.Bool(1, 5, "keyspec.baseiv") {
		ks.BaseIV = t.Bytes(genLen(t, 16), "keyspec.iv.v")
	}
	if t.Bool(1, 4, "keyspec.extra") {
		ks.Extra = append(ks.Extra, KV{refcbor.Int(int64(-100 - t.Choose(1000, "keyspec.extra.l"))), genValue(t, 1)})
	}
	if t.Bool(1, 12, "keyspec.extra.many") {
		// keys with many parameters (RSA keys of RFC 8230 carry up to eleven,
		// application profiles add their own)
		for i, n := 0, 6+t.Choose(18, "keyspec.extra.many.n"); i < n; i++ {
			ks.Extra = append(ks.Extra, KV{refcbor.Int(int64(-5000 - i)), refcbor.Bstr(t.Bytes(1+t.Choose(8, "keyspec.extra.many.len"), "keyspec.extra.many.v"))})
		}
	}
	if ks.Crv != nil && t.Bool(1, 20, "keyspec.crv.other") {
		// a curve that does not belong to the key type (or is not a signature
		// curve): EC2 with an OKP curve, OKP with an EC2 curve.  Not a valid
		// key; alg is dropped so that only the curve rule can object
		other := []int64{refcose.CrvX25519, refcose.CrvX448, refcose.CrvEd25519, refcose.CrvEd448, 8 /* secp256k1 */, 70, -1}
		if ks.Kty == refcose.KtyOKP {
			other = []int64{refcose.CrvP256, refcose.CrvP384, refcose.CrvP521}
		}
		c := other[t.Choose(len(other), "keyspec.crv.other.v")]
		ks.Crv = &c
		ks.Alg = nil
		ks.Pair = nil
		ks.Desc += " (curve of another key type)"
	}
	if ks.Kty == refcose.KtyOKP && ks.Crv != nil && t.Bool(1, 12, "keyspec.okp.sibling") {
		// a genuine key on one of the OKP curves this library has no code for
		// (Ed448: 57 octets, X448: 56, X25519: 32), well-formed and of its
		// curve's own size, alg absent or naming EdDSA as the Edwards curves
		// do: a consistent key the library cannot use - it may refuse it or
		// hand out nothing for it, never build an Ed25519 object from it
		sib := [][2]int64{{refcose.CrvEd448, 57}, {refcose.CrvX448, 56}, {refcose.CrvX25519, 32}, {refcose.CrvEd448, 32}}[t.Choose(4, "keyspec.okp.sibling.v")]
		c := sib[0]
		ks.Crv = &c
		if ks.X != nil {
			ks.X = t.Bytes(int(sib[1]), "keyspec.okp.sibling.x")
		}
		if ks.D != nil {
			ks.D = t.Bytes(int(sib[1]), "keyspec.okp.sibling.d")
		}
		if c != refcose.CrvEd448 || t.Bool(1, 2, "keyspec.okp.sibling.noalg") {
			ks.Alg = nil
		}
		ks.Pair = nil
		ks.Unsupported = true
		ks.Desc += " (OKP curve without code in this library)"
	}
	if t.Bool(1, 8, "keyspec.extra.text") {
		ks.Extra = append(ks.Extra, KV{refcbor.Tstr("x-" + genText(t, 6)), genValue(t, 1)})
	}
	return ks
}

// freshECKey derives an ECDSA key from the tape.  With probability 1/2 the
// scalar is searched (a bounded number of tape-seeded candidates) until x, y
// or d has a leading zero byte, the class the padding code exists for.
func freshECKey(t *tape.Tape) *KeyPair {
	curves := []elliptic.Curve{elliptic.P256(), elliptic.P384(), elliptic.P521()}
	c := curves[t.Choose(3, "freshkey.curve")]
	seed := uint64(t.U32("freshkey.seed"))
	wantZero := t.Bool(1, 2, "freshkey.leadingzero")
	size := (c.Params().BitSize + 7) / 8
	var best *ecdsa.PrivateKey
	for i := 0; i < 300; i++ {
		seed = tape.SplitMix64(seed + uint64(i))
		buf := make([]byte, size+8)
		s := seed
		for j := range buf {
			if j%8 == 0 {
				s = tape.SplitMix64(s)
			}
			buf[j] = byte(s >> (8 * uint(j%8)))
		}
		k := ecKeyFromScalar(c, scalarFromBytes(c, buf))
		best = k
		if !wantZero {
			break
		}
		if len(k.X.Bytes()) < size || len(k.Y.Bytes()) < size || len(k.D.Bytes()) < size {
			break
		}
	}
	name := fmt.Sprintf("%s-fresh-%x", c.Params().Name, new(big.Int).Rsh(best.D, uint(best.D.BitLen()-16)).Uint64())
	return &KeyPair{Name: name, Alg: algForCurve(c), Priv: best, Pub: &best.PublicKey, Curve: c}
}

// leadingZeroClass names which of x, y, d are shorter than the field size.
func leadingZeroClass(k *ecdsa.PrivateKey) string {
	size := (k.Curve.Params().BitSize + 7) / 8
	s := ""
	if len(k.X.Bytes()) < size {
		s += "x"
	}
	if len(k.Y.Bytes()) < size {
		s += "y"
	}
	if len(k.D.Bytes()) < size {
		s += "d"
	}
	return s
}
