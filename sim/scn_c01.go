package sim

import (
	"fmt"

	cose "github.com/veraison/go-cose"

	"verif/refcbor"
	"verif/refcose"
)

func init() {
	Scenarios["C01"] = scenarioC01
	Infos["C01"] = ScenarioInfo{
		Level: "exploration",
		Rule: "one run = a tape-generated exchange in the fault-free configuration of the world: issuer builds a message spec in the supported data model " +
			"(Sign1 tagged/untagged, Sign with 1..6 signers, hash envelope; 7 algorithms; keys direct or via the COSE_Key directory; payload/external boundary lengths), " +
			"signs with go-cose under a seeded entropy stream (legal short reads only), verifies in memory, encodes (payload detached on a subset), decodes, re-attaches, verifies; " +
			"a notary then countersigns constructed or decoded parents (4 parent kinds x pointer/value x full/abbreviated, nesting <= 3), attaches, relays, and every countersignature is verified against its parent as built and as re-parsed. " +
			"One run in eight is a re-signing history instead: a decoded Sign1 (60 % written by the foreign peer, retained raw buckets with wide heads) is signed again, verified in memory twice with an abbreviated countersignature in between, encoded, decoded, verified. " +
			"A run is non-trivial when at least one signature was produced and verified; distinct = distinct (operation kinds, fault kinds, outcome classes) sequence.",
		Assumptions: []string{"Go crypto primitives and math/big are correct (shared with go-cose)", "header values stay inside the input model of DESIGN 2.2", "RSA keys come from a committed pool of three test keys"},
		Real:        []string{"github.com/veraison/go-cose (all of it)", "github.com/fxamacker/cbor/v2", "Go crypto (ecdsa, rsa, ed25519, sha2)"},
		Stubs:       []string{"entropy source (seeded reader)", "wire between issuer, notary and verifier (byte copy)", "key directory (COSE_Key bytes in memory)"},
		QuickRuns:   60000, ThoroughRuns: 1200000,
	}
}

func scenarioC01(r *Run) {
	t := r.T
	if t.Bool(1, 6, "c01.envelope") {
		c01Envelope(r)
		return
	}
	if t.Bool(1, 5, "c01.siblings") {
		c01Siblings(r)
		return
	}
	if t.Bool(1, 8, "c01.resign") {
		c01Resign(r)
		return
	}
	spec := genSpec(t, SpecOpts{MaxExtra: 40, MaxSigner: 6, BigOK: bigOK(r, "c01.big")})
	if t.Bool(1, 8, "c01.recycled") {
		r.RecycledSigCap = []int{1, 32, 64, 96, 132}[t.Choose(5, "c01.recycled.cap")]
		r.Probe("recycled-message-objects")
	}
	if t.Bool(1, 6, "c01.algtolib") {
		r.LeaveAlgToLibrary = true
	}
	viaDir := t.Bool(1, 3, "c01.viadir")
	ent := NewEntropy(uint64(t.U32("entropy.seed")))
	if t.Bool(1, 5, "entropy.short") {
		ent.Short = 2 + t.Choose(7, "entropy.short.n")
	}
	typedAlg := t.Bool(1, 2, "c01.typedalg")
	r.Op("ISSUE", "%s viaDir=%v", spec, viaDir)
	is, err := r.LibIssue(spec, Spelling{T: t}, typedAlg, ent, nil, viaDir)
	if ent.Fired {
		r.Fired("entropy.short")
	}
	if err != nil {
		r.Outcome("sign-refused")
		r.Probe("sign-refused-on-conforming-spec")
		r.Logf("sign refused: %s", errTag(err))
		return
	}
	r.Outcome("signed")
	{
		algs := ""
		for _, k := range keysOf(spec) {
			algs += fmt.Sprintf("%d,", k.Alg)
		}
		r.Outcome(fmt.Sprintf("%s/algs=%s/ext=%s/payload=%s/viaDir=%v", spec.Kind, algs, extClass(spec.External), sizeClass(len(spec.Payload)), viaDir))
	}
	vs := r.verifiersFor(spec, viaDir)
	rc0 := &Received{Kind: spec.Kind, M1: is.M1, MS: is.MS}
	r.Check()
	if err := r.VerifyLib(rc0, spec.External, vs...); err != nil {
		r.Fail("verify-in-memory-fails/"+spec.Kind.String(), "signed in memory, Verify returned %v\nspec: %s", err, spec)
	}

	detached := t.Bool(1, 4, "c01.detached")
	r.Op("DELIVER", "detached=%v", detached)
	if detached {
		r.Outcome("detached")
	}
	wire, err := r.Encode(is, detached)
	if err != nil {
		r.Fail("encode-fails-after-sign/"+spec.Kind.String(), "signing succeeded but MarshalCBOR returned %v\nspec: %s", err, spec)
	}
	r.Logf("wire %x", wire)
	rc, err := r.Decode(spec.Kind, wire)
	if err != nil {
		r.Fail("decode-fails-after-sign/"+spec.Kind.String(), "own encoding refused by the decoder: %v\nwire: %s\nspec: %s", err, hexShort(wire), spec)
	}
	if detached {
		r.Probe("payload-detached")
		if rc.Payload() != nil {
			r.Fail("detached-payload-not-nil", "payload sent as nil decoded as %x", rc.Payload())
		}
		rc.SetPayload(append([]byte{}, spec.Payload...))
	}
	r.Check()
	if t.Bool(1, 4, "c01.trial") {
		// the receiver tries the keys it trusts one after the other: the
		// wrong ones first (refused), then the right one
		if others := verifiersOfOtherKeys(r, t, spec); others != nil {
			if err := r.VerifyLib(rc, spec.External, others...); err == nil {
				r.Fail("verifies-under-another-key/"+spec.Kind.String(), "the decoded message verifies under other keys of the same algorithms\nwire: %s", hexShort(wire))
			}
			r.Fired("receiver.tries-another-key-first")
		}
	}
	if err := r.VerifyLib(rc, spec.External, vs...); err != nil {
		r.Fail("verify-after-roundtrip-fails/"+spec.Kind.String(), "Verify after encode/decode returned %v (detached=%v)\nwire: %s\nspec: %s", err, detached, hexShort(wire), spec)
	}
	r.Outcome("verified")
	if len(wire) > 0 {
		switch n := len(rc0Prot(is)); {
		case n >= 256:
			r.Probe("protected>=256B")
		case n >= 24:
			r.Probe("protected>=24B")
		}
	}

	// Notary: countersignature chains over constructed or decoded parents.
	depth := t.Choose(4, "c01.csig.depth")
	if depth == 0 {
		return
	}
	decodedParent := t.Bool(1, 2, "c01.csig.decoded")
	var m1 *cose.Sign1Message
	var ms *cose.SignMessage
	if decodedParent {
		m1, ms = rc.M1, rc.MS
		r.Probe("countersign-decoded-parent")
	} else {
		m1, ms = is.M1, is.MS
		r.Probe("countersign-constructed-parent")
	}
	parent := pickParent(t, m1, ms)
	type made struct {
		cs     *Countersigned
		parent Parent
		path   []pathStep
	}
	var chain []made
	var path []pathStep
	for d := 0; d < depth; d++ {
		abbreviated := t.Bool(1, 3, "c01.csig.abbrev")
		k := pickCheapKey(t)
		ext := genExternal(t)
		signer := r.signerFor(k, false)
		verifier := r.verifierFor(k, false)
		cs := &Countersigned{Key: k, External: ext, Label: csigLabel(t, parent.Kind, abbreviated)}
		r.Op("COUNTERSIGN", "parent=%s abbreviated=%v key=%s label=%d", parent.Desc, abbreviated, k.Name, cs.Label)
		if abbreviated {
			var sig []byte
			var err error
			r.Lib(func() { sig, err = cose.Countersign0(ent, signer, parent.Arg, ext) })
			if err != nil {
				r.Outcome("countersign0-refused")
				r.Probe("countersign-refused")
				return
			}
			cs.Abbrev = sig
			r.Check()
			var verr error
			r.Lib(func() { verr = cose.VerifyCountersign0(verifier, parent.Arg, ext, sig) })
			if verr != nil {
				r.Fail("countersign0-verify-in-memory-fails/"+parentKindName(parent.Kind), "Countersign0 succeeded, VerifyCountersign0 returned %v (parent %s)", verr, parent.Desc)
			}
		} else {
			full := cose.NewCountersignature()
			lo := LayerOpts{MaxExtra: 3}
			if len(ext) == 0 || t.Bool(2, 3, "c01.csig.alg") {
				a := k.Alg
				lo.Alg = &a
			}
			l := genLayer(t, lo)
			full.Headers = libHeaders(l, Spelling{T: t}, t.Bool(1, 2, "c01.csig.typed"))
			var err error
			r.Lib(func() { err = full.Sign(ent, signer, parent.Arg, ext) })
			if err != nil {
				r.Outcome("countersign-refused")
				r.Probe("countersign-refused")
				return
			}
			cs.Full = full
			r.Check()
			var verr error
			r.Lib(func() { verr = full.Verify(verifier, parent.Arg, ext) })
			if verr != nil {
				r.Fail("countersign-verify-in-memory-fails/"+parentKindName(parent.Kind), "Countersignature.Sign succeeded, Verify returned %v (parent %s)", verr, parent.Desc)
			}
		}
		chain = append(chain, made{cs, parent, append([]pathStep{}, path...)})
		if cs.Full == nil || d == depth-1 {
			break
		}
		// nest: the next countersignature is made over this one
		path = append(path, pathStep{label: cs.Label})
		parent = parentOfCountersignature(t, cs.Full)
	}
	// attach innermost first so that outer values carry their children
	for i := len(chain) - 1; i >= 0; i-- {
		chain[i].cs.attach(chain[i].parent.Headers, t.Bool(1, 3, "c01.csig.aslist"), decodedParent && i == 0)
	}
	if len(chain) >= 2 {
		r.Probe("nested-countersig-depth>=2")
	}
	// relay: encode the (now countersigned) message and parse it back
	var wire2 []byte
	if decodedParent {
		wire2, err = r.Reencode(rc)
	} else {
		wire2, err = r.Encode(is, false)
	}
	r.Op("RELAY", "countersigned message re-encoded")
	if err != nil {
		r.Fail("encode-fails-after-countersign", "MarshalCBOR of a countersigned message returned %v", err)
	}
	rc2, err := r.Decode(spec.Kind, wire2)
	if err != nil {
		r.Fail("decode-fails-after-countersign", "own encoding of a countersigned message refused: %v\nwire: %s", err, hexShort(wire2))
	}
	r.Check()
	if err := r.VerifyLib(rc2, spec.External, vs...); err != nil {
		r.Fail("verify-after-countersign-fails", "message no longer verifies after a countersignature was attached: %v", err)
	}
	// re-find every countersignature and verify it against its re-parsed parent
	top := chain[0]
	var topHeaders *cose.Headers
	var topArg any
	switch top.parent.Kind {
	case refcose.PSign1:
		topHeaders, topArg = &rc2.M1.Headers, rc2.M1
	case refcose.PSign:
		topHeaders, topArg = &rc2.MS.Headers, rc2.MS
	case refcose.PSignature:
		idx := -1
		srcMS := ms
		for i, s := range srcMS.Signatures {
			if &s.Headers == top.parent.Headers {
				idx = i
			}
		}
		if idx < 0 || idx >= len(rc2.MS.Signatures) {
			panic("harness: lost track of the countersigned Signature")
		}
		topHeaders, topArg = &rc2.MS.Signatures[idx].Headers, rc2.MS.Signatures[idx]
	}
	curHeaders, curArg := topHeaders, topArg
	for i, mk := range chain {
		verifier := r.verifierFor(mk.cs.Key, false)
		r.Check()
		if mk.cs.Full == nil {
			sig, _ := curHeaders.Unprotected[mk.cs.Label].([]byte)
			var verr error
			r.Lib(func() { verr = cose.VerifyCountersign0(verifier, curArg, mk.cs.External, sig) })
			if verr != nil {
				r.Fail("countersign0-verify-after-roundtrip-fails/"+parentKindName(mk.parent.Kind), "abbreviated countersignature does not verify against its re-parsed parent: %v (level %d)\nwire: %s", verr, i, hexShort(wire2))
			}
			break
		}
		got := findCountersignature(curHeaders, mk.cs.Label, countOf(curHeaders, mk.cs.Label)-1)
		if got == nil {
			r.Fail("countersignature-lost-in-roundtrip", "countersignature under label %d not found after decode (level %d)\nwire: %s", mk.cs.Label, i, hexShort(wire2))
		}
		var verr error
		r.Lib(func() { verr = got.Verify(verifier, curArg, mk.cs.External) })
		if verr != nil {
			r.Fail("countersign-verify-after-roundtrip-fails/"+parentKindName(mk.parent.Kind), "countersignature does not verify against its re-parsed parent: %v (level %d, decodedParent=%v)\nwire: %s", verr, i, decodedParent, hexShort(wire2))
		}
		curHeaders, curArg = &got.Headers, got
	}
	r.Outcome("countersigs-verified")
}

type pathStep struct{ label int64 }

func parentKindName(k refcose.ParentKind) string {
	return [...]string{"Sign1", "Sign", "Signature", "Countersignature"}[k]
}

func rc0Prot(is *Issued) []byte {
	var b []byte
	if is.M1 != nil {
		b, _ = is.M1.Headers.MarshalProtected()
	} else if is.MS != nil {
		b, _ = is.MS.Headers.MarshalProtected()
	}
	return b
}

// c01Envelope: hash envelopes produced by SignHashEnvelope verify.
func c01Envelope(r *Run) {
	t := r.T
	k := pickKey(t)
	base := genLayer(t, LayerOpts{MaxExtra: 6})
	base = envelopeSafe(base)
	hashAlgs := []int64{refcose.AlgSHA256, refcose.AlgSHA384, refcose.AlgSHA512}
	ha := hashAlgs[t.Choose(3, "env.hash")]
	p := cose.HashEnvelopePayload{HashAlgorithm: cose.Algorithm(ha), HashValue: t.Bytes(refcose.HashLen(ha), "env.digest")}
	if t.Bool(1, 2, "env.ct") {
		if t.Bool(1, 2, "env.ct.uint") {
			p.PreimageContentType = uint(t.Choose(1000, "env.ct.n"))
		} else {
			p.PreimageContentType = "application/spdx+json"
		}
	}
	if t.Bool(1, 2, "env.loc") {
		p.Location = "https://example.test/" + genText(t, 20)
	}
	ent := NewEntropy(uint64(t.U32("entropy.seed")))
	signer := r.signerFor(k, false)
	verifier := r.verifierFor(k, false)
	reused := t.Bool(1, 3, "env.reused-headers")
	if reused {
		// headers taken over from an earlier, decoded message: they name the
		// algorithm and carry the raw protected bytes they were decoded from
		a := k.Alg
		base.Prot = append(removeLabel(base.Prot, refcose.LAlg), KV{refcbor.Uint(refcose.LAlg), refcbor.Int(a)})
	}
	h := libHeaders(base, Spelling{T: t}, true)
	if reused {
		var raw []byte
		var rerr error
		r.Lib(func() { raw, rerr = h.Protected.MarshalCBOR() })
		if rerr == nil {
			h.RawProtected = raw
			r.Probe("envelope-from-reused-decoded-headers")
		}
	}
	r.Op("ENVELOPE", "key=%s hash=%d prot=%s unprot=%s reused-headers=%v", k.Name, ha, diagBucket(base.Prot), diagBucket(base.Unprot), reused)
	r.Outcome(fmt.Sprintf("envelope/alg=%d/hash=%d/ct=%v/loc=%v", k.Alg, ha, p.PreimageContentType != nil, p.Location != ""))
	var env []byte
	var err error
	r.Lib(func() { env, err = cose.SignHashEnvelope(ent, signer, h, p) })
	if err != nil {
		r.Outcome("envelope-refused")
		r.Probe("sign-refused-on-conforming-spec")
		r.Logf("envelope refused: %s", errTag(err))
		return
	}
	r.Check()
	var verr error
	r.Lib(func() { _, verr = cose.VerifyHashEnvelope(verifier, env) })
	if verr != nil {
		r.Fail("envelope-verify-fails", "SignHashEnvelope succeeded, VerifyHashEnvelope returned %v\nenvelope: %s", verr, hexShort(env))
	}
	r.Outcome("envelope-verified")
}

// envelopeSafe removes from a generated layer what the envelope rules
// forbid (content type anywhere, 258/259/260 anywhere: the producer sets
// them), so that the spec is a conforming base.
func envelopeSafe(l Layer) Layer {
	f := func(b Bucket) Bucket {
		var out Bucket
		for _, e := range b {
			if e.K.IsInt() {
				if v, ok := e.K.Int64(); ok && (v == 3 || v == 258 || v == 259 || v == 260 || v == 2) {
					continue
				}
			}
			out = append(out, e)
		}
		return out
	}
	return Layer{Prot: f(l.Prot), Unprot: f(l.Unprot)}
}

var _ = fmt.Sprintf

// c01Siblings: several countersignatures side by side (lists of full ones
// made with different keys, abbreviated ones, nested ones) on the message and
// on its COSE_Signatures; every one must verify against its parent in memory
// and after the round trip.
func c01Siblings(r *Run) {
	t := r.T
	ent := NewEntropy(uint64(t.U32("entropy.seed")))
	spec := genSpec(t, SpecOpts{MaxExtra: 4, MaxSigner: 3, Cheap: true})
	w, is := r.LibWire(t, spec, ent, false, 2, true)
	if w == nil {
		r.Outcome("sign-refused")
		return
	}
	r.Op("ISSUE", "%s with sibling countersignatures", spec)
	n := 0
	check := func(stage string, rc *Received) bool {
		ok := true
		walkWireCsigs(w, rc, func(nd *CsigNode, cs *cose.Countersignature, abbrev []byte, parent any) {
			if !ok {
				return
			}
			n++
			r.Check()
			verifier := r.verifierFor(nd.Key, false)
			var err error
			switch {
			case nd.Abbrev:
				r.Lib(func() { err = cose.VerifyCountersign0(verifier, parent, nd.External, abbrev) })
			case cs == nil:
				r.Fail("countersignature-lost/"+stage, "countersignature under label %d index %d not found %s", nd.Label, nd.Index, stage)
				ok = false
				return
			default:
				r.Lib(func() { err = cs.Verify(verifier, parent, nd.External) })
			}
			if err != nil {
				ok = false
				r.Fail("sibling-countersignature-does-not-verify/"+stage, "countersignature (label %d, index %d, abbreviated=%v, key %s) does not verify against its parent %s: %v\nwire: %s",
					nd.Label, nd.Index, nd.Abbrev, nd.Key.Name, stage, err, hexShort(w.B))
			}
		})
		return ok
	}
	if !check("in-memory", &Received{Kind: spec.Kind, M1: is.M1, MS: is.MS}) {
		return
	}
	rc, err := r.Decode(spec.Kind, w.B)
	if err != nil {
		r.Check()
		r.Fail("decode-fails-after-countersign", "own encoding of a countersigned message refused: %v\nwire: %s", err, hexShort(w.B))
		return
	}
	if !check("after-roundtrip", rc) {
		return
	}
	if n > 1 {
		r.Probe("sibling-countersignatures-verified")
	}
	r.Outcome(fmt.Sprintf("siblings/%s/n=%s", spec.Kind, sizeClass(n)))
}

// c01Resign: the issuer takes a message it received and decoded (from the
// foreign peer three times in five: wider-than-needed heads, other key
// orders, h'a0' - all kept in the retained raw buckets), and signs it AGAIN
// with its own key (a notary re-issuing a document, a gateway translating
// between trust domains).  Signing succeeded, so the message verifies: in
// memory - asked twice -, after a wire round trip, and so does an abbreviated
// countersignature made over it in between.
func c01Resign(r *Run) {
	t := r.T
	ent := NewEntropy(uint64(t.U32("entropy.seed")))
	so := SpecOpts{MaxExtra: 6, MaxSigner: 1, Cheap: true}
	src := r.GenWire(t, TrafficOpts{Spec: so, ForeignPct: 60}, ent)
	if src == nil || src.Spec.Kind == refcose.KSignTagged {
		r.Outcome("resign/no-sign1-traffic")
		return
	}
	kind := src.Spec.Kind
	rc, err := r.Decode(kind, src.B)
	if err != nil {
		r.Outcome("resign/source-not-accepted") // C07's business
		return
	}
	key := src.Spec.Key
	external := genExternal(t)
	if nonCanonicalDeep(src.Dec, src.B) != "" {
		r.Probe("resign-over-noncanonical-raw-buckets")
	}
	r.Op("RESIGN", "%s decoded, signed again with key=%s external=%s", src.Desc, key.Name, extClass(external))
	r.Outcome("resign/" + kind.String())
	signer := r.signerFor(key, false)
	verifier := r.verifierFor(key, false)
	m := rc.M1
	m.Signature = nil
	if !src.Detached && t.Bool(1, 2, "c01.resign.payload") {
		m.Payload = t.Bytes(genLen(t, 64), "c01.resign.newpayload")
	} else if m.Payload == nil {
		m.Payload = src.Spec.Payload
	}
	var serr error
	r.Lib(func() {
		if kind == refcose.KSign1Untagged {
			serr = (*cose.UntaggedSign1Message)(m).Sign(ent, external, signer)
		} else {
			serr = m.Sign(ent, external, signer)
		}
	})
	if serr != nil {
		r.Outcome("resign/sign-refused")
		r.Logf("re-signing refused: %s", errTag(serr))
		return
	}
	verify := func(mm *cose.Sign1Message) error {
		var e error
		r.Lib(func() {
			if kind == refcose.KSign1Untagged {
				e = (*cose.UntaggedSign1Message)(mm).Verify(external, verifier)
			} else {
				e = mm.Verify(external, verifier)
			}
		})
		return e
	}
	r.Check()
	if e := verify(m); e != nil {
		r.Fail("verify-in-memory-fails/resigned-"+kind.String(), "a decoded message signed again does not verify in memory: %v\nsource: %s", e, hexShort(src.B))
		return
	}
	if t.Bool(1, 2, "c01.resign.csig") {
		ck := pickCheapKey(t)
		var sig []byte
		var cerr error
		r.Lib(func() { sig, cerr = cose.Countersign0(ent, r.signerFor(ck, false), m, nil) })
		if cerr == nil {
			var verr error
			r.Lib(func() { verr = cose.VerifyCountersign0(r.verifierFor(ck, false), m, nil, sig) })
			r.Check()
			if verr != nil {
				r.Fail("countersignature-does-not-verify/resigned-parent", "an abbreviated countersignature just made over a re-signed decoded message does not verify: %v\nsource: %s", verr, hexShort(src.B))
				return
			}
		}
	}
	r.Check()
	if e := verify(m); e != nil {
		r.Fail("verify-in-memory-fails/resigned-"+kind.String()+"/second-time", "a decoded message signed again verified once and does not verify when asked again: %v\nsource: %s", e, hexShort(src.B))
		return
	}
	var wire []byte
	r.Lib(func() {
		if kind == refcose.KSign1Untagged {
			wire, err = (*cose.UntaggedSign1Message)(m).MarshalCBOR()
		} else {
			wire, err = m.MarshalCBOR()
		}
	})
	r.Check()
	if err != nil {
		r.Fail("signed-message-cannot-be-encoded/resigned-"+kind.String(), "a decoded message signed again cannot be encoded: %v\nsource: %s", err, hexShort(src.B))
		return
	}
	rc2, derr := r.Decode(kind, wire)
	if derr != nil {
		r.Fail("decode-fails-after-resign/"+kind.String(), "a decoded message signed again is refused by the decoder after encoding: %v\nwire: %s", derr, hexShort(wire))
		return
	}
	if e := verify(rc2.M1); e != nil {
		r.Fail("verify-after-roundtrip-fails/resigned-"+kind.String(), "a decoded message signed again does not verify after a wire round trip: %v\nsource: %s\nwire:   %s", e, hexShort(src.B), hexShort(wire))
		return
	}
	r.Probe("resigned-message-verified-twice-and-after-roundtrip")
}
