//go:build verifinstr

package sim

import (
	"runtime"
	"sync"
	"time"

	"github.com/veraison/go-cose/verifsim"
)

// HaveInstr reports whether the worker was built against the instrumented
// scratch copy of go-cose (yield points before every statement, map ranges
// routed through verifsim.Pairs).
const HaveInstr = true

// SiteName names a yield site ("func file:line").
func SiteName(site int) string {
	if site > 0 && site < len(verifsim.SiteTable) {
		return verifsim.SiteTable[site]
	}
	return "?"
}

// LibSteps is the number of go-cose statements executed so far in this
// process (0 in a plain build).
//
//go:norace
func LibSteps() uint64 { return verifsim.Steps }

// SitesHit lists the yield sites passed so far in this process.
//
//go:norace
func SitesHit() []int {
	var out []int
	for i := 1; i < len(verifsim.SiteTable) && i < len(verifsim.Hit); i++ {
		if verifsim.Hit[i] {
			out = append(out, i)
		}
	}
	return out
}

// NumSites is the number of yield sites in the instrumented copy.
func NumSites() int { return len(verifsim.SiteTable) - 1 }

// SetPermHook installs the function that decides the order of every
// range-over-map loop inside go-cose (nil: canonical sorted order).
func SetPermHook(f func(n int) []int) { verifsim.PermHook = f }

// SetNowHook installs the wall clock every time.Now/Since/Until inside
// go-cose reads (nil: the machine's).
func SetNowHook(f func() time.Time) { verifsim.NowHook = f }

// ClockReads is the number of clock reads by go-cose so far.
func ClockReads() uint64 { return verifsim.ClockReads }

// SetEnvHook installs the process environment every os.Getenv/LookupEnv
// inside go-cose reads (nil: the machine's).
func SetEnvHook(f func(name string) (string, bool)) { verifsim.EnvHook = f }

// EnvReads is the number of environment reads by go-cose so far.
func EnvReads() uint64 { return verifsim.EnvReads }

// ---------------------------------------------------------------------------
// The scheduler.  Caller tasks are real goroutines, but exactly one is
// runnable at any instant and the successor at every yield point is a pure
// function of decisions drawn from the tape BEFORE the tasks start.
//
// The hand-off is a plain word spun on inside //go:norace functions, with all
// scheduler state in preallocated arrays: the race detector therefore sees no
// happens-before edge between tasks (only spawn and the final join), so any
// write in one task that conflicts with an access in another is reported
// whatever interleaving ran, while the interleaving itself replays exactly.

const (
	maxTasks     = 8
	maxPreempts  = 32
	maxSwitchLog = 64
)

// SchedConfig is the schedule of one concurrent block, drawn from the tape.
type SchedConfig struct {
	Mode       int     // 0: run to completion except at explicit preemption points; 1: seeded random with stickiness
	First      int     // task that runs first
	PreAt      []int64 // mode 0: steps at which to preempt (ascending)
	PreTo      []int   // mode 0: whom to switch to (rotated to the next alive task)
	Seed       uint64  // mode 1
	Stick      uint32  // mode 1: probability (per 1000) of staying on the same task
	CheckEvery int64   // run the monitor every k steps (0: only at switches and task ends; -1: never)
}

// SchedResult is what one block looked like.
type SchedResult struct {
	Steps       int64
	Switches    int64
	Hash        uint64 // hash of the (task, site) sequence
	SwitchSites []int  // first sites at which control passed to another task
	Violation   string // first monitor violation ("" if none)
	// Aborted: the running task stopped making progress outside a yield point
	// and nobody else could run (every other task was finished or blocked as
	// well): the schedule was abandoned and the remaining tasks ran freely.
	// Such a run is not judged.
	Aborted bool
	// BlockedHandoffs counts the times the running task blocked inside a real
	// synchronisation primitive (a lock, a channel, a condition held or fed by
	// a parked task) and control was handed to the next runnable task.
	BlockedHandoffs int
}

var (
	sCurrent      int32 = -1
	sAlive        [maxTasks]bool
	sN            int32
	sStep         int64
	sMode         int
	sPreAt        [maxPreempts]int64
	sPreTo        [maxPreempts]int32
	sNPre         int32
	sPreIdx       int32
	sRng          uint64
	sStick        uint32
	sHash         uint64
	sSwitches     int64
	sSwitchSites  [maxSwitchLog]int32
	sNSwitchSites int32
	sCheckEvery   int64
	sMonitor      func() string
	sViolation    string
	sViolated     bool
	sAbort        bool
	// tasks that blocked outside a yield point (see sWait) and the goroutine
	// ids of all tasks, so that a blocked task that wakes up can be told apart
	// from the running one when it reaches its next yield point
	sBlocked  [maxTasks]bool
	sNBlocked int32
	sGid      [maxTasks]uint64
	sHandoffs int32
)

// blockLimit is how long the running task may pass no yield point before the
// waiting tasks conclude that it is blocked in a synchronisation primitive and
// the next runnable one takes over.  Who takes over is a function of the
// scheduler state alone, and a task blocks at the same place whenever the
// same schedule is replayed, so the run stays repeatable; only a task that
// is merely slow (more than a second inside one statement) could be taken for
// blocked, which the determinism self-test would show.
const blockLimit = 1 * time.Second

// goid is the id of the calling goroutine (parsed from its stack header; only
// used while some task is blocked).
//
//go:norace
func goid() uint64 {
	var buf [64]byte
	n := runtime.Stack(buf[:], false)
	// "goroutine 123 ["
	var id uint64
	for i := len("goroutine "); i < n && buf[i] >= '0' && buf[i] <= '9'; i++ {
		id = id*10 + uint64(buf[i]-'0')
	}
	return id
}

//go:norace
func sTaskOfCaller() int32 {
	g := goid()
	for i := int32(0); i < sN; i++ {
		if sGid[i] == g {
			return i
		}
	}
	return -1
}

// stallLimit is how long the waiting tasks tolerate a running task that
// passes no yield point before they abandon the schedule.  A single statement
// of go-cose takes microseconds to a few milliseconds (a signature).
const stallLimit = 3 * time.Second

// sWait spins until it is this task's turn.  If the running task makes no
// progress for stallLimit the schedule is abandoned (see SchedResult.Aborted).
//
//go:norace
func sWait(me int32) {
	spins := 0
	var lastStep int64 = -1
	var since time.Time
	for sCurrent != me {
		if sAbort {
			return
		}
		runtime.Gosched()
		spins++
		if spins%2048 == 0 {
			if sStep != lastStep {
				lastStep = sStep
				since = time.Now()
			} else if d := time.Since(since); d > blockLimit {
				// the running task is blocked: the first runnable task after
				// it (in task order) takes over; the others keep waiting
				cur := sCurrent
				if cur >= 0 && !sBlocked[cur] && sNextRunnableFrom(cur+1, cur) == me {
					sBlocked[cur] = true
					sNBlocked++
					sHandoffs++
					sSwitches++
					sCurrent = me
					return
				}
				if d > stallLimit {
					sAbort = true
					return
				}
			}
		}
	}
}

//go:norace
func sRand() uint64 {
	sRng += 0x9e3779b97f4a7c15
	z := sRng
	z = (z ^ (z >> 30)) * 0xbf58476d1ce4e5b9
	z = (z ^ (z >> 27)) * 0x94d049bb133111eb
	return z ^ (z >> 31)
}

//go:norace
func sNextAliveFrom(start int32, not int32) int32 {
	if start < 0 {
		start = 0
	}
	for i := int32(0); i < sN; i++ {
		c := (start + i) % sN
		if sAlive[c] && !sBlocked[c] && c != not {
			return c
		}
	}
	return not
}

// sNextRunnableFrom: like sNextAliveFrom, but -1 when nobody else can run.
//
//go:norace
func sNextRunnableFrom(start int32, not int32) int32 {
	if c := sNextAliveFrom(start, not); c != not {
		return c
	}
	return -1
}

//go:norace
func sDecide(me int32) int32 {
	if sMode == 0 {
		if sPreIdx < sNPre && sStep >= sPreAt[sPreIdx] {
			to := sPreTo[sPreIdx]
			sPreIdx++
			return sNextAliveFrom(to%sN, me)
		}
		return me
	}
	if sMode == 2 {
		// lock step: every task advances one statement at a time, in task
		// order - tasks that run the same operation sit in the same window of
		// it at the same time
		return sNextAliveFrom(me+1, me)
	}
	if uint32(sRand()%1000) < sStick {
		return me
	}
	return sNextAliveFrom(int32(sRand()%uint64(sN)), me)
}

//go:norace
func sCheck() {
	if sMonitor == nil || sViolated {
		return
	}
	if v := sMonitor(); v != "" {
		sViolation = v
		sViolated = true
	}
}

//go:norace
func sYield(site int) {
	if sAbort {
		return
	}
	if sNBlocked > 0 {
		// is this a task that was taken for blocked and has woken up?
		if who := sTaskOfCaller(); who >= 0 && who != sCurrent {
			sBlocked[who] = false
			sNBlocked--
			if sCurrent < 0 {
				// nobody is running (the others finished meanwhile): go on
				sCurrent = who
			} else {
				sWait(who)
				if sAbort {
					return
				}
			}
		}
	}
	me := sCurrent
	if me < 0 || sAbort {
		return
	}
	sStep++
	sHash = (sHash ^ (uint64(me)<<32 | uint64(uint32(site)))) * 1099511628211
	if sCheckEvery > 0 && sStep%sCheckEvery == 0 {
		sCheck()
	}
	next := sDecide(me)
	if next == me {
		return
	}
	if sCheckEvery >= 0 {
		sCheck() // what the next task is about to see
	}
	sSwitches++
	if sNSwitchSites < maxSwitchLog {
		sSwitchSites[sNSwitchSites] = int32(site)
		sNSwitchSites++
	}
	sCurrent = next
	sWait(me)
}

//go:norace
func sStart(me int32) {
	sGid[me] = goid()
	sWait(me)
}

//go:norace
func sFinish(me int32) {
	sAlive[me] = false
	if sAbort {
		return
	}
	if sBlocked[me] {
		// a task taken for blocked that ran to its end without passing
		// another yield point: it was not the running task any more
		sBlocked[me] = false
		sNBlocked--
		if sCurrent >= 0 && sCurrent != me {
			return
		}
	}
	if sCheckEvery >= 0 {
		sCheck()
	}
	next := int32(-2)
	if sMode == 0 || sMode == 2 {
		next = sNextAliveFrom(me+1, -1)
	} else {
		next = sNextAliveFrom(int32(sRand()%uint64(sN)), -1)
	}
	if next < 0 || !sAlive[next] {
		next = -2
	}
	sCurrent = next
}

// RunConcurrent runs the tasks under the given schedule.  monitor (may be
// nil) is evaluated at scheduler steps; it must only read.
func RunConcurrent(cfg SchedConfig, tasks []func(), monitor func() string) SchedResult {
	n := len(tasks)
	if n > maxTasks {
		panic("RunConcurrent: too many tasks")
	}
	sN = int32(n)
	for i := range sAlive {
		sAlive[i] = i < n
	}
	sStep, sHash, sSwitches, sNSwitchSites, sPreIdx = 0, 14695981039346656037, 0, 0, 0
	sMode = cfg.Mode
	sNPre = 0
	for i := 0; i < len(cfg.PreAt) && i < maxPreempts; i++ {
		sPreAt[i], sPreTo[i] = cfg.PreAt[i], int32(cfg.PreTo[i])
		sNPre++
	}
	sRng, sStick = cfg.Seed, cfg.Stick
	sCheckEvery = cfg.CheckEvery
	sMonitor = monitor
	sViolation, sViolated, sAbort = "", false, false
	sNBlocked, sHandoffs = 0, 0
	for i := range sBlocked {
		sBlocked[i] = false
		sGid[i] = 0
	}
	sCurrent = -1
	verifsim.YieldHook = sYield
	var wg sync.WaitGroup
	for i := 0; i < n; i++ {
		wg.Add(1)
		go func(me int32, f func()) {
			defer wg.Done()
			sStart(me)
			defer sFinish(me)
			f()
		}(int32(i), tasks[i])
	}
	sRelease(int32(cfg.First % n))
	wg.Wait()
	verifsim.YieldHook = nil
	sMonitor = nil
	res := SchedResult{Steps: sStep, Switches: sSwitches, Hash: sHash, Violation: sViolation, Aborted: sAbort, BlockedHandoffs: int(sHandoffs)}
	for i := int32(0); i < sNSwitchSites; i++ {
		res.SwitchSites = append(res.SwitchSites, int(sSwitchSites[i]))
	}
	sCurrent = -1
	return res
}

//go:norace
func sRelease(first int32) { sCurrent = first }
