package sim

import (
	"fmt"
	"github.com/fxamacker/cbor/v2"
	"math"
	"sort"

	cose "github.com/veraison/go-cose"

	"verif/refcbor"
	"verif/refcose"
	"verif/tape"
)

// KV is one abstract header entry; Bucket is one header bucket.  Buckets are
// generated as reference trees (the "supported data model"), then turned into
// Go values for go-cose and into wire bytes for the foreign peer.
type KV struct{ K, V *refcbor.Item }
type Bucket []KV

// Layer is one header layer.
type Layer struct {
	Prot   Bucket
	Unprot Bucket
}

var boundaryInts = []int64{0, 1, 23, 24, -24, -25, 255, 256, -256, -257, 65535, 65536, -65536, -65537,
	1 << 31, -(1 << 31) - 1, 1<<32 - 1, 1 << 32, math.MaxInt64, math.MinInt64}

var boundaryLens = []int{0, 1, 23, 24, 255, 256}

func genInt(t *tape.Tape) int64 {
	switch t.Pick([]int{3, 3, 1}, "int.kind") {
	case 0:
		return boundaryInts[t.Choose(len(boundaryInts), "int.boundary")]
	case 1:
		return int64(t.Choose(2000, "int.small")) - 1000
	default:
		return int64(uint64(t.U32("int.hi"))<<32 | uint64(t.U32("int.lo")))
	}
}

func genLen(t *tape.Tape, max int) int {
	if t.Bool(1, 2, "len.boundary") {
		l := boundaryLens[t.Choose(len(boundaryLens), "len.b")]
		if l <= max {
			return l
		}
	}
	return t.Choose(min(max, 40)+1, "len.small")
}

var textAlphabet = []string{"a", "b", "z", "/", " ", "0", "-", "é", "ß", "語", "😀", " ", "A", "~", "\x01"}

func genText(t *tape.Tape, maxRunes int) string {
	n := 0
	if t.Bool(1, 4, "text.boundary") {
		n = []int{0, 1, 23, 24, 255, 256, 300}[t.Choose(7, "text.b")]
	} else {
		n = t.Choose(12, "text.n")
	}
	if n > maxRunes {
		n = maxRunes
	}
	seed := uint64(t.U32("text.seed"))
	s := make([]byte, 0, n)
	for i := 0; i < n; i++ {
		seed = tape.SplitMix64(seed)
		if seed%8 == 0 {
			s = append(s, textAlphabet[(seed>>8)%uint64(len(textAlphabet))]...)
		} else {
			s = append(s, byte('a'+(seed>>8)%26))
		}
	}
	return string(s)
}

// genValue generates a header value of the supported data model: integers
// within int64, byte/text strings, bools, nil, floats, arrays and maps nested
// up to depth levels, map keys int/tstr and unique; no tags, no big numbers.
func genValue(t *tape.Tape, depth int) *refcbor.Item {
	w := []int{4, 3, 3, 1, 1, 1, 2, 2}
	if depth <= 0 {
		w[6], w[7] = 0, 0
	}
	switch t.Pick(w, "val.kind") {
	case 0:
		return refcbor.Int(genInt(t))
	case 1:
		return refcbor.Bstr(t.Bytes(genLen(t, 300), "val.bstr"))
	case 2:
		return refcbor.Tstr(genText(t, 300))
	case 3:
		return refcbor.Bool(t.Bool(1, 2, "val.bool"))
	case 4:
		return refcbor.Nil()
	case 5:
		fs := []float64{0, 1.5, -2.25, 1e300, math.Inf(1), 3.0, 65504, 1.0e-5, math.NaN(), math.Inf(-1), math.Copysign(0, -1)}
		return refcbor.Float64(fs[t.Choose(len(fs), "val.float")])
	case 6:
		n := t.Choose(4, "val.arr.n")
		els := make([]*refcbor.Item, n)
		for i := range els {
			els[i] = genValue(t, depth-1)
		}
		return refcbor.Array(els...)
	default:
		n := t.Choose(4, "val.map.n")
		var kv []*refcbor.Item
		seen := map[string]bool{}
		for i := 0; i < n; i++ {
			var k *refcbor.Item
			if t.Bool(2, 3, "val.map.kint") {
				k = refcbor.Int(genInt(t))
			} else {
				k = refcbor.Tstr(genText(t, 20))
			}
			id := refcbor.KeyIdentity(k)
			if seen[id] {
				continue
			}
			seen[id] = true
			kv = append(kv, k, genValue(t, depth-1))
		}
		return refcbor.Map(kv...)
	}
}

func genContentType(t *tape.Tape) *refcbor.Item {
	if t.Bool(1, 2, "ct.uint") {
		return refcbor.Uint(uint64(t.Choose(70000, "ct.n")))
	}
	cts := []string{"text/plain", "application/cbor", "a/b", "application/vnd.x+cose; charset=utf-8", "x/é"}
	return refcbor.Tstr(cts[t.Choose(len(cts), "ct.s")])
}

// LayerOpts steers layer generation.
type LayerOpts struct {
	Alg      *int64        // alg value to place in the protected bucket (nil: none)
	AlgText  string        // alg as text instead (when Alg == nil and non-empty)
	AlgItem  *refcbor.Item // any item as the alg value (when Alg == nil and AlgText == "")
	MaxExtra int           // upper bound on additional labels per bucket
	NoCrit   bool
	// Tagged adds tagged values (date/time, URI, UUID, unassigned tags) under
	// private labels of the PROTECTED bucket: the documented limits exclude
	// tags from the envelope and from unprotected values only.  Foreign peer
	// only (there is no Go spelling for them here).
	Tagged bool
	Steer  bool // steer the encoded protected size across 23/24, 255/256 (and 65535/65536 in thorough runs)
	Big    bool // allow the 64 KiB boundary
}

// genLayer generates a conforming header layer (RFC 9052 section 3.1 rules
// hold by construction: it is not filtered by the reference predicate).
func genLayer(t *tape.Tape, o LayerOpts) Layer {
	var l Layer
	used := map[string]bool{}
	add := func(b *Bucket, k, v *refcbor.Item) bool {
		id := refcbor.KeyIdentity(k)
		if used[id] { // labels unique across the layer keeps moves between buckets simple
			return false
		}
		used[id] = true
		*b = append(*b, KV{k, v})
		return true
	}
	if o.Alg != nil {
		add(&l.Prot, refcbor.Uint(1), refcbor.Int(*o.Alg))
	} else if o.AlgText != "" {
		add(&l.Prot, refcbor.Uint(1), refcbor.Tstr(o.AlgText))
	} else if o.AlgItem != nil {
		add(&l.Prot, refcbor.Uint(1), o.AlgItem)
	}
	ivUsed := false
	genEntry := func(b *Bucket, protected bool) {
		switch t.Pick([]int{2, 2, 2, 1, 1, 2, 2, 3, 3}, "hdr.kind") {
		case 0:
			add(b, refcbor.Uint(refcose.LContentTyp), genContentType(t))
		case 1:
			add(b, refcbor.Uint(refcose.LKid), refcbor.Bstr(t.Bytes(genLen(t, 64), "kid")))
		case 2:
			if !ivUsed {
				lbl := uint64(refcose.LIV)
				if t.Bool(1, 2, "hdr.piv") {
					lbl = refcose.LPartialIV
				}
				if add(b, refcbor.Uint(lbl), refcbor.Bstr(t.Bytes(genLen(t, 16), "iv"))) {
					ivUsed = true
				}
			}
		case 3:
			add(b, refcbor.Uint(refcose.LTyp), genContentType(t))
		case 4:
			// CWT claims (protected only by convention; generic validation does not care)
			claims := []*refcbor.Item{
				refcbor.Uint(1), refcbor.Tstr(genText(t, 12)),
				refcbor.Uint(2), refcbor.Tstr(genText(t, 12))}
			if t.Bool(1, 2, "cwt.iat?") {
				claims = append(claims, refcbor.Uint(6), refcbor.Int(int64(t.Choose(1<<30, "cwt.iat"))))
			}
			// a validity period (exp 4, nbf 5): long over, not yet begun, open,
			// whole or fractional seconds.  Claims are the application's to
			// judge - COSE signs them, it does not read them
			instants := []*refcbor.Item{refcbor.Int(0), refcbor.Int(1), refcbor.Int(int64(t.Choose(1<<31, "cwt.instant"))), refcbor.Int(2_000_000_000),
				refcbor.Int(4_200_000_000), refcbor.Int(1 << 40), refcbor.Int(-1), refcbor.Float64(1.5e9), refcbor.Float64(4.5e9)}
			if t.Bool(1, 2, "cwt.exp") {
				claims = append(claims, refcbor.Uint(4), instants[t.Choose(len(instants), "cwt.exp.v")])
			}
			if t.Bool(1, 2, "cwt.nbf") {
				claims = append(claims, refcbor.Uint(5), instants[t.Choose(len(instants), "cwt.nbf.v")])
			}
			add(b, refcbor.Uint(refcose.LCWTClaims), refcbor.Map(claims...))
		case 5:
			x := []uint64{32, 33, 34, 35, 258, 259, 260, 8, 10, 13, 14}
			add(b, refcbor.Uint(x[t.Choose(len(x), "hdr.reg")]), genValue(t, 2))
		case 6:
			add(b, refcbor.Tstr(genText(t, 300)), genValue(t, 3))
		default:
			k := genInt(t)
			v := genValue(t, 3)
			switch k {
			case 1, 2, 3, 4, 5, 6, 7, 9, 11, 12, 16:
				// registered labels with value rules are only placed deliberately
				return
			}
			add(b, refcbor.Int(k), v)
		}
	}
	nP, nU := 0, 0
	if o.MaxExtra > 0 {
		nP = t.Choose(min(o.MaxExtra, 5)+1, "hdr.nprot")
		nU = t.Choose(min(o.MaxExtra, 5)+1, "hdr.nunprot")
		if o.MaxExtra > 5 && t.Bool(1, 12, "hdr.many") {
			nP = t.Choose(o.MaxExtra+1, "hdr.nprot.many")
			nU = t.Choose(o.MaxExtra+1, "hdr.nunprot.many")
		}
	}
	for i := 0; i < nP; i++ {
		genEntry(&l.Prot, true)
	}
	for i := 0; i < nU; i++ {
		genEntry(&l.Unprot, false)
	}
	if o.Tagged {
		for i, n := 0, 1+t.Choose(2, "hdr.tagged.n"); i < n; i++ {
			var v *refcbor.Item
			switch t.Choose(7, "hdr.tagged.kind") {
			case 6:
				// a map keyed by timestamps, one of them written as a tagged
				// epoch time next to the plain number
				n := int64(t.Choose(3, "hdr.tagged.timekey"))
				v = refcbor.Map(refcbor.Int(n), refcbor.Int(0), refcbor.Tag(1, refcbor.Int(n)), refcbor.Int(0))
			case 5:
				v = genBignum(t)
			case 0:
				v = refcbor.Tag(1, refcbor.Int(int64(t.Choose(1<<30, "hdr.tagged.epoch"))))
			case 1:
				v = refcbor.Tag(32, refcbor.Tstr("https://example.test/"+genText(t, 8)))
			case 2:
				v = refcbor.Tag(0, refcbor.Tstr("2024-01-02T03:04:05Z"))
			case 3:
				v = refcbor.Tag(37, refcbor.Bstr(t.Bytes(16, "hdr.tagged.uuid")))
			default:
				v = refcbor.Array(refcbor.Tag(uint64(1000+t.Choose(1000, "hdr.tagged.tag")), genValue(t, 1)), refcbor.Int(1))
			}
			add(&l.Prot, refcbor.Int(int64(-70100-t.Choose(50, "hdr.tagged.label"))), v)
		}
	}
	if !o.NoCrit && len(l.Prot) > 0 && t.Bool(1, 6, "hdr.crit") {
		n := 1 + t.Choose(min(3, len(l.Prot)), "crit.n")
		var labels []*refcbor.Item
		perm := t.Perm(len(l.Prot), "crit.perm")
		for i := 0; i < n; i++ {
			labels = append(labels, l.Prot[perm[i]].K.Clone())
		}
		if n >= 2 && t.Bool(1, 4, "crit.repeat") {
			// a crit list assembled from several sources names a label twice:
			// nothing forbids that
			labels = append(labels, labels[t.Choose(n, "crit.repeat.which")].Clone())
		}
		l.Prot = append(l.Prot, KV{refcbor.Uint(refcose.LCrit), refcbor.Array(labels...)})
	}
	if o.Steer && t.Bool(1, 3, "hdr.steer") {
		targets := []int{22, 23, 24, 25, 254, 255, 256, 257}
		if o.Big && t.Bool(1, 4, "hdr.steer.big") {
			targets = []int{65534, 65535, 65536, 65537}
		}
		target := targets[t.Choose(len(targets), "hdr.steer.t")]
		// pad with a tstr-labelled bstr entry so that the encoded map has
		// exactly the target size where that is reachable
		cur := len(refcbor.Encode(bucketItem(l.Prot, nil)))
		padKey := refcbor.Tstr("pad")
		if !used[refcbor.KeyIdentity(padKey)] && target > cur+6 {
			need := target - cur - 4 // key "pad" = 4 bytes
			// head of bstr: 1, 2, 3 or 5 bytes
			for _, hw := range []int{1, 2, 3, 5} {
				n := need - hw
				if n >= 0 && headLen(n) == hw {
					// adding one entry may widen the map head (23 -> 24 entries); ignore
					add(&l.Prot, padKey, refcbor.Bstr(t.Bytes(n, "pad")))
					break
				}
			}
		}
	}
	return l
}

func headLen(n int) int {
	switch {
	case n < 24:
		return 1
	case n < 256:
		return 2
	case n < 65536:
		return 3
	}
	return 5
}

// bucketItem renders a bucket as a map item; order gives the entry order
// (nil: as generated).
func bucketItem(b Bucket, order []int) *refcbor.Item {
	var kv []*refcbor.Item
	if order == nil {
		for _, e := range b {
			kv = append(kv, e.K, e.V)
		}
	} else {
		for _, i := range order {
			kv = append(kv, b[i].K, b[i].V)
		}
	}
	return refcbor.Map(kv...)
}

func (b Bucket) lookup(label int64) *refcbor.Item {
	for _, e := range b {
		if e.K.IsInt() {
			if v, ok := e.K.Int64(); ok && v == label {
				return e.V
			}
		}
	}
	return nil
}

func (b Bucket) clone() Bucket {
	out := make(Bucket, len(b))
	for i, e := range b {
		out[i] = KV{e.K.Clone(), e.V.Clone()}
	}
	return out
}

// ---------------------------------------------------------------------------
// Reference tree -> Go values for go-cose

// Spelling decides how integers are spelt as Go values.
type Spelling struct {
	T      *tape.Tape // nil: always int64
	Labels bool       // spell map labels with any fitting Go integer type
	Values bool       // spell integer values with any fitting Go integer type
	// AlgLabel lets label 1 (alg) be spelt with any Go integer type too.  Off
	// by default: go-cose looks alg up under int64(1) only (DESIGN section 5,
	// F3), which is property C04's business and would otherwise make most
	// constructed messages of other scenarios unsignable.
	AlgLabel bool
}

func spellInt(t *tape.Tape, v int64) any {
	cands := []any{v}
	if v >= math.MinInt32 && v <= math.MaxInt32 {
		cands = append(cands, int(v), int32(v))
	} else {
		cands = append(cands, int(v))
	}
	if v >= math.MinInt16 && v <= math.MaxInt16 {
		cands = append(cands, int16(v))
	}
	if v >= math.MinInt8 && v <= math.MaxInt8 {
		cands = append(cands, int8(v))
	}
	if v >= 0 {
		cands = append(cands, uint(v), uint64(v))
		if v <= math.MaxUint32 {
			cands = append(cands, uint32(v))
		}
		if v <= math.MaxUint16 {
			cands = append(cands, uint16(v))
		}
		if v <= math.MaxUint8 {
			cands = append(cands, uint8(v))
		}
	}
	return cands[t.Choose(len(cands), "spell")]
}

func itemToGo(it *refcbor.Item, sp Spelling, isLabel bool) any {
	switch it.Major {
	case refcbor.MUint, refcbor.MNint:
		v, ok := it.Int64()
		if !ok {
			if it.Major == refcbor.MUint {
				return it.Arg
			}
			panic("itemToGo: integer outside int64 in the supported data model")
		}
		if sp.T != nil && ((isLabel && sp.Labels) || (!isLabel && sp.Values)) {
			return spellInt(sp.T, v)
		}
		return v
	case refcbor.MBstr:
		return append([]byte{}, it.Data...)
	case refcbor.MTstr:
		return string(it.Data)
	case refcbor.MArray:
		out := make([]any, len(it.Elems))
		for i, e := range it.Elems {
			out[i] = itemToGo(e, sp, false)
		}
		return out
	case refcbor.MMap:
		out := make(map[any]any, len(it.Elems)/2)
		// descending canonical key order: a small Go map iterates as a
		// rotation of insertion order, and no rotation of a descending
		// sequence of >= 3 keys is ascending, so an encoder that stops
		// sorting fails on every encode
		idx := descendingOrder(it)
		for _, i := range idx {
			out[itemToGo(it.Elems[2*i], sp, true)] = itemToGo(it.Elems[2*i+1], sp, false)
		}
		return out
	case refcbor.MTag:
		return cbor.Tag{Number: it.Arg, Content: itemToGo(it.Elems[0], sp, false)}
	case refcbor.MSimple:
		switch {
		case it.Width == 8:
			return math.Float64frombits(it.Arg)
		case it.Width == 4:
			return math.Float32frombits(uint32(it.Arg))
		case it.Arg == 20:
			return false
		case it.Arg == 21:
			return true
		case it.Arg == 22:
			return nil
		}
	}
	panic(fmt.Sprintf("itemToGo: unsupported item %s", refcbor.Diag(it)))
}

func descendingOrder(m *refcbor.Item) []int {
	n := len(m.Elems) / 2
	idx := make([]int, n)
	keys := make([]string, n)
	for i := 0; i < n; i++ {
		idx[i] = i
		keys[i] = string(refcbor.CanonicalBytes(m.Elems[2*i]))
	}
	sort.SliceStable(idx, func(a, b int) bool { return keys[idx[a]] > keys[idx[b]] })
	return idx
}

// bucketToGo converts a bucket into the map go-cose takes.  The alg value is
// given the library's Algorithm type when typedAlg is set.  Labels named by a
// crit entry, and the crit entries themselves, are always spelt int64 so that
// both agree (DESIGN section 5, F7: the disagreement case belongs to C13,
// which is not claimed).
func bucketToGo(b Bucket, sp Spelling, typedAlg bool) map[any]any {
	out := make(map[any]any, len(b))
	m := bucketItem(b, nil)
	critNamed := map[int64]bool{}
	if c := b.lookup(refcose.LCrit); c != nil && c.Major == refcbor.MArray {
		for _, e := range c.Elems {
			if v, ok := e.Int64(); ok && e.IsInt() {
				critNamed[v] = true
			}
		}
	}
	plain := Spelling{}
	for _, i := range descendingOrder(m) {
		k, v := b[i].K, b[i].V
		lbl, isInt := k.Int64()
		isInt = isInt && k.IsInt()
		var gk any
		// Without AlgLabel ("spell every label") the labels go-cose itself
		// looks up stay int64: alg, crit and the labels a crit entry names
		// (the crit entries themselves are spelt int64, and before the
		// label-lookup repair an entry only found its parameter under the
		// same Go type).
		if isInt && !sp.AlgLabel && (critNamed[lbl] || lbl == refcose.LCrit || lbl == refcose.LAlg) {
			gk = itemToGo(k, plain, true)
		} else {
			gk = itemToGo(k, sp, true)
		}
		var gv any
		switch {
		case isInt && lbl == refcose.LCrit:
			gv = itemToGo(v, plain, false)
		case isInt && lbl == refcose.LAlg && v.IsInt():
			a, fits := v.Int64()
			switch {
			case !fits:
				// an unsigned value beyond int64: only a Go uint64 can hold it
				gv = itemToGo(v, plain, false)
			case typedAlg:
				gv = cose.Algorithm(a)
			case sp.T != nil && sp.Values:
				gv = spellInt(sp.T, a)
			default:
				gv = a
			}
		default:
			gv = itemToGo(v, sp, false)
		}
		if m, isMap := gv.(map[any]any); isMap && isInt && lbl == refcose.LCWTClaims && typedAlg {
			// CWT claims under the library's own Go type (what SetCWTClaims
			// stores), as often as alg under its own
			gv = cose.CWTClaims(m)
		}
		out[gk] = gv
	}
	return out
}

func asInt64(v any) (int64, bool) {
	switch n := v.(type) {
	case int:
		return int64(n), true
	case int8:
		return int64(n), true
	case int16:
		return int64(n), true
	case int32:
		return int64(n), true
	case int64:
		return n, true
	case uint:
		return int64(n), true
	case uint8:
		return int64(n), true
	case uint16:
		return int64(n), true
	case uint32:
		return int64(n), true
	case uint64:
		return int64(n), true
	case cose.Algorithm:
		return int64(n), true
	}
	return 0, false
}

func min(a, b int) int {
	if a < b {
		return a
	}
	return b
}

// genBignum is a CBOR bignum (tag 2 or 3, RFC 8949 section 3.4.3), biased to
// the 8-byte contents around the int64/uint64 boundaries.
func genBignum(t *tape.Tape) *refcbor.Item {
	var b []byte
	switch t.Choose(4, "bignum.kind") {
	case 0:
		b = t.Bytes(8, "bignum.8")
		b[0] |= 0x80 // above int64, within uint64
	case 1:
		b = t.Bytes(8, "bignum.8")
		b[0] &= 0x7f
	case 2:
		b = t.Bytes(9+t.Choose(8, "bignum.n"), "bignum.big")
		b[0] |= 1
	default:
		b = t.Bytes(t.Choose(9, "bignum.n"), "bignum.small")
	}
	return refcbor.Tag(uint64(2+t.Choose(2, "bignum.neg")), refcbor.Bstr(b))
}
