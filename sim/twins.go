package sim

import (
	"bytes"
	"hash/crc32"

	"verif/refcbor"
	"verif/tape"
)

// Near-twin histories: two protected buckets met one after the other in one
// process that a weakly keyed decoder-side memo would take for the same
// header - same length and a long common prefix, or the same 32-bit checksum
// (CRC-32, IEEE or Castagnoli polynomial) - while they are different
// bytes.  What a decoder returns (value and verdict) is a function of the
// bytes it was given, whatever it met before.

// twinPair: two tagged COSE_Sign1 messages.  A is conforming.  B differs from
// A in its protected bucket only; when malformed is set B's protected bucket
// repeats a label (no decoder may accept it), otherwise B is conforming and
// its content type is textB.
type twinPair struct {
	a, b      []byte
	protA     []byte // content of the protected bstr of A
	protB     []byte
	textA     string
	textB     string
	patchB    []byte // value of label -70000 in B
	malformed bool
	how       string
}

func sign1Wire(prot []byte, payload, sig []byte) []byte {
	out := []byte{0xd2, 0x84}
	out = append(out, refcbor.Encode(refcbor.Bstr(prot))...)
	out = append(out, 0xa0)
	out = append(out, refcbor.Encode(refcbor.Bstr(payload))...)
	out = append(out, refcbor.Encode(refcbor.Bstr(sig))...)
	return out
}

// forge4 returns the 4 octets x for which sum(prefix || x) == target, for the
// CRC-32 with the given table.
func forge4(tab *crc32.Table, prefix []byte, target uint32) []byte {
	var rev [256]byte
	for i := 0; i < 256; i++ {
		rev[tab[i]>>24] = byte(i)
	}
	cur := ^crc32.Checksum(prefix, tab)
	want := ^target
	for i := 0; i < 4; i++ {
		idx := rev[want>>24]
		want = (want^tab[idx])<<8 | uint32(idx)
	}
	x := want ^ cur
	return []byte{byte(x), byte(x >> 8), byte(x >> 16), byte(x >> 24)}
}

func genTwins(t *tape.Tape) *twinPair {
	const alpha = "abcdefghijklmnopqrstuvwxyz0123456789-."
	n := 34 + t.Choose(40, "twin.textlen")
	tx := make([]byte, n)
	for i := range tx {
		tx[i] = alpha[t.Choose(len(alpha), "twin.char")]
	}
	textA := "application/" + string(tx)
	tb := append([]byte{}, tx...)
	// the tail differs (one to three of the last characters)
	for k := 0; k < 1+t.Choose(3, "twin.ntail"); k++ {
		i := n - 1 - k
		tb[i] = alpha[(bytes.IndexByte([]byte(alpha), tb[i])+1+t.Choose(len(alpha)-1, "twin.tailchar"))%len(alpha)]
	}
	textB := "application/" + string(tb)
	alg := []byte{0x26} // ES256
	entry := func(text string) []byte {
		e := []byte{0x03}
		return append(e, refcbor.Encode(refcbor.Tstr(text))...)
	}
	patchKey := []byte{0x3a, 0x00, 0x01, 0x11, 0x6f, 0x44} // -70000: bstr(4)
	mk := func(count int, parts ...[]byte) []byte {
		out := []byte{0xa0 | byte(count), 0x01}
		out = append(out, alg...)
		for _, p := range parts {
			out = append(out, p...)
		}
		return out
	}
	pa := t.Bytes(4, "twin.patchA")
	p := &twinPair{textA: textA, textB: textB}
	p.protA = mk(3, entry(textA), patchKey, pa)
	var prefixB []byte
	switch v := t.Choose(6, "twin.variant"); v {
	case 0:
		// same length, same first octets, another tail
		p.how = "same-length-and-prefix"
		p.patchB = pa
		p.protB = mk(3, entry(textB), patchKey, pa)
		if t.Bool(1, 2, "twin.scalars-only") {
			// nothing but integers and text in either bucket
			p.patchB = nil
			p.protA = mk(2, entry(textA))
			p.protB = mk(2, entry(textB))
		}
	case 1:
		p.how = "same-length-and-prefix/malformed"
		p.malformed = true
		p.patchB = pa
		// label 3 twice (the second time in place of the last entry, which
		// has the same size): same length, same octets up to there
		p.protB = mk(3, entry(textA), []byte{0x03, 0x48}, pa, pa)
	default:
		tabs := []*crc32.Table{crc32.IEEETable, crc32.MakeTable(crc32.Castagnoli)}
		tab := tabs[t.Choose(2, "twin.crc")]
		p.malformed = v >= 4
		if p.malformed {
			p.how = "same-crc32/malformed"
			prefixB = mk(4, entry(textB), []byte{0x03, 0x60}, patchKey)
		} else {
			p.how = "same-crc32"
			prefixB = mk(3, entry(textB), patchKey)
		}
		p.patchB = forge4(tab, prefixB, crc32.Checksum(p.protA, tab))
		p.protB = append(append([]byte{}, prefixB...), p.patchB...)
		if crc32.Checksum(p.protB, tab) != crc32.Checksum(p.protA, tab) {
			panic("twins: checksum forging is broken")
		}
	}
	payload := t.Bytes(1+t.Choose(20, "twin.payload.n"), "twin.payload")
	sig := t.Bytes(64, "twin.sig")
	p.a = sign1Wire(p.protA, payload, sig)
	p.b = sign1Wire(p.protB, payload, sig)
	return p
}
