package sim

import (
	"bytes"
	"strings"

	cose "github.com/veraison/go-cose"

	"verif/refcbor"
	"verif/refcose"
)

func init() {
	Scenarios["C09"] = scenarioC09
	Infos["C09"] = ScenarioInfo{
		Level: "exploration",
		Rule: "one run = a relay chain: an accepted wire message (issued by the foreign peer in a non-deterministic encoding, or by go-cose; Sign1 tagged/untagged, Sign, nested countersignatures single/list/abbreviated; optionally re-widthed / key-reordered / unprotected-edited / wrapped in one more outer tag in flight; a sixth of the messages carry tagged values - date/time, URI, UUID, bignum, unassigned tags - in protected headers) " +
			"passes 1..6 relay hops, each of which decodes and re-encodes it, keeping or discarding the retained raw header bytes as the tape decides. While every hop kept the raw bytes the output must equal the reference prediction " +
			"(both header buckets of every layer byte-identical; only payload/signature/signatures-array heads re-headed), equal the input when that was deterministic, and every signature and countersignature must keep its verdict. " +
			"After a hop that discarded the raw bytes the output must be deterministic CBOR (inside protected headers too) and every later hop, keeping or discarding, must reproduce it byte for byte. " +
			"Non-trivial = at least one hop compared; distinct = distinct (kind, population, hop pattern, outcome) sequence.",
		Assumptions: []string{"the prediction (refcose.PredictReencode) transcribes the property statement", "signature validity after discarding raw bytes is not demanded (the statement does not)"},
		Real:        []string{"github.com/veraison/go-cose (decoders, encoders, Verify)", "github.com/fxamacker/cbor/v2"},
		Stubs:       []string{"relay/store hops (decode + encode, raw kept or dropped)", "foreign peer (reference model)", "wire with benign fault injection", "entropy source"},
		QuickRuns:   200000, ThoroughRuns: 3000000,
	}
}

// c09Envelope: the message VerifyHashEnvelope hands back is a decoded
// message like any other - relayed untouched it reproduces the envelope it
// was decoded from, and it still verifies.
func c09Envelope(r *Run) {
	t := r.T
	key := pickCheapKey(t)
	ha := []int64{refcose.AlgSHA256, refcose.AlgSHA384, refcose.AlgSHA512}[t.Choose(3, "c09.env.hash")]
	a := key.Alg
	layer := envelopeSafe(genLayer(t, LayerOpts{MaxExtra: 3, Alg: &a, NoCrit: true}))
	layer.Prot = append(layer.Prot, KV{refcbor.Int(258), refcbor.Int(ha)})
	if t.Bool(1, 2, "c09.env.ct") {
		layer.Prot = append(layer.Prot, KV{refcbor.Int(259), genContentType(t)})
	}
	layer = dedupLayer(layer)
	spec := &MsgSpec{Kind: refcose.KSign1Tagged, Layer: layer, Payload: t.Bytes(refcose.HashLen(ha), "c09.env.digest"), Key: key}
	ent := NewEntropy(uint64(t.U32("entropy.seed")))
	w := r.ForeignWire(t, spec, genKnobs(t), ent, false, 0, false)
	r.Op("ISSUE", "hash envelope by the foreign peer: %s", spec)
	r.Outcome("envelope-relay")
	verifier := r.verifierFor(key, false)
	var msg *cose.Sign1Message
	var err error
	r.Lib(func() { msg, err = cose.VerifyHashEnvelope(verifier, w.B) })
	if err != nil || msg == nil {
		r.Outcome("envelope-not-accepted") // C12's business
		return
	}
	var out []byte
	r.Lib(func() { out, err = msg.MarshalCBOR() })
	r.Op("RELAY", "message returned by VerifyHashEnvelope -> %s", errTag(err))
	r.Check()
	if err != nil {
		r.Fail("reencode-fails-with-raw-kept/envelope", "the message returned by VerifyHashEnvelope cannot be encoded again: %v\ninput: %s", err, hexShort(w.B))
		return
	}
	want, perr := refcose.PredictReencode(refcose.KSign1Tagged, w.B)
	if perr == nil && !bytes.Equal(out, want) {
		r.Fail("reencoding-changes-header-bytes/envelope", "the message returned by VerifyHashEnvelope, relayed untouched, differs from the envelope in more than payload/signature heads\n input: %s\noutput: %s", hexShort(w.B), hexShort(out))
		return
	}
	var verr error
	r.Lib(func() { verr = msg.Verify(nil, verifier) })
	if verr != nil {
		r.Fail("reencoding-changes-verdict/envelope", "the message returned by VerifyHashEnvelope does not verify under the same verifier: %v\n%s", verr, hexShort(w.B))
		return
	}
	r.Probe("envelope-relay-compared")
}

func scenarioC09(r *Run) {
	t := r.T
	if t.Bool(1, 12, "c09.envelope") {
		c09Envelope(r)
		return
	}
	ent := NewEntropy(uint64(t.U32("entropy.seed")))
	so := SpecOpts{MaxExtra: 4, MaxSigner: 3, Cheap: true, BigOK: bigOK(r, "c09.big")}
	if t.Bool(1, 6, "c09.manylabels") {
		so.MaxExtra = []int{30, 60, 100}[t.Choose(3, "c09.manylabels.n")] // buckets beyond 23 entries (two-octet map heads) and well beyond
	}
	if t.Bool(1, 6, "c09.tagged") {
		so.TaggedProtected = true
	}
	w := r.GenWire(t, TrafficOpts{Spec: so, CsigDepth: 2, Abbrev: true, ForeignPct: 60}, ent)
	if w == nil {
		r.Outcome("no-traffic")
		return
	}
	r.Op("ISSUE", "%s: %s", w.Desc, w.Spec)
	spec := w.Spec
	cur := w.B
	faulted := false
	if t.Bool(1, 3, "c09.fault") {
		if t.Bool(1, 4, "c09.fault.any") {
			// anything the channel can do: whatever the decoder still accepts
			// is an "accepted wire message" and must survive the hops
			if out, k := GenFaultMix(t).WireFault(t, cur); k != "" {
				cur, faulted = out, true
				r.Fired(k)
			}
		} else if t.Bool(1, 5, "c09.fault.outertag") {
			// a peer that wraps the message once more (CWT tag 61, self-described
			// CBOR 55799, the message's own tag twice, ...): if the decoder takes
			// it, the relay must still reproduce it
			tags := []uint64{61, 55799, 18, 98, 17, 24, 0}
			tg := refcbor.Encode(refcbor.Tag(tags[t.Choose(len(tags), "c09.outertag")], refcbor.Int(0)))
			cur, faulted = append(append([]byte{}, tg[:len(tg)-1]...), cur...), true
			r.Fired("outertag")
		} else {
			kinds := []string{"rewidth", "keyreorder", "unprot-edit", "algtext", "algother"}
			if out, k, ok := StructFault(t, cur, kinds[t.Choose(5, "c09.fault.kind")]); ok {
				cur, faulted = out, true
				r.Fired(k)
			}
		}
	}
	r.Outcome(spec.Kind.String())
	rc, err := r.Decode(spec.Kind, cur)
	if err != nil {
		r.Outcome("not-accepted")
		return
	}
	vs := r.verifiersFor(spec, false)
	v0 := r.VerifyLib(rc, spec.External, vs...)
	// countersignature verdicts on the first decode
	type csv struct{ ok bool }
	var c0 []bool
	collect := func(rc *Received) []bool {
		var out []bool
		walkWireCsigs(w, rc, func(n *CsigNode, cs *cose.Countersignature, abbrev []byte, parent any) {
			verifier := r.verifierFor(n.Key, false)
			var e error
			if n.Abbrev {
				r.Lib(func() { e = cose.VerifyCountersign0(verifier, parent, n.External, abbrev) })
			} else if cs == nil {
				e = cose.ErrVerification
			} else {
				r.Lib(func() { e = cs.Verify(verifier, parent, n.External) })
			}
			out = append(out, e == nil)
		})
		return out
	}
	if !faulted {
		c0 = collect(rc)
	}
	if cur2 := nonCanonicalDeep(w.Dec, cur); cur2 != "" {
		r.Probe("input-noncanonical")
	} else {
		r.Probe("input-canonical")
	}

	first := cur
	hops := 1 + t.Choose(6, "c09.hops")
	dropped := false
	var fixpoint []byte
	pattern := ""
	for h := 0; h < hops; h++ {
		if h > 0 {
			rc, err = r.Decode(spec.Kind, cur)
			r.Check()
			if err != nil && dropped && strings.Contains(err.Error(), "overflows Go's int64") && bignumBeyondInt64InProtected(w.Dec, first) {
				// root cause known: see known_findings.json
				r.Fail("reencoding-breaks/bignum-beyond-int64", "hop %d: a protected header carries a bignum (tag 2/3) whose value needs more than int64 but fits 64 bits; after the raw bytes were discarded it was re-encoded as a plain 8-byte integer, which the decoder refuses: %v\naccepted input: %s\nre-encoded:     %s", h, err, hexShort(first), hexShort(cur))
				return
			}
			if err != nil {
				r.Fail("reencoded-output-refused/"+spec.Kind.String(), "hop %d: the output of the previous hop is refused by the decoder: %v\nbytes: %s", h, err, hexShort(cur))
				return
			}
		}
		keep := t.Bool(3, 5, "c09.keepraw")
		partial := false
		if keep && !dropped && t.Bool(1, 4, "c09.partial") {
			// the relay edits only the unprotected side of the outermost layer
			// (what attaching a countersignature does): the raw unprotected
			// bytes of that layer are discarded, the raw protected bytes kept
			partial = true
			if rc.M1 != nil {
				rc.M1.Headers.RawUnprotected = nil
			} else {
				rc.MS.Headers.RawUnprotected = nil
				if len(rc.MS.Signatures) > 0 && rc.MS.Signatures[0] != nil {
					rc.MS.Signatures[0].Headers.RawUnprotected = nil
				}
			}
			pattern += "p"
		} else if !keep {
			rc.DropRawDeep()
			pattern += "d"
		} else {
			pattern += "k"
		}
		out, eerr := r.Reencode(rc)
		r.Op("RELAY", "hop %d keepRaw=%v -> %s", h, keep, errTag(eerr))
		r.Check()
		if eerr != nil {
			if keep && !dropped {
				r.Fail("reencode-fails-with-raw-kept/"+spec.Kind.String(), "hop %d: an untouched decoded message cannot be encoded again: %v\ninput: %s", h, eerr, hexShort(cur))
			} else {
				r.Fail("reencode-fails-after-dropping-raw/"+spec.Kind.String(), "hop %d: a decoded conforming message cannot be encoded from its parsed headers: %v\ninput: %s", h, eerr, hexShort(cur))
			}
			r.Outcome("reencode-refused")
			return
		}
		if partial {
			// protected bytes of every layer must be exactly the received
			// ones, so every signature keeps its verdict
			pin, pout := protectedItems(w.Dec, cur), protectedItems(w.Dec, out)
			if len(pin) != len(pout) {
				r.Fail("partial-raw-drop-changes-structure/"+spec.Kind.String(), "hop %d (only raw unprotected bytes discarded): number of protected headers changed from %d to %d\n input: %s\noutput: %s", h, len(pin), len(pout), hexShort(cur), hexShort(out))
				return
			}
			for i := range pin {
				if !bytes.Equal(pin[i].Data, pout[i].Data) {
					r.Fail("partial-raw-drop-changes-protected-bytes/"+spec.Kind.String(), "hop %d: the relay discarded only the raw UNPROTECTED bytes, yet protected header %d was re-encoded\n before: %x\n  after: %x", h, i, pin[i].Data, pout[i].Data)
					return
				}
			}
			rc2, derr := r.Decode(spec.Kind, out)
			if derr != nil {
				r.Fail("reencoded-output-refused/"+spec.Kind.String(), "hop %d: own re-encoding refused: %v\n%s", h, derr, hexShort(out))
				return
			}
			if v := r.VerifyLib(rc2, spec.External, vs...); (v == nil) != (v0 == nil) {
				r.Fail("reencoding-changes-verdict/"+spec.Kind.String(), "hop %d (only raw unprotected bytes discarded): verdict before %v, after %v", h, v0, v)
				return
			}
			r.Probe("hop-partial-raw-drop-compared")
			// from here on the message is partly canonical: treat later hops
			// like hops after a drop only once a full drop happened
		} else if keep && !dropped {
			want, perr := refcose.PredictReencode(spec.Kind, cur)
			if perr != nil {
				r.Fail("accepted-but-unparsable/"+spec.Kind.String(), "decoder accepted bytes the reference parser cannot read: %v\n%s", perr, hexShort(cur))
				return
			}
			if !bytes.Equal(out, want) {
				r.Fail("reencoding-changes-header-bytes/"+spec.Kind.String(),
					"hop %d (raw kept): re-encoding differs from the input in more than payload/signature/signatures-array heads\n input: %s\noutput: %s\n  want: %s", h, hexShort(cur), hexShort(out), hexShort(want))
				return
			}
			if nonCanonicalDeep(w.Dec, cur) == "" && !bytes.Equal(out, cur) {
				r.Fail("canonical-input-not-reproduced/"+spec.Kind.String(), "hop %d: deterministic input re-encoded differently\n input: %s\noutput: %s", h, hexShort(cur), hexShort(out))
				return
			}
			// verdicts preserved
			rc2, derr := r.Decode(spec.Kind, out)
			if derr != nil {
				r.Fail("reencoded-output-refused/"+spec.Kind.String(), "hop %d: own re-encoding refused: %v\n%s", h, derr, hexShort(out))
				return
			}
			v := r.VerifyLib(rc2, spec.External, vs...)
			if (v == nil) != (v0 == nil) {
				r.Fail("reencoding-changes-verdict/"+spec.Kind.String(), "hop %d (raw kept): verdict before %v, after %v\n input: %s\noutput: %s", h, v0, v, hexShort(cur), hexShort(out))
				return
			}
			if !faulted {
				c := collect(rc2)
				for i := range c0 {
					if i >= len(c) || c[i] != c0[i] {
						r.Fail("reencoding-changes-countersignature-verdict", "hop %d (raw kept): countersignature %d verified %v before and %v after\n input: %s\noutput: %s", h, i, c0[i], i < len(c) && c[i], hexShort(cur), hexShort(out))
						return
					}
				}
			}
			r.Probe("hop-raw-kept-compared")
		} else if !dropped {
			// first hop that discarded the raw bytes: output must be canonical
			dropped = true
			if why := nonCanonicalDeep(w.Dec, out); why != "" {
				if timeTaggedKeyInProtected(w.Dec, first) {
					// root cause known (K3's, met in a message): see known_findings.json
					r.Fail("reencoding-breaks/time-tagged-map-key", "hop %d (raw discarded): a map inside a protected header has a key tagged 0/1 (date/time), which is re-encoded as a bare number: %s\naccepted input: %s\noutput: %s", h, why, hexShort(first), hexShort(out))
					return
				}
				r.Fail("dropraw-output-not-canonical/"+spec.Kind.String(), "hop %d (raw discarded): output is not deterministic CBOR: %s\noutput: %s", h, why, hexShort(out))
				return
			}
			fixpoint = out
			r.Probe("hop-raw-dropped-canonical")
		} else {
			if !bytes.Equal(out, fixpoint) {
				r.Fail("dropraw-not-idempotent/"+spec.Kind.String(), "hop %d (keepRaw=%v): re-encoding the canonical form changed it\nbefore: %s\n after: %s", h, keep, hexShort(fixpoint), hexShort(out))
				return
			}
			r.Probe("hop-fixpoint-compared")
		}
		cur = out
	}
	r.Outcome("hops:" + pattern)
}

// timeTaggedKeyInProtected: some map inside a protected header of the message
// has a key wrapped in tag 0 or 1.
func timeTaggedKeyInProtected(dec string, b []byte) bool {
	for _, p := range protectedItems(dec, b) {
		if len(p.Data) > 0 && hasTimeTaggedMapKey(p.Data) {
			return true
		}
	}
	return false
}
