package sim

import (
	"bytes"
	"fmt"

	cose "github.com/veraison/go-cose"

	"verif/refcbor"
	"verif/refcose"
	"verif/tape"
)

func init() {
	Scenarios["C11"] = scenarioC11
	Infos["C11"] = ScenarioInfo{
		Level: "exploration",
		Rule: "one run = a COSE_Sign with n = 0..6 signers of mixed algorithms. Signing half: the signer list is shorter, equal or longer than the slots and any subset of signers fails (signer.err); " +
			"Sign must return an error, or nil with every slot filled. Verifying half: the COSE_Signature elements are treated as messages on a lossy channel - loss, duplication, reordering, surplus element from another message, emptied or corrupted signature, on any subset, " +
			"applied on the wire (then decoded) or on the in-memory value - and the verifier list is permuted, shortened, lengthened or has keys substituted; Verify must return nil exactly when the counts agree and every signature is valid under the verifier at the same position " +
			"over its own Sig_structure (reference verdict), recording verifiers must be offered signature i's own ToBeSigned and bytes in order, and verification stops at the first failure. " +
			"A COSE_Sign with zero signatures or any empty signature must be refused by MarshalCBOR and its reference-encoded wire form by UnmarshalCBOR. " +
			"Non-trivial = a Sign or Verify call was judged; distinct = distinct (n, fault kinds, verifier-list edit, outcome) sequence.",
		Assumptions: []string{"signers are well-behaved or erroring / empty-returning as the property scopes it", "Go crypto primitives are correct"},
		Real:        []string{"github.com/veraison/go-cose (sign.go and what it calls)", "github.com/fxamacker/cbor/v2", "Go crypto"},
		Stubs:       []string{"cose.Signer / cose.Verifier recording wrappers with injectable failure", "lossy channel for COSE_Signature elements", "foreign peer (reference model)", "entropy source"},
		QuickRuns:   300000, ThoroughRuns: 4000000,
	}
}

// c11Sig is the reference reading of one COSE_Signature.
type c11Sig struct {
	prot    []byte
	protAlg *refcbor.Item
	sig     []byte
	present bool // false for a nil element of an in-memory message
}

type c11State struct {
	bodyProt   []byte
	payload    []byte
	hasPayload bool
	sigs       []c11Sig
}

func c11FromWire(wire []byte) (*c11State, error) {
	m, err := refcose.ParseMsg(refcose.KSignTagged, wire)
	if err != nil {
		return nil, err
	}
	st := &c11State{bodyProt: m.ProtBstr.Data}
	if m.Payload.Major == refcbor.MBstr {
		st.payload, st.hasPayload = m.Payload.Data, true
	}
	for _, s := range m.Sigs {
		st.sigs = append(st.sigs, c11Sig{prot: s.ProtBstr.Data, protAlg: refcose.Lookup(s.ProtMap, refcose.LAlg), sig: s.Signature.Data, present: true})
	}
	return st, nil
}

// c11FromLib reads the same facts from an in-memory message (protected bytes
// as go-cose would emit them).
func (r *Run) c11FromLib(m *cose.SignMessage) (*c11State, bool) {
	st := &c11State{payload: m.Payload, hasPayload: m.Payload != nil}
	var pb []byte
	var err error
	r.Lib(func() { pb, err = m.Headers.MarshalProtected() })
	if err != nil {
		return nil, false
	}
	_, st.bodyProt, err = protAlgOnWire(pb)
	if err != nil {
		return nil, false
	}
	for _, s := range m.Signatures {
		if s == nil {
			st.sigs = append(st.sigs, c11Sig{})
			continue
		}
		var sb []byte
		r.Lib(func() { sb, err = s.Headers.MarshalProtected() })
		if err != nil {
			return nil, false
		}
		alg, content, e := protAlgOnWire(sb)
		if e != nil {
			return nil, false
		}
		st.sigs = append(st.sigs, c11Sig{prot: content, protAlg: alg, sig: s.Signature, present: true})
	}
	return st, true
}

// verdict: one entry per signature position (valid?, why).
func (st *c11State) verdict(i int, key *KeyPair, external []byte) (bool, string, []byte) {
	s := st.sigs[i]
	tbs := refcose.SigStructure(st.bodyProt, s.prot, external, st.payload)
	switch {
	case !s.present:
		return false, "nil signature element", tbs
	case !st.hasPayload:
		return false, "payload missing", tbs
	case len(s.sig) == 0:
		return false, "empty signature", tbs
	case key == nil:
		return false, "no verifier", tbs
	}
	if why := algRule(s.protAlg, key.Alg, external); why != "" {
		return false, why, tbs
	}
	if !refcose.ValidSignature(key.Alg, key.Pub, tbs, s.sig) {
		return false, "signature cryptographically invalid", tbs
	}
	return true, "", tbs
}

func scenarioC11(r *Run) {
	t := r.T
	switch t.Pick([]int{3, 6, 2}, "c11.part") {
	case 0:
		c11Sign(r, t)
	case 1:
		c11Verify(r, t)
	default:
		c11Empty(r, t)
	}
}

func c11Spec(t *tape.Tape, n int) *MsgSpec {
	spec := &MsgSpec{Kind: refcose.KSignTagged, Payload: genPayload(t, t.Bool(1, 40, "c11.big")), External: genExternal(t)}
	spec.Layer = genLayer(t, LayerOpts{MaxExtra: 2})
	for i := 0; i < n; i++ {
		k := pickCheapKey(t)
		lo := LayerOpts{MaxExtra: 2}
		if len(spec.External) == 0 || t.Bool(2, 3, "c11.alg") {
			a := k.Alg
			lo.Alg = &a
		}
		spec.Signers = append(spec.Signers, &SignerSpec{Layer: genLayer(t, lo), Key: k})
	}
	return spec
}

// c11Sign: Sign fills every slot or reports an error.
func c11Sign(r *Run, t *tape.Tape) {
	n := t.Choose(7, "c11.n")
	spec := c11Spec(t, n)
	m := spec.LibSign(Spelling{T: t}, true)
	ent := NewEntropy(uint64(t.U32("entropy.seed")))
	ns := n
	switch t.Pick([]int{6, 1, 1}, "c11.signers.count") {
	case 1:
		if n > 0 {
			ns = t.Choose(n, "c11.signers.fewer")
		}
	case 2:
		ns = n + 1 + t.Choose(2, "c11.signers.more")
	}
	shared := false
	if n >= 2 && t.Bool(1, 8, "c11.sharedholder") {
		// one holder object at two positions (holders taken twice from a
		// template list, a pointer to a loop variable)
		i := t.Choose(n, "c11.shared.i")
		j := (i + 1 + t.Choose(n-1, "c11.shared.j")) % n
		m.Signatures[j] = m.Signatures[i]
		shared = true
		r.Fired("app.one-holder-at-two-positions")
	}
	var spies []*SpySigner
	var log []string
	anyFault := false
	signers := make([]cose.Signer, ns)
	for i := 0; i < ns; i++ {
		k := pickCheapKey(t)
		if i < n {
			k = spec.Signers[i].Key
		}
		s := &SpySigner{Inner: r.signerFor(k, false), Alg: cose.Algorithm(k.Alg), Log: &log, Tag: itoa(i)}
		// signers are well-behaved or erroring here; a signer that returns an
		// empty signature without an error is a misbehaving seam and belongs
		// to C20 (where it must surface by MarshalCBOR at the latest)
		if t.Bool(1, 5, "c11.signer.fault") {
			s.Fault = "err"
			if t.Bool(1, 4, "c11.signer.panic") {
				// a signer that crashes: go-cose may pass the panic on (that
				// is the error then), it must not report success
				s.Fault = "panic"
			}
		}
		if s.Fault != "" {
			anyFault = true
			r.Fired("signer." + s.Fault)
		}
		spies = append(spies, s)
		signers[i] = s
	}
	var err error
	r.Lib(func() { err = m.Sign(ent, spec.External, signers...) })
	err = r.TakeSeamPanic(err)
	r.Op("SIGN", "n=%d signers=%d faults=%v -> %s", n, ns, anyFault, errTag(err))
	r.Outcome(fmt.Sprintf("sign/n=%d/signers=%d/fault=%v/%s", n, ns, anyFault, errTag(err)))
	r.Check()
	if err == nil {
		if n == 0 {
			r.Fail("sign-ok-with-zero-signatures", "SignMessage.Sign returned nil for a message without signature slots")
		}
		if ns != n {
			r.Fail("sign-ok-with-wrong-signer-count", "Sign returned nil with %d signers for %d slots", ns, n)
		}
		for i, s := range m.Signatures {
			if len(s.Signature) == 0 {
				r.Fail("sign-ok-with-empty-slot", "Sign returned nil but slot %d of %d holds no signature (signer fault %q)", i, n, spies[i].Fault)
			}
		}
		if ns == n && n > 0 && !anyFault {
			// every slot filled: by the signer at its position
			vs := make([]cose.Verifier, n)
			for i := 0; i < n; i++ {
				vs[i] = r.verifierFor(spec.Signers[i].Key, false)
			}
			var verr error
			r.Lib(func() { verr = m.Verify(spec.External, vs...) })
			if verr != nil {
				r.Fail("sign-ok-but-slots-not-filled-by-their-signers", "Sign returned nil, yet the message does not verify under the verifiers of the same keys at the same positions: %v (one holder at two positions: %v)", verr, shared)
			}
		}
	} else {
		// an error: whatever was stored, the message must not be serialisable
		// if a slot is empty; and with erroring signers no later signer ran
		firstErr := -1
		for i, s := range spies {
			if i < n && s.Fault != "" {
				firstErr = i
				break
			}
		}
		if firstErr >= 0 && ns == n {
			for _, l := range log {
				var idx int
				fmt.Sscanf(l, "sign:%d", &idx)
				if idx > firstErr {
					r.Fail("sign-continues-after-signer-error", "signer %d was called although signer %d had returned an error", idx, firstErr)
				}
			}
			if len(m.Signatures[firstErr].Signature) != 0 && !shared {
				r.Fail("sign-stores-signature-of-failing-signer", "slot %d holds %d signature bytes although its signer returned an error", firstErr, len(m.Signatures[firstErr].Signature))
			}
		}
	}
	// whatever happened: if any slot is empty the message must not encode
	empty := n == 0
	for _, s := range m.Signatures {
		if len(s.Signature) == 0 {
			empty = true
		}
	}
	if empty {
		var b []byte
		var merr error
		r.Lib(func() { b, merr = m.MarshalCBOR() })
		if merr == nil {
			r.Fail("half-signed-message-encodes", "a COSE_Sign with an empty signature slot (or none) was encoded: %s", hexShort(b))
		}
	}
	// the operator repairs the failing signer and tries again on the same
	// message object with fresh signature holders: this second call is a
	// complete signing run of its own
	if err != nil && anyFault && ns == n && n > 0 && t.Bool(1, 2, "c11.retry") {
		for i := range m.Signatures {
			m.Signatures[i] = &cose.Signature{Headers: m.Signatures[i].Headers}
		}
		healthy := make([]cose.Signer, n)
		for i := 0; i < n; i++ {
			healthy[i] = r.signerFor(spec.Signers[i].Key, false)
		}
		var err2 error
		r.Lib(func() { err2 = m.Sign(ent, spec.External, healthy...) })
		r.Fired("sign.retry-after-signer-failure")
		r.Check()
		if err2 == nil {
			for i, sg := range m.Signatures {
				if len(sg.Signature) == 0 {
					r.Fail("retry-leaves-slot-empty", "after a failed Sign, a second Sign with healthy signers and fresh signature holders returned nil but slot %d of %d is empty", i, n)
					return
				}
			}
			vs := make([]cose.Verifier, n)
			for i := 0; i < n; i++ {
				vs[i] = r.verifierFor(spec.Signers[i].Key, false)
			}
			var verr error
			r.Lib(func() { verr = m.Verify(spec.External, vs...) })
			if verr != nil {
				r.Fail("retry-result-does-not-verify", "the message signed by the second attempt does not verify: %v", verr)
			}
		}
	}
}

// c11Verify: positional, all-or-nothing verification.
func c11Verify(r *Run, t *tape.Tape) {
	n := 1 + t.Choose(6, "c11.n")
	spec := c11Spec(t, n)
	ent := NewEntropy(uint64(t.U32("entropy.seed")))
	foreign := t.Bool(1, 4, "c11.foreign")
	var w *Wire
	var is *Issued
	if foreign {
		w = r.ForeignWire(t, spec, genKnobs(t), ent, false, 0, false)
	} else {
		w, is = r.LibWire(t, spec, ent, false, 0, false)
		if w == nil {
			r.Outcome("no-traffic")
			return
		}
	}
	r.Op("ISSUE", "%s n=%d", w.Desc, n)
	var donor *Wire
	getDonor := func() []byte {
		if donor == nil {
			donor = r.GenWire(t, TrafficOpts{Spec: SpecOpts{Kinds: []refcose.Kind{refcose.KSignTagged}, MaxExtra: 1, MaxSigner: 2, Cheap: true}}, ent)
		}
		if donor == nil {
			return nil
		}
		return donor.B
	}
	// keys[i] tracks which key signature position i was made with (nil for a
	// surplus element of unknown origin)
	keys := append([]*KeyPair{}, keysOf(spec)...)
	decoded := foreign || t.Bool(1, 2, "c11.decoded")
	nf := t.Pick([]int{2, 4, 3, 1}, "c11.nfaults")
	var m *cose.SignMessage
	var st *c11State
	if decoded {
		wire := w.B
		for i := 0; i < nf; i++ {
			if out, kind, ok := SigChannelFault(t, wire, "", getDonor()); ok {
				wire = out
				r.Fired(kind)
			}
		}
		var err error
		st, err = c11FromWire(wire)
		if err != nil {
			r.Skip("reference cannot parse a message after signature-channel faults: " + err.Error())
		}
		rc, derr := r.Decode(refcose.KSignTagged, wire)
		r.Check()
		bad := len(st.sigs) == 0
		for _, s := range st.sigs {
			if len(s.sig) == 0 {
				bad = true
			}
		}
		if derr != nil {
			if !bad {
				r.Fail("valid-sign-message-refused", "a COSE_Sign whose signature elements were only lost/duplicated/reordered/corrupted (none empty, at least one left) was refused: %v\nwire: %s", derr, hexShort(wire))
			}
			r.Outcome("decode-refused")
			return
		}
		if bad {
			r.Fail("sign-message-with-empty-signature-decoded", "a COSE_Sign with zero signatures or an empty signature was decoded\nwire: %s", hexShort(wire))
			return
		}
		m = rc.MS
	} else {
		m = is.MS
		for i := 0; i < nf; i++ {
			kinds := []string{"sig.loss", "sig.dup", "sig.reorder", "sig.surplus", "sig.empty", "sig.corrupt", "sig.nil"}
			kind := kinds[t.Choose(len(kinds), "c11.mem.kind")]
			ns := len(m.Signatures)
			switch kind {
			case "sig.loss":
				if ns == 0 {
					continue
				}
				j := t.Choose(ns, "c11.mem.i")
				m.Signatures = append(m.Signatures[:j:j], m.Signatures[j+1:]...)
			case "sig.dup":
				if ns == 0 {
					continue
				}
				j := t.Choose(ns, "c11.mem.i")
				if m.Signatures[j] == nil {
					m.Signatures = append(m.Signatures, nil)
				} else {
					c := *m.Signatures[j]
					m.Signatures = append(m.Signatures, &c)
				}
			case "sig.reorder":
				if ns < 2 {
					continue
				}
				a := t.Choose(ns, "c11.mem.i")
				b := (a + 1 + t.Choose(ns-1, "c11.mem.j")) % ns
				m.Signatures[a], m.Signatures[b] = m.Signatures[b], m.Signatures[a]
			case "sig.surplus":
				m.Signatures = append(m.Signatures, &cose.Signature{Headers: cose.Headers{Protected: cose.ProtectedHeader{cose.HeaderLabelAlgorithm: cose.AlgorithmES256}}, Signature: t.Bytes(64, "c11.surplus")})
			case "sig.empty":
				if ns == 0 {
					continue
				}
				j := t.Choose(ns, "c11.mem.i")
				if m.Signatures[j] != nil {
					c := *m.Signatures[j]
					c.Signature = [][]byte{nil, {}}[t.Choose(2, "c11.mem.emptykind")]
					m.Signatures[j] = &c
				}
			case "sig.corrupt":
				if ns == 0 {
					continue
				}
				j := t.Choose(ns, "c11.mem.i")
				if m.Signatures[j] != nil && len(m.Signatures[j].Signature) > 0 {
					c := *m.Signatures[j]
					c.Signature = append([]byte{}, c.Signature...)
					c.Signature[t.Choose(len(c.Signature), "c11.mem.pos")] ^= 1 << uint(t.Choose(8, "c11.mem.bit"))
					m.Signatures[j] = &c
				}
			case "sig.nil":
				if ns == 0 {
					continue
				}
				m.Signatures[t.Choose(ns, "c11.mem.i")] = nil
			}
			r.Fired(kind + "(memory)")
		}
		var ok bool
		st, ok = r.c11FromLib(m)
		if !ok {
			r.Outcome("headers-unencodable")
			return
		}
	}
	// verifier list: the keys the positions were originally signed with,
	// then edited
	vkeys := append([]*KeyPair{}, keys...)
	edit := "same"
	switch t.Pick([]int{5, 2, 1, 1, 1, 1}, "c11.vlist") {
	case 1:
		if len(vkeys) >= 2 {
			p := t.Perm(len(vkeys), "c11.vlist.perm")
			nk := make([]*KeyPair, len(vkeys))
			for i, j := range p {
				nk[i] = vkeys[j]
			}
			vkeys, edit = nk, "permuted"
		}
	case 2:
		if len(vkeys) > 0 {
			vkeys, edit = vkeys[:t.Choose(len(vkeys), "c11.vlist.short")], "shortened"
		}
	case 3:
		vkeys, edit = append(vkeys, pickCheapKey(t)), "lengthened"
	case 4:
		if len(vkeys) > 0 {
			j := t.Choose(len(vkeys), "c11.vlist.sub")
			if o := otherKey(t, vkeys[j], true); o != nil {
				vkeys[j], edit = o, "substituted"
			}
		}
	case 5:
		// resize to the current number of signatures (after loss/dup)
		for len(vkeys) < len(st.sigs) {
			vkeys = append(vkeys, vkeys[len(vkeys)%max(1, len(keys))])
		}
		vkeys, edit = vkeys[:len(st.sigs)], "resized"
	}
	external := spec.External
	if t.Bool(1, 8, "c11.ext") {
		external = genExternal(t)
	}
	var log []string
	spies := make([]*SpyVerifier, len(vkeys))
	vs := make([]cose.Verifier, len(vkeys))
	for i, k := range vkeys {
		spies[i] = &SpyVerifier{Inner: r.verifierFor(k, false), Alg: cose.Algorithm(k.Alg), Log: &log, Tag: itoa(i)}
		vs[i] = spies[i]
		if refcose.HashFor(k.Alg) != 0 && t.Bool(1, 2, "c11.digestcap") {
			// the seam offers VerifyDigest too, like the built-in verifiers
			vs[i] = DigestSpyVerifier{spies[i]}
		}
	}
	panicAt := -1
	if len(spies) > 0 && t.Bool(1, 12, "c11.verifier.panic") {
		// a verifier that crashes when consulted (a key object torn down, a
		// malformed key): whatever go-cose does with the panic, the message
		// has not been verified
		panicAt = t.Choose(len(spies), "c11.verifier.panic.at")
		spies[panicAt].Fault = "panic"
	}
	var lib error
	r.Lib(func() { lib = m.Verify(external, vs...) })
	lib = r.TakeSeamPanic(lib)
	if panicAt >= 0 && len(spies[panicAt].Calls) > 0 {
		r.Fired("verifier.panic")
	}
	// reference
	want := len(vkeys) == len(st.sigs) && len(st.sigs) > 0
	why := ""
	if panicAt >= 0 {
		want, why = false, fmt.Sprintf("verifier %d panics when consulted", panicAt)
	}
	if !want {
		why = "number of verifiers differs from number of signatures"
	}
	firstBad := -1
	tbss := make([][]byte, len(st.sigs))
	for i := range st.sigs {
		var k *KeyPair
		if i < len(vkeys) {
			k = vkeys[i]
		}
		ok, w, tbs := st.verdict(i, k, external)
		tbss[i] = tbs
		if !ok {
			if firstBad < 0 {
				firstBad = i
			}
			want = false
			if why == "" {
				why = fmt.Sprintf("signature %d: %s", i, w)
			}
		}
	}
	r.Op("VERIFY", "signatures=%d verifiers=%d (%s) decoded=%v -> %s", len(st.sigs), len(vkeys), edit, decoded, errTag(lib))
	r.Outcome(fmt.Sprintf("verify/sigs=%d/vlist=%s/%s", len(st.sigs), edit, whyClass(why)))
	r.Check()
	if (lib == nil) != want {
		if lib == nil {
			r.Fail("sign-verify-accepts/"+whyClass(why), "SignMessage.Verify returned nil although %s\n%d signatures, %d verifiers (%s), faults %v", why, len(st.sigs), len(vkeys), edit, SortedKeys(r.Faults))
		} else {
			r.Fail("sign-verify-rejects-valid", "SignMessage.Verify returned %v although counts agree and every signature is valid under the verifier at its position\n%d signatures, faults %v", lib, len(st.sigs), SortedKeys(r.Faults))
		}
		return
	}
	// positional: calls in order, each offered its own ToBeSigned and signature
	if len(vkeys) == len(st.sigs) {
		for ci, l := range log {
			var idx int
			fmt.Sscanf(l, "verify:%d", &idx)
			if idx != ci {
				r.Fail("verifiers-called-out-of-order", "call %d went to verifier %d", ci, idx)
				break
			}
		}
		for i, s := range spies {
			for _, c := range s.DigestCalls {
				if !bytes.Equal(c.Content, refcose.Digest(refcose.HashFor(int64(s.Alg)), tbss[i])) || !bytes.Equal(c.Signature, st.sigs[i].sig) {
					r.Fail("verifier-offered-foreign-signature/digest", "verifier %d was offered (VerifyDigest) a digest/signature that are not those of signature %d\n got digest: %x\nwant: hash of %s", i, i, c.Content, hexShort(tbss[i]))
				}
			}
			for _, c := range s.Calls {
				if !bytes.Equal(c.Content, tbss[i]) || !bytes.Equal(c.Signature, st.sigs[i].sig) {
					r.Fail("verifier-offered-foreign-signature", "verifier %d was offered content/signature that are not those of signature %d\n got content: %s\nwant content: %s\n got sig: %s\nwant sig: %s",
						i, i, hexShort(c.Content), hexShort(tbss[i]), hexShort(c.Signature), hexShort(st.sigs[i].sig))
				}
			}
			if firstBad >= 0 && i > firstBad && len(s.Calls) > 0 {
				r.Fail("verification-continues-after-failure", "verifier %d was consulted although signature %d had already failed", i, firstBad)
			}
		}
		if firstBad > 0 {
			r.Probe("failure-not-at-position-0")
		}
	} else if len(log) > 0 {
		r.Fail("verifiers-called-despite-count-mismatch", "%d verifiers for %d signatures, yet %d verifier call(s) were made", len(vkeys), len(st.sigs), len(log))
	}
}

// c11Empty: zero signatures or an empty signature can be neither encoded nor
// decoded.
func c11Empty(r *Run, t *tape.Tape) {
	n := t.Choose(5, "c11.n")
	spec := c11Spec(t, n)
	ent := NewEntropy(uint64(t.U32("entropy.seed")))
	// wire form written by the reference encoder (the foreign peer), then
	// one signature emptied / all removed
	var wire []byte
	if n == 0 {
		body := r.foreignLayer(spec.Layer, Knobs{})
		wire = refcbor.Encode(refcbor.Tag(98, refcbor.Array(body.ProtBstr, body.Unprot, refcbor.Bstr(spec.Payload), refcbor.Array())))
	} else {
		w := r.ForeignWire(t, spec, Knobs{}, ent, false, 0, false)
		out, _, ok := SigChannelFault(t, w.B, "sig.empty", nil)
		if !ok {
			r.Skip("could not empty a signature")
		}
		wire = out
	}
	r.Op("DELIVER", "COSE_Sign with n=%d and an empty/no signature: %s", n, hexShort(wire))
	r.Outcome(fmt.Sprintf("empty/n=%d", n))
	var m cose.SignMessage
	var err error
	r.Lib(func() { err = m.UnmarshalCBOR(wire) })
	r.Check()
	if err == nil {
		r.Fail("sign-message-with-empty-signature-decoded", "a COSE_Sign with zero signatures or an empty signature was decoded\nwire: %s", hexShort(wire))
	}
	// in memory
	mm := spec.LibSign(Spelling{T: t}, true)
	for i, s := range mm.Signatures {
		s.Signature = []byte{1, 2, 3}
		_ = i
	}
	if n > 0 {
		if i := t.Choose(n, "c11.empty.i"); t.Bool(1, 4, "c11.empty.noholder") {
			// a slot of make([]*Signature, n) never filled, a holder dropped by a relay
			mm.Signatures[i] = nil
			r.Fired("app.slot-without-holder")
		} else {
			mm.Signatures[i].Signature = [][]byte{nil, {}}[t.Choose(2, "c11.empty.kind")]
		}
	}
	var b []byte
	r.Lib(func() { b, err = mm.MarshalCBOR() })
	if err == nil {
		r.Fail("half-signed-message-encodes", "a COSE_Sign with an empty signature slot (or none) was encoded: %s", hexShort(b))
	}
}
