package sim

import (
	"bytes"
	"sort"
	"strconv"

	"verif/refcbor"
	"verif/tape"
)

// ---------------------------------------------------------------------------
// Byte-level wire / storage faults (need no parse)

var byteFaultKinds = []string{"bitflip", "byteset", "insert", "delete", "truncate", "append", "dupspan"}

// ByteFault applies one byte-level fault chosen by the tape.  It returns the
// damaged copy and the fault kind ("" when the input was left unchanged).
func ByteFault(t *tape.Tape, in []byte) ([]byte, string) {
	kind := byteFaultKinds[t.Choose(len(byteFaultKinds), "bytefault.kind")]
	return byteFaultOfKind(t, in, kind)
}

// ---------------------------------------------------------------------------
// Structural faults: driven by the reference parser's tree.  Protected
// headers (byte strings that wrap a map, first element of a 3- or 4-array)
// are opened so that faults can land inside them; they are re-wrapped when the
// tree is encoded again.

type wrapped struct {
	bstr  *refcbor.Item
	inner *refcbor.Item
}

// MTree is a mutable parse of one wire message.
type MTree struct {
	Root  *refcbor.Item
	wraps []*wrapped
}

// OpenTree parses b (exactly one item) into a mutable tree.
func OpenTree(b []byte) (*MTree, error) {
	it, err := refcbor.ParseOne(b)
	if err != nil {
		return nil, err
	}
	m := &MTree{Root: it.Clone()}
	m.findWraps(m.Root, 0)
	return m, nil
}

func (m *MTree) findWraps(it *refcbor.Item, depth int) {
	if depth > 40 {
		return
	}
	if it.Major == refcbor.MArray && (len(it.Elems) == 3 || len(it.Elems) == 4) {
		p := it.Elems[0]
		if p.Major == refcbor.MBstr && !p.Indef && len(p.Data) > 0 {
			if inner, err := refcbor.ParseOne(p.Data); err == nil && inner.Major == refcbor.MMap {
				m.wraps = append(m.wraps, &wrapped{bstr: p, inner: inner.Clone()})
			}
		}
	}
	for _, e := range it.Elems {
		m.findWraps(e, depth+1)
	}
}

// Bytes re-wraps the opened protected headers and encodes the tree.
func (m *MTree) Bytes() []byte {
	for _, w := range m.wraps {
		w.bstr.Data = refcbor.Encode(w.inner)
	}
	return refcbor.Encode(m.Root)
}

// Site is one item of the tree together with where it hangs.
type Site struct {
	It     *refcbor.Item
	Parent *refcbor.Item // nil for a root (outer root or the map inside a protected header)
	Idx    int
	Wrap   *wrapped // non-nil for the root map of an opened protected header
	Inner  bool     // inside an opened protected header
}

// Sites lists every item in document order, protected-header contents right
// after the byte string that wraps them.
func (m *MTree) Sites() []Site {
	var out []Site
	var walk func(it, parent *refcbor.Item, idx int, inner bool, depth int)
	walk = func(it, parent *refcbor.Item, idx int, inner bool, depth int) {
		out = append(out, Site{It: it, Parent: parent, Idx: idx, Inner: inner})
		if depth > 60 {
			return
		}
		if !inner {
			for _, w := range m.wraps {
				if w.bstr == it {
					out = append(out, Site{It: w.inner, Wrap: w, Inner: true})
					for i, e := range w.inner.Elems {
						walk(e, w.inner, i, true, depth+1)
					}
				}
			}
		}
		for i, e := range it.Elems {
			walk(e, it, i, inner, depth+1)
		}
	}
	walk(m.Root, nil, 0, false, 0)
	return out
}

func (m *MTree) replace(s Site, n *refcbor.Item) {
	switch {
	case s.Parent != nil:
		s.Parent.Elems[s.Idx] = n
	case s.Wrap != nil:
		s.Wrap.inner = n
	default:
		m.Root = n
	}
	// a replaced byte string may have been an opened protected header
	for i, w := range m.wraps {
		if w.bstr == s.It {
			m.wraps = append(m.wraps[:i:i], m.wraps[i+1:]...)
			break
		}
	}
}

var structFaultKinds = []string{"algother", "algtext", "arr2bstr", "digitstr", "rewidth", "typeswap", "elemswap", "bucketmove", "dupkey", "nilswap", "tagwrap", "untag", "indef",
	"keyreorder", "unprot-edit", "arity", "emptybstr", "intedit", "strgrow", "param-inject", "textedit"}

// otherAlgs: algorithm numbers this library has no code for (registered:
// RS256/384/512, ES256K, HMAC, AES-MAC, ...) and numbers at every head-width
// boundary of the CBOR integer encoding.
var otherAlgs = []int64{-257, -257, -258, -259, -256, -255, -47, -46, -45, -44, -24, -25, -26, 4, 5, 6, 7, 14, 15, 23, 24, 25, 26, 255, 256,
	-65535, -65536, -65537, 65535, 65536, -1 << 32, -1<<32 - 1, 1<<32 - 1, 1 << 32, -1 << 63, 1<<63 - 1, -1, 1, -9, -19, -53}

func pickSite(t *tape.Tape, sites []Site, ok func(Site) bool) (Site, bool) {
	var cand []int
	for i, s := range sites {
		if ok(s) {
			cand = append(cand, i)
		}
	}
	if len(cand) == 0 {
		return Site{}, false
	}
	return sites[cand[t.Choose(len(cand), "structfault.site")]], true
}

func replacementItem(t *tape.Tape, old *refcbor.Item) *refcbor.Item {
	opts := []func() *refcbor.Item{
		func() *refcbor.Item { return refcbor.Nil() },
		func() *refcbor.Item { return refcbor.Undefined() },
		func() *refcbor.Item { return refcbor.Bstr(nil) },
		func() *refcbor.Item { return refcbor.Bstr([]byte{0xa0}) },
		func() *refcbor.Item { return refcbor.Tstr("a/b") },
		func() *refcbor.Item { return refcbor.Tstr("") },
		func() *refcbor.Item { return refcbor.Int(genInt(t)) },
		func() *refcbor.Item { return refcbor.Array() },
		func() *refcbor.Item { return refcbor.Array(refcbor.Nil()) },
		func() *refcbor.Item { return refcbor.Array(refcbor.Int(1), refcbor.Int(2), refcbor.Int(3)) },
		func() *refcbor.Item { return refcbor.Map() },
		func() *refcbor.Item { return refcbor.Map(refcbor.Int(1), refcbor.Int(-7)) },
		func() *refcbor.Item { return refcbor.Bool(true) },
		func() *refcbor.Item { return refcbor.Float64(1.5) },
		func() *refcbor.Item { return refcbor.Tag(1, refcbor.Int(0)) },
		func() *refcbor.Item { return &refcbor.Item{Major: refcbor.MUint, Arg: 1 << 63, Width: 8} },
		func() *refcbor.Item { return &refcbor.Item{Major: refcbor.MNint, Arg: 1 << 63, Width: 8} },
		func() *refcbor.Item { return &refcbor.Item{Major: refcbor.MSimple, Arg: 16} },
		func() *refcbor.Item {
			return refcbor.Array(refcbor.Bstr(nil), refcbor.Map(), refcbor.Bstr([]byte{1}))
		},
	}
	for tries := 0; tries < 4; tries++ {
		n := opts[t.Choose(len(opts), "structfault.repl")]()
		if !bytes.Equal(refcbor.Encode(n), refcbor.Encode(old)) {
			return n
		}
	}
	return refcbor.Int(99)
}

// StructFault applies one structural fault of the given kind ("" lets the
// tape choose).  ok is false when the kind does not apply to this tree.
func StructFault(t *tape.Tape, in []byte, kind string) (out []byte, applied string, ok bool) {
	m, err := OpenTree(in)
	if err != nil {
		return nil, "", false
	}
	if kind == "" {
		kind = structFaultKinds[t.Choose(len(structFaultKinds), "structfault.kind")]
	}
	sites := m.Sites()
	isContainer := func(it *refcbor.Item) bool { return it.Major == refcbor.MArray || it.Major == refcbor.MMap }
	switch kind {
	case "rewidth":
		s, found := pickSite(t, sites, func(s Site) bool { return s.It.Major != refcbor.MSimple && !s.It.Indef && s.It.Width < 8 })
		if !found {
			return nil, "", false
		}
		var cands []int
		for _, w := range widths {
			if w > s.It.Width {
				cands = append(cands, w)
			}
		}
		s.It.Width = cands[t.Choose(len(cands), "structfault.width")]
	case "typeswap":
		s, found := pickSite(t, sites, func(s Site) bool { return true })
		if !found {
			return nil, "", false
		}
		m.replace(s, replacementItem(t, s.It))
	case "nilswap":
		s, found := pickSite(t, sites, func(s Site) bool { return s.Parent != nil })
		if !found {
			return nil, "", false
		}
		opts := []*refcbor.Item{refcbor.Nil(), refcbor.Undefined(), refcbor.Bstr(nil)}
		n := opts[t.Choose(3, "structfault.nil")]
		if bytes.Equal(refcbor.Encode(n), refcbor.Encode(s.It)) {
			n = opts[(t.Choose(2, "structfault.nil2")+1)%3]
			if bytes.Equal(refcbor.Encode(n), refcbor.Encode(s.It)) {
				n = refcbor.Undefined()
			}
		}
		m.replace(s, n)
	case "emptybstr":
		s, found := pickSite(t, sites, func(s Site) bool { return s.It.Major == refcbor.MBstr && len(s.It.Data) > 0 })
		if !found {
			return nil, "", false
		}
		m.replace(s, refcbor.Bstr(nil))
	case "elemswap":
		s, found := pickSite(t, sites, func(s Site) bool {
			return (s.It.Major == refcbor.MArray && len(s.It.Elems) >= 2) || (s.It.Major == refcbor.MMap && len(s.It.Elems) >= 4)
		})
		if !found {
			return nil, "", false
		}
		if s.It.Major == refcbor.MArray {
			i := t.Choose(len(s.It.Elems), "structfault.i")
			j := (i + 1 + t.Choose(len(s.It.Elems)-1, "structfault.j")) % len(s.It.Elems)
			s.It.Elems[i], s.It.Elems[j] = s.It.Elems[j], s.It.Elems[i]
		} else {
			// swap the values of two entries
			n := len(s.It.Elems) / 2
			i := t.Choose(n, "structfault.i")
			j := (i + 1 + t.Choose(n-1, "structfault.j")) % n
			s.It.Elems[2*i+1], s.It.Elems[2*j+1] = s.It.Elems[2*j+1], s.It.Elems[2*i+1]
		}
	case "keyreorder":
		s, found := pickSite(t, sites, func(s Site) bool { return s.It.Major == refcbor.MMap && len(s.It.Elems) >= 4 })
		if !found {
			return nil, "", false
		}
		n := len(s.It.Elems) / 2
		perm := t.Perm(n, "structfault.perm")
		els := make([]*refcbor.Item, 0, len(s.It.Elems))
		for _, p := range perm {
			els = append(els, s.It.Elems[2*p], s.It.Elems[2*p+1])
		}
		s.It.Elems = els
	case "dupkey":
		s, found := pickSite(t, sites, func(s Site) bool { return s.It.Major == refcbor.MMap && len(s.It.Elems) >= 2 })
		if !found {
			return nil, "", false
		}
		i := t.Choose(len(s.It.Elems)/2, "structfault.i")
		k := s.It.Elems[2*i].Clone()
		v := s.It.Elems[2*i+1].Clone()
		if t.Bool(1, 2, "structfault.dup.width") {
			widen(t, k)
		}
		if t.Bool(1, 2, "structfault.dup.val") {
			v = replacementItem(t, v)
		}
		pos := t.Choose(len(s.It.Elems)/2+1, "structfault.pos")
		els := append([]*refcbor.Item{}, s.It.Elems[:2*pos]...)
		els = append(els, k, v)
		els = append(els, s.It.Elems[2*pos:]...)
		s.It.Elems = els
	case "bucketmove":
		// move one parameter between the protected map and the unprotected
		// map of the same layer
		type layer struct {
			w      *wrapped
			bstr   *refcbor.Item
			unprot *refcbor.Item
		}
		var layers []layer
		for _, s := range sites {
			if s.It.Major == refcbor.MArray && (len(s.It.Elems) == 3 || len(s.It.Elems) == 4) &&
				s.It.Elems[0].Major == refcbor.MBstr && s.It.Elems[1].Major == refcbor.MMap {
				l := layer{bstr: s.It.Elems[0], unprot: s.It.Elems[1]}
				for _, w := range m.wraps {
					if w.bstr == l.bstr {
						l.w = w
					}
				}
				if (l.w != nil && len(l.w.inner.Elems) > 0) || len(l.unprot.Elems) > 0 {
					layers = append(layers, l)
				}
			}
		}
		if len(layers) == 0 {
			return nil, "", false
		}
		l := layers[t.Choose(len(layers), "structfault.layer")]
		toUnprot := l.w != nil && len(l.w.inner.Elems) > 0 && (len(l.unprot.Elems) == 0 || t.Bool(1, 2, "structfault.dir"))
		if toUnprot {
			i := t.Choose(len(l.w.inner.Elems)/2, "structfault.i")
			k, v := l.w.inner.Elems[2*i], l.w.inner.Elems[2*i+1]
			l.w.inner.Elems = append(l.w.inner.Elems[:2*i:2*i], l.w.inner.Elems[2*i+2:]...)
			l.unprot.Elems = append(l.unprot.Elems, k, v)
		} else {
			i := t.Choose(len(l.unprot.Elems)/2, "structfault.i")
			k, v := l.unprot.Elems[2*i], l.unprot.Elems[2*i+1]
			l.unprot.Elems = append(l.unprot.Elems[:2*i:2*i], l.unprot.Elems[2*i+2:]...)
			if l.w == nil {
				l.w = &wrapped{bstr: l.bstr, inner: refcbor.Map()}
				m.wraps = append(m.wraps, l.w)
			}
			l.w.inner.Elems = append(l.w.inner.Elems, k, v)
		}
	case "tagwrap":
		s, found := pickSite(t, sites, func(s Site) bool { return true })
		if !found {
			return nil, "", false
		}
		tags := []uint64{0, 1, 2, 18, 24, 55799, 98, 61, 17}
		m.replace(s, refcbor.Tag(tags[t.Choose(len(tags), "structfault.tag")], s.It))
	case "untag":
		s, found := pickSite(t, sites, func(s Site) bool { return s.It.Major == refcbor.MTag })
		if !found {
			return nil, "", false
		}
		if t.Bool(1, 2, "structfault.retag") {
			tags := []uint64{18, 98, 17, 97, 96, 16, 19, 61}
			n := tags[t.Choose(len(tags), "structfault.tag")]
			if n == s.It.Arg {
				n++
			}
			s.It.Arg = n
			s.It.Width = 0
			kind = "retag"
		} else {
			m.replace(s, s.It.Elems[0])
		}
	case "indef":
		s, found := pickSite(t, sites, func(s Site) bool {
			return !s.It.Indef && (isContainer(s.It) || s.It.Major == refcbor.MBstr || s.It.Major == refcbor.MTstr)
		})
		if !found {
			return nil, "", false
		}
		s.It.Indef = true
	case "unprot-clear":
		// one unprotected map emptied (benign: the bucket is not signed)
		var maps []*refcbor.Item
		for _, s := range sites {
			if !s.Inner && s.It.Major == refcbor.MArray && (len(s.It.Elems) == 3 || len(s.It.Elems) == 4) &&
				s.It.Elems[0].Major == refcbor.MBstr && s.It.Elems[1].Major == refcbor.MMap && len(s.It.Elems[1].Elems) > 0 {
				maps = append(maps, s.It.Elems[1])
			}
		}
		if len(maps) == 0 {
			return nil, "", false
		}
		maps[t.Choose(len(maps), "structfault.umap")].Elems = nil
	case "unprot-edit":
		// add, remove or alter one parameter of an unprotected map (the second
		// element of a 3- or 4-array whose first is a byte string)
		var maps []*refcbor.Item
		for _, s := range sites {
			if !s.Inner && s.It.Major == refcbor.MArray && (len(s.It.Elems) == 3 || len(s.It.Elems) == 4) &&
				s.It.Elems[0].Major == refcbor.MBstr && s.It.Elems[1].Major == refcbor.MMap {
				maps = append(maps, s.It.Elems[1])
			}
		}
		if len(maps) == 0 {
			return nil, "", false
		}
		um := maps[t.Choose(len(maps), "structfault.umap")]
		switch op := t.Choose(4, "structfault.uop"); {
		case op == 3:
			// a relay that strips the whole unprotected bucket (a0 on the wire)
			um.Elems = nil
		case op == 0 || len(um.Elems) == 0:
			k := refcbor.Tstr("verif-added-" + genText(t, 6))
			if t.Bool(1, 2, "structfault.ukint") {
				k = refcbor.Int(int64(70000 + t.Choose(1000, "structfault.uk")))
			}
			um.Elems = append(um.Elems, k, genValue(t, 2))
		case op == 1:
			i := t.Choose(len(um.Elems)/2, "structfault.i")
			um.Elems = append(um.Elems[:2*i:2*i], um.Elems[2*i+2:]...)
		default:
			i := t.Choose(len(um.Elems)/2, "structfault.i")
			um.Elems[2*i+1] = genValue(t, 2)
		}
	case "param-inject":
		// add a registered header parameter (mostly with a value of the right
		// type) to the protected or unprotected map of some layer: this is
		// what produces IV in one bucket and Partial IV in the other, crit
		// outside the protected bucket, a countersignature in the protected
		// bucket, a second alg ...
		type bucket struct {
			m         *refcbor.Item
			protected bool
			sigobj    *refcbor.Item // a COSE_Signature-shaped sibling to clone as countersignature value
		}
		var buckets []bucket
		var anySig *refcbor.Item
		for _, s := range sites {
			if s.It.Major == refcbor.MArray && (len(s.It.Elems) == 3 || len(s.It.Elems) == 4) &&
				s.It.Elems[0].Major == refcbor.MBstr && s.It.Elems[1].Major == refcbor.MMap {
				if len(s.It.Elems) == 3 && anySig == nil {
					anySig = s.It
				}
				buckets = append(buckets, bucket{m: s.It.Elems[1]})
				for _, w := range m.wraps {
					if w.bstr == s.It.Elems[0] {
						buckets = append(buckets, bucket{m: w.inner, protected: true})
					}
				}
			}
		}
		if len(buckets) == 0 {
			return nil, "", false
		}
		b := buckets[t.Choose(len(buckets), "structfault.bucket")]
		labels := []int64{1, 2, 3, 4, 5, 6, 7, 9, 11, 12, 16, 5, 6}
		lbl := labels[t.Choose(len(labels), "structfault.label")]
		var val *refcbor.Item
		if t.Bool(1, 4, "structfault.param.wrongtype") {
			val = replacementItem(t, refcbor.Nil())
		} else {
			switch lbl {
			case 1:
				val = refcbor.Int([]int64{-7, -8, -35, -37}[t.Choose(4, "structfault.alg")])
			case 2:
				// crit naming a label of the same map when there is one
				if len(b.m.Elems) >= 2 {
					val = refcbor.Array(b.m.Elems[2*t.Choose(len(b.m.Elems)/2, "structfault.critlabel")].Clone())
				} else {
					val = refcbor.Array(refcbor.Int(4))
				}
			case 3, 16:
				val = genContentType(t)
			case 7, 11:
				if anySig != nil {
					val = anySig.Clone()
				} else {
					val = refcbor.Array(refcbor.Bstr(nil), refcbor.Map(), refcbor.Bstr([]byte{1, 2, 3}))
				}
				if t.Bool(1, 3, "structfault.csiglist") {
					val = refcbor.Array(val)
				}
			default:
				val = refcbor.Bstr(t.Bytes(1+t.Choose(8, "structfault.param.n"), "structfault.param"))
			}
		}
		// replace an existing entry with that label, or add one
		replaced := false
		for i := 0; i+1 < len(b.m.Elems); i += 2 {
			if v, ok := b.m.Elems[i].Int64(); ok && b.m.Elems[i].IsInt() && v == lbl {
				b.m.Elems[i+1] = val
				replaced = true
			}
		}
		if !replaced {
			b.m.Elems = append(b.m.Elems, refcbor.Int(lbl), val)
		}
	case "arity":
		s, found := pickSite(t, sites, func(s Site) bool { return isContainer(s.It) })
		if !found {
			return nil, "", false
		}
		step := 1
		if s.It.Major == refcbor.MMap {
			step = 2
		}
		if len(s.It.Elems) >= step && t.Bool(1, 2, "structfault.arity.del") {
			i := t.Choose(len(s.It.Elems)/step, "structfault.i")
			s.It.Elems = append(s.It.Elems[:step*i:step*i], s.It.Elems[step*i+step:]...)
		} else {
			pos := t.Choose(len(s.It.Elems)/step+1, "structfault.pos")
			var add []*refcbor.Item
			if step == 2 {
				add = []*refcbor.Item{refcbor.Int(int64(80000 + t.Choose(100, "structfault.k"))), genValue(t, 1)}
			} else if len(s.It.Elems) > 0 && t.Bool(1, 2, "structfault.arity.clone") {
				add = []*refcbor.Item{s.It.Elems[t.Choose(len(s.It.Elems), "structfault.src")].Clone()}
			} else {
				add = []*refcbor.Item{genValue(t, 1)}
			}
			els := append([]*refcbor.Item{}, s.It.Elems[:step*pos]...)
			els = append(els, add...)
			els = append(els, s.It.Elems[step*pos:]...)
			s.It.Elems = els
		}
	case "intedit":
		s, found := pickSite(t, sites, func(s Site) bool { return s.It.IsInt() })
		if !found {
			return nil, "", false
		}
		n := refcbor.Int(genInt(t))
		if n.Major == s.It.Major && n.Arg == s.It.Arg {
			n = refcbor.Int(int64(s.It.Arg%1000) + 1)
		}
		m.replace(s, n)
	case "algother":
		// the alg parameter of a protected header replaced by the number of
		// another algorithm: registered ones this library has no code for
		// (RS256 and friends, HMAC, AES-MAC), values at every head-width
		// boundary, private-use ones
		s, found := pickSite(t, sites, func(s Site) bool {
			if !s.Inner || s.Parent == nil || s.Parent.Major != refcbor.MMap || s.Idx%2 != 1 || !s.It.IsInt() {
				return false
			}
			k := s.Parent.Elems[s.Idx-1]
			kv, ok := k.Int64()
			return k.IsInt() && ok && kv == 1
		})
		if !found {
			return nil, "", false
		}
		v, _ := s.It.Int64()
		n := otherAlgs[t.Choose(len(otherAlgs), "structfault.algother")]
		if n == v {
			n = -257
		}
		m.replace(s, refcbor.Int(n))
	case "algtext":
		// the alg parameter of a protected header respelt as the registered
		// NAME of the algorithm (a text string is a legal alg value; this
		// library has no built-in algorithm for any name)
		s, found := pickSite(t, sites, func(s Site) bool {
			if !s.Inner || s.Parent == nil || s.Parent.Major != refcbor.MMap || s.Idx%2 != 1 || !s.It.IsInt() {
				return false
			}
			k := s.Parent.Elems[s.Idx-1]
			kv, ok := k.Int64()
			return k.IsInt() && ok && kv == 1
		})
		if !found {
			return nil, "", false
		}
		names := map[int64]string{-7: "ES256", -35: "ES384", -36: "ES512", -8: "EdDSA", -37: "PS256", -38: "PS384", -39: "PS512"}
		v, _ := s.It.Int64()
		name, ok := names[v]
		if !ok {
			name = "X" + strconv.FormatInt(v, 10)
		}
		m.replace(s, refcbor.Tstr(name))
	case "arr2bstr":
		// an array of small unsigned integers replaced by the byte string of
		// the same numbers (what a decoder hands to Go as []byte looks like a
		// slice of numbers too)
		s, found := pickSite(t, sites, func(s Site) bool {
			if s.It.Major != refcbor.MArray || s.It.Indef || len(s.It.Elems) == 0 || len(s.It.Elems) > 16 {
				return false
			}
			for _, e := range s.It.Elems {
				if e.Major != refcbor.MUint || e.Arg > 255 {
					return false
				}
			}
			return true
		})
		if !found {
			return nil, "", false
		}
		b := make([]byte, len(s.It.Elems))
		for i, e := range s.It.Elems {
			b[i] = byte(e.Arg)
		}
		m.replace(s, refcbor.Bstr(b))
	case "digitstr":
		// an integer respelt as the text string of its digits (or back):
		// label 4 and label "4" are different labels, and a crit entry names
		// one of them, not both
		s, found := pickSite(t, sites, func(s Site) bool {
			if s.It.IsInt() {
				v, ok := s.It.Int64()
				return ok && v > -100000 && v < 100000
			}
			if s.It.Major == refcbor.MTstr && len(s.It.Data) > 0 && len(s.It.Data) < 7 {
				_, err := strconv.ParseInt(string(s.It.Data), 10, 64)
				return err == nil
			}
			return false
		})
		if !found {
			return nil, "", false
		}
		if s.It.IsInt() {
			v, _ := s.It.Int64()
			m.replace(s, refcbor.Tstr(strconv.FormatInt(v, 10)))
		} else {
			v, _ := strconv.ParseInt(string(s.It.Data), 10, 64)
			m.replace(s, refcbor.Int(v))
		}
	case "strgrow":
		s, found := pickSite(t, sites, func(s Site) bool {
			return (s.It.Major == refcbor.MBstr || s.It.Major == refcbor.MTstr) && !s.It.Indef
		})
		if !found {
			return nil, "", false
		}
		c := s.It.Clone()
		if len(c.Data) > 0 && t.Bool(1, 2, "structfault.str.edit") {
			c.Data[t.Choose(len(c.Data), "structfault.pos")] ^= 0x01
		} else {
			c.Data = append(c.Data, 'x')
		}
		m.replace(s, c)
	case "textedit":
		// a text string (content type, typ, a text label, a claim) cut down to
		// or replaced by the shapes a hand-written text parser trips over:
		// nothing before the first separator, separators only, blanks, NUL,
		// invalid UTF-8, a tail or a head of the original
		s, found := pickSite(t, sites, func(s Site) bool { return s.It.Major == refcbor.MTstr && !s.It.Indef })
		if !found {
			return nil, "", false
		}
		c := s.It.Clone()
		odd := []string{";", ";x", "/", "a/", "/b", ";/", "a;b", "a/b;", "a/b; ", " ", " a/b", "a/b ", "a/b/c", "a//b", "\x00", "a/b\x00", "\xff/\xfe", "+", "a/+", "*/*", ";charset=utf-8", "a/b;;", "\t", "\n", "a\n/b"}
		switch k := t.Choose(4, "structfault.text.how"); {
		case k == 0 && len(c.Data) > 1:
			c.Data = append([]byte{}, c.Data[1+t.Choose(len(c.Data)-1, "structfault.text.cut"):]...)
		case k == 1 && len(c.Data) > 1:
			c.Data = append([]byte{}, c.Data[:t.Choose(len(c.Data), "structfault.text.keep")]...)
		case k == 2 && len(c.Data) > 0:
			// every letter and digit dropped: what is left is separators
			var kept []byte
			for _, b := range c.Data {
				if !(b >= 'a' && b <= 'z' || b >= 'A' && b <= 'Z' || b >= '0' && b <= '9') {
					kept = append(kept, b)
				}
			}
			c.Data = kept
		default:
			c.Data = []byte(odd[t.Choose(len(odd), "structfault.text.odd")])
		}
		c.Arg = uint64(len(c.Data))
		m.replace(s, c)
	default:
		return nil, "", false
	}
	out = m.Bytes()
	if bytes.Equal(out, in) {
		return nil, "", false
	}
	return out, kind, true
}

// ---------------------------------------------------------------------------
// Slots: the COSE fields of a wire message, for splice faults.

// Slot is one COSE field inside a wire tree.
type Slot struct {
	Arr  *refcbor.Item
	Idx  int
	Role string // "prot", "unprot", "payload", "sig", "sigobj" (a whole 3-array)
	Of   string // "msg" (4-array) or "sigobj" (3-array)
}

// Slots lists the COSE fields of every 4-array and 3-array shaped like a COSE
// structure (first element byte string, second map).
func (m *MTree) Slots() []Slot {
	var out []Slot
	for _, s := range m.Sites() {
		it := s.It
		if s.Inner || it.Major != refcbor.MArray {
			continue
		}
		if !(len(it.Elems) == 3 || len(it.Elems) == 4) || it.Elems[0].Major != refcbor.MBstr || it.Elems[1].Major != refcbor.MMap {
			continue
		}
		of := "msg"
		if len(it.Elems) == 3 {
			of = "sigobj"
			if s.Parent != nil {
				out = append(out, Slot{Arr: s.Parent, Idx: s.Idx, Role: "sigobj", Of: of})
			}
		}
		out = append(out, Slot{Arr: it, Idx: 0, Role: "prot", Of: of}, Slot{Arr: it, Idx: 1, Role: "unprot", Of: of})
		if len(it.Elems) == 4 {
			out = append(out, Slot{Arr: it, Idx: 2, Role: "payload", Of: of})
			if it.Elems[3].Major == refcbor.MBstr {
				out = append(out, Slot{Arr: it, Idx: 3, Role: "sig", Of: of})
			}
		} else if it.Elems[2].Major == refcbor.MBstr {
			out = append(out, Slot{Arr: it, Idx: 2, Role: "sig", Of: of})
		}
	}
	return out
}

// Splice replaces one field of message a by the same-role field of message b
// (possibly across structure kinds).  It returns the result, a description,
// and whether anything changed.
func Splice(t *tape.Tape, a, b []byte) ([]byte, string, bool) {
	ma, err := OpenTree(a)
	if err != nil {
		return nil, "", false
	}
	mb, err := OpenTree(b)
	if err != nil {
		return nil, "", false
	}
	sa, sb := ma.Slots(), mb.Slots()
	roles := []string{"prot", "unprot", "payload", "sig", "sigobj"}
	role := roles[t.Pick([]int{3, 1, 2, 4, 2}, "splice.role")]
	var ca, cb []Slot
	for _, s := range sa {
		if s.Role == role {
			ca = append(ca, s)
		}
	}
	for _, s := range sb {
		if s.Role == role {
			cb = append(cb, s)
		}
	}
	if len(ca) == 0 || len(cb) == 0 {
		return nil, "", false
	}
	x := ca[t.Choose(len(ca), "splice.dst")]
	y := cb[t.Choose(len(cb), "splice.src")]
	src := y.Arr.Elems[y.Idx].Clone()
	// a spliced protected header must be re-read from the donor's wrap
	for _, w := range mb.wraps {
		if w.bstr == y.Arr.Elems[y.Idx] {
			src.Data = refcbor.Encode(w.inner)
		}
	}
	old := x.Arr.Elems[x.Idx]
	for i, w := range ma.wraps {
		if w.bstr == old {
			ma.wraps = append(ma.wraps[:i:i], ma.wraps[i+1:]...)
			break
		}
	}
	x.Arr.Elems[x.Idx] = src
	out := ma.Bytes()
	if bytes.Equal(out, a) {
		return nil, "", false
	}
	return out, "splice:" + role + ":" + y.Of + ">" + x.Of, true
}

// ---------------------------------------------------------------------------
// Channel faults on the COSE_Signature elements of a COSE_Sign

var sigChannelKinds = []string{"sig.loss", "sig.dup", "sig.reorder", "sig.surplus", "sig.empty", "sig.corrupt"}

// SigChannelFault treats the signatures array of a tagged COSE_Sign as a
// lossy channel.  donor (optional) supplies a surplus element.
func SigChannelFault(t *tape.Tape, in []byte, kind string, donor []byte) ([]byte, string, bool) {
	m, err := OpenTree(in)
	if err != nil {
		return nil, "", false
	}
	root := m.Root
	if root.Major == refcbor.MTag {
		root = root.Elems[0]
	}
	if root.Major != refcbor.MArray || len(root.Elems) != 4 || root.Elems[3].Major != refcbor.MArray {
		return nil, "", false
	}
	sa := root.Elems[3]
	n := len(sa.Elems)
	if kind == "" {
		kind = sigChannelKinds[t.Choose(len(sigChannelKinds), "sigfault.kind")]
	}
	switch kind {
	case "sig.loss":
		if n == 0 {
			return nil, "", false
		}
		i := t.Choose(n, "sigfault.i")
		sa.Elems = append(sa.Elems[:i:i], sa.Elems[i+1:]...)
	case "sig.dup":
		if n == 0 {
			return nil, "", false
		}
		i := t.Choose(n, "sigfault.i")
		pos := t.Choose(n+1, "sigfault.pos")
		els := append([]*refcbor.Item{}, sa.Elems[:pos]...)
		els = append(els, sa.Elems[i].Clone())
		sa.Elems = append(els, sa.Elems[pos:]...)
	case "sig.reorder":
		if n < 2 {
			return nil, "", false
		}
		i := t.Choose(n, "sigfault.i")
		j := (i + 1 + t.Choose(n-1, "sigfault.j")) % n
		sa.Elems[i], sa.Elems[j] = sa.Elems[j], sa.Elems[i]
	case "sig.surplus":
		var extra *refcbor.Item
		if dm, err := OpenTree(donor); err == nil {
			for _, s := range dm.Slots() {
				if s.Role == "sigobj" {
					extra = s.Arr.Elems[s.Idx].Clone()
					break
				}
			}
		}
		if extra == nil {
			extra = refcbor.Array(refcbor.Bstr(nil), refcbor.Map(), refcbor.Bstr([]byte{1, 2, 3}))
		}
		pos := t.Choose(n+1, "sigfault.pos")
		els := append([]*refcbor.Item{}, sa.Elems[:pos]...)
		els = append(els, extra)
		sa.Elems = append(els, sa.Elems[pos:]...)
	case "sig.empty":
		var cands []int
		for i, e := range sa.Elems {
			if e.Major == refcbor.MArray && len(e.Elems) == 3 && e.Elems[2].Major == refcbor.MBstr && len(e.Elems[2].Data) > 0 {
				cands = append(cands, i)
			}
		}
		if len(cands) == 0 {
			return nil, "", false
		}
		// the empty byte string in any of its five spellings (40, 58 00,
		// 59 0000, 5a 00000000, 5b 00..00): a decoder that does not insist on
		// shortest heads reads every one of them as "no signature"
		empty := refcbor.Bstr(nil)
		empty.Width = widths[t.Choose(len(widths), "sigfault.empty.width")]
		sa.Elems[cands[t.Choose(len(cands), "sigfault.i")]].Elems[2] = empty
	case "sig.corrupt":
		var cands []int
		for i, e := range sa.Elems {
			if e.Major == refcbor.MArray && len(e.Elems) == 3 && e.Elems[2].Major == refcbor.MBstr && len(e.Elems[2].Data) > 0 {
				cands = append(cands, i)
			}
		}
		if len(cands) == 0 {
			return nil, "", false
		}
		s := sa.Elems[cands[t.Choose(len(cands), "sigfault.i")]].Elems[2]
		s.Data = append([]byte{}, s.Data...)
		s.Data[t.Choose(len(s.Data), "sigfault.pos")] ^= 1 << uint(t.Choose(8, "sigfault.bit"))
	default:
		return nil, "", false
	}
	out := m.Bytes()
	if bytes.Equal(out, in) {
		return nil, "", false
	}
	return out, kind, true
}

// ---------------------------------------------------------------------------
// Swarm: the fault mix of one run

// FaultMix is the subset of wire fault kinds enabled for one run.
type FaultMix struct {
	Byte   []string
	Struct []string
	Splice bool
}

// GenFaultMix enables a random subset of the catalogue (swarm testing).
func GenFaultMix(t *tape.Tape) FaultMix {
	var fm FaultMix
	for _, k := range byteFaultKinds {
		if t.Bool(1, 2, "mix.byte") {
			fm.Byte = append(fm.Byte, k)
		}
	}
	for _, k := range structFaultKinds {
		if t.Bool(3, 5, "mix.struct") {
			fm.Struct = append(fm.Struct, k)
		}
	}
	fm.Splice = t.Bool(1, 2, "mix.splice")
	if len(fm.Byte) == 0 && len(fm.Struct) == 0 {
		fm.Struct = append([]string{}, structFaultKinds...)
	}
	sort.Strings(fm.Byte)
	sort.Strings(fm.Struct)
	return fm
}

// WireFault applies one fault from the mix (structural when possible, byte
// level otherwise).  It reports the kind applied ("" if nothing changed).
func (fm FaultMix) WireFault(t *tape.Tape, in []byte) ([]byte, string) {
	useStruct := len(fm.Struct) > 0 && (len(fm.Byte) == 0 || t.Bool(2, 3, "wirefault.struct"))
	if useStruct {
		for tries := 0; tries < 3; tries++ {
			k := fm.Struct[t.Choose(len(fm.Struct), "wirefault.skind")]
			if out, applied, ok := StructFault(t, in, k); ok {
				return out, applied
			}
		}
	}
	if len(fm.Byte) > 0 {
		kind := fm.Byte[t.Choose(len(fm.Byte), "wirefault.bkind")]
		return byteFaultOfKind(t, in, kind)
	}
	return ByteFault(t, in)
}

func byteFaultOfKind(t *tape.Tape, in []byte, kind string) ([]byte, string) {
	b := append([]byte{}, in...)
	if len(b) == 0 {
		return append(b, 0x00), "append"
	}
	switch kind {
	case "bitflip":
		i := t.Choose(len(b), "bytefault.pos")
		b[i] ^= 1 << uint(t.Choose(8, "bytefault.bit"))
	case "byteset":
		i := t.Choose(len(b), "bytefault.pos")
		vals := []byte{0x00, 0xff, 0xf6, 0xf7, 0x40, 0xa0, 0x80, 0x5f, 0x9f, 0xbf, 0x18, 0x1f, 0xc0}
		v := vals[t.Choose(len(vals), "bytefault.val")]
		if b[i] == v {
			v ^= 0x55
		}
		b[i] = v
	case "insert":
		i := t.Choose(len(b)+1, "bytefault.pos")
		v := byte(t.Choose(256, "bytefault.val"))
		b = append(b[:i], append([]byte{v}, b[i:]...)...)
	case "delete":
		i := t.Choose(len(b), "bytefault.pos")
		b = append(b[:i], b[i+1:]...)
	case "truncate":
		b = b[:t.Choose(len(b), "bytefault.len")]
	case "append":
		n := 1 + t.Choose(4, "bytefault.n")
		b = append(b, t.Bytes(n, "bytefault.tail")...)
	case "dupspan":
		i := t.Choose(len(b), "bytefault.pos")
		n := 1 + t.Choose(min(8, len(b)-i), "bytefault.n")
		span := append([]byte{}, b[i:i+n]...)
		b = append(b[:i+n], append(span, b[i+n:]...)...)
	}
	if bytes.Equal(b, in) {
		return b, ""
	}
	return b, kind
}
