// Command cosesim is the simulator worker.  It is rebuilt by the driver from
// /repo's working tree (or from an instrumented scratch copy of it) for every
// check, so that the code under test is always the code on disk.
package main

import (
	"encoding/json"
	"flag"
	"fmt"
	"os"
	"strings"
	"time"

	"verif/sim"
)

func readKnown(path string) map[string]bool {
	known := map[string]bool{}
	if path == "" {
		return known
	}
	b, err := os.ReadFile(path)
	if err != nil {
		fmt.Fprintln(os.Stderr, "cosesim: known file:", err)
		os.Exit(2)
	}
	var sigs []string
	if err := json.Unmarshal(b, &sigs); err != nil {
		fmt.Fprintln(os.Stderr, "cosesim: known file:", err)
		os.Exit(2)
	}
	for _, s := range sigs {
		known[s] = true
	}
	return known
}

func main() {
	if len(os.Args) < 2 {
		fmt.Fprintln(os.Stderr, "usage: cosesim run|replay|minimise ...")
		os.Exit(2)
	}
	cmd := os.Args[1]
	fs := flag.NewFlagSet(cmd, flag.ExitOnError)
	prop := fs.String("prop", "", "property id")
	tier := fs.String("tier", "quick", "tier")
	seed := fs.Uint64("seed", 1, "VERIF_SEED")
	start := fs.Int("start", 0, "first run index")
	count := fs.Int("count", 1, "number of runs")
	knownPath := fs.String("known", "", "JSON list of known-finding signatures")
	out := fs.String("out", "", "result file")
	logPath := fs.String("log", "", "event log file (determinism self-test)")
	file := fs.String("file", "", "replay file")
	budget := fs.Int("budget", 3000, "minimiser re-execution budget")
	hang := fs.Duration("hang", 40*time.Second, "hang watchdog per run")
	fs.Parse(os.Args[2:])
	known := readKnown(*knownPath)

	switch cmd {
	case "info":
		info, ok := sim.Infos[*prop]
		if !ok {
			fmt.Fprintln(os.Stderr, "cosesim: no info for", *prop)
			os.Exit(2)
		}
		b, _ := json.Marshal(info)
		os.Stdout.Write(b)
	case "run":
		progressPath := *out + ".progress"
		pf, _ := os.Create(progressPath)
		sim.StartWatchdog(*hang, func(run int) {
			os.WriteFile(*out+".hang", []byte(fmt.Sprintf("%d\n", run)), 0o644)
		})
		var logTo *strings.Builder
		if *logPath != "" {
			logTo = &strings.Builder{}
		}
		res := sim.RunBatch(*prop, *tier, *seed, *start, *count, known, logTo, func(run int) {
			if pf != nil {
				pf.WriteAt([]byte(fmt.Sprintf("%-12d\n", run)), 0)
			}
		})
		if logTo != nil {
			os.WriteFile(*logPath, []byte(logTo.String()), 0o644)
		}
		if err := sim.WriteJSON(*out, res); err != nil {
			fmt.Fprintln(os.Stderr, "cosesim:", err)
			os.Exit(2)
		}
		os.Remove(progressPath)
	case "tape":
		// prints the recorded tape of one run (used to build replay files for
		// findings made by another build of the worker, e.g. the race build)
		t := sim.TapeOfRun(*prop, *tier, *seed, *start, known)
		b, _ := json.Marshal(t)
		if err := os.WriteFile(*out, b, 0o644); err != nil {
			fmt.Fprintln(os.Stderr, "cosesim:", err)
			os.Exit(2)
		}
	case "replay", "minimise":
		b, err := os.ReadFile(*file)
		if err != nil {
			fmt.Fprintln(os.Stderr, "cosesim:", err)
			os.Exit(2)
		}
		var rf sim.ReplayFile
		if err := json.Unmarshal(b, &rf); err != nil {
			fmt.Fprintln(os.Stderr, "cosesim:", err)
			os.Exit(2)
		}
		sim.StartWatchdog(*hang, func(run int) {
			fmt.Println("HANG while replaying")
		})
		if cmd == "minimise" {
			min := sim.Minimise(rf.Property, rf.Tier, rf.Tape, rf.Signature, known, *budget)
			r := sim.ReplayTape(rf.Property, rf.Tier, min, known, false)
			if r.Viol == nil || r.Viol.Signature != rf.Signature {
				fmt.Fprintln(os.Stderr, "cosesim: minimised tape does not reproduce; keeping the original")
				min = rf.Tape
				r = sim.ReplayTape(rf.Property, rf.Tier, min, known, false)
			}
			rf.OrigLen = len(rf.Tape)
			rf.Tape = min
			rf.Minimised = true
			if r.Viol != nil {
				rf.Detail = r.Viol.Detail
			}
			rf.Trace = r.Trace()
			rf.Faults = sim.SortedKeys(r.Faults)
			if err := sim.WriteJSON(*out, &rf); err != nil {
				fmt.Fprintln(os.Stderr, "cosesim:", err)
				os.Exit(2)
			}
			return
		}
		r := sim.ReplayTape(rf.Property, rf.Tier, rf.Tape, known, true)
		fmt.Printf("replay of %s (property %s, seed %d, run %d, %d tape values)\n", *file, rf.Property, rf.Seed, rf.Run, len(rf.Tape))
		for _, l := range r.Trace() {
			fmt.Println("  op:", l)
		}
		fmt.Println("  faults fired:", strings.Join(sim.SortedKeys(r.Faults), ", "))
		if r.Viol != nil {
			fmt.Printf("  violation: %s\n  %s\n", r.Viol.Signature, strings.ReplaceAll(r.Viol.Detail, "\n", "\n  "))
			if r.Viol.Signature == rf.Signature {
				fmt.Println("REPRODUCED")
				os.Exit(1)
			}
			fmt.Println("DIFFERENT-VIOLATION (expected " + rf.Signature + ")")
			os.Exit(4)
		}
		for _, k := range sim.SortedKeys(r.KnownHits) {
			fmt.Printf("  known finding fired: %s\n", k)
		}
		fmt.Println("NOT-REPRODUCED")
	default:
		fmt.Fprintln(os.Stderr, "cosesim: unknown command", cmd)
		os.Exit(2)
	}
}
