package sim

import (
	"bytes"
	"crypto"
	"crypto/ecdsa"
	"crypto/ed25519"
	"encoding/asn1"
	"math/big"

	cose "github.com/veraison/go-cose"

	"verif/refcbor"
	"verif/refcose"
	"verif/tape"
)

func init() {
	Scenarios["C03"] = scenarioC03
	Infos["C03"] = ScenarioInfo{
		Level: "exploration",
		Rule: "one run = a validly signed message (issued by go-cose or by the foreign peer; Sign1 tagged/untagged, Sign with 1..3 signers, hash envelope; 7 algorithms) crosses a corrupting, replaying channel: " +
			"0..2 faults from a per-run random subset of {bit flip, byte set/insert/delete, truncation, append, span duplication, head re-width, type swap, element swap, parameter moved between buckets, duplicate key, nil/undefined/h'' swap, " +
			"tag wrap/re-tag/untag, indefinite length, key reorder, unprotected edit, arity change, splice of a field from a second message in flight (also across structure kinds), ECDSA signature re-encoded by a middlebox}, " +
			"plus verifier-side faults (substituted key of the same or another algorithm, changed/dropped/added external data); every delivery that still decodes is verified with the built-in verifier and the result compared with " +
			"the reference verdict over the received bytes (lib == nil  <=>  reference valid), and with two lineage invariants that need no crypto oracle (signing input and signature unchanged => accepted; signing input changed and signature unchanged => refused). " +
			"Non-trivial = a delivery decoded and a verdict was compared; distinct = distinct (kinds, fault kinds fired, outcome classes) sequence.",
		Assumptions: []string{"Go crypto verification primitives are correct (shared with go-cose)", "reference Sig_structure and algorithm table per RFC 9052/9053/8230", "faults never forge a signature (a forged one would be judged valid by both sides alike)"},
		Real:        []string{"github.com/veraison/go-cose (decoders, Verify, built-in verifiers)", "github.com/fxamacker/cbor/v2", "Go crypto"},
		Stubs:       []string{"wire with fault injection and replay between messages", "foreign peer (reference model)", "entropy source", "format-translating middlebox"},
		QuickRuns:   300000, ThoroughRuns: 4000000,
	}
}

// sigReencode is the format-translating middlebox: it rewrites a fixed-width
// ECDSA signature into another spelling of the same (r, s).
func sigReencode(t *tape.Tape, sig []byte) ([]byte, string) {
	if len(sig) == 0 || len(sig)%2 != 0 {
		return nil, ""
	}
	n := len(sig) / 2
	rb, sb := sig[:n], sig[n:]
	r, s := new(big.Int).SetBytes(rb), new(big.Int).SetBytes(sb)
	switch t.Choose(6, "reencode.kind") {
	case 5:
		// a middlebox (or an HSM client) that drops leading zero bytes of the
		// whole signature string
		i := 0
		for i < len(sig)-1 && sig[i] == 0 {
			i++
		}
		if i == 0 {
			return nil, ""
		}
		return append([]byte{}, sig[i:]...), "sig.strip-leading-zeros"
	case 0:
		der, err := asn1.Marshal(struct{ R, S *big.Int }{r, s})
		if err != nil {
			return nil, ""
		}
		return der, "sig.reencode.der"
	case 1:
		// strip leading zeros of each half (no-op for most signatures)
		out := append(append([]byte{}, r.Bytes()...), s.Bytes()...)
		return out, "sig.reencode.strip"
	case 2:
		out := append([]byte{0}, rb...)
		out = append(out, 0)
		out = append(out, sb...)
		return out, "sig.reencode.pad"
	case 3:
		return append([]byte{0}, sig...), "sig.reencode.lead0"
	default:
		return append(append([]byte{}, sig...), 0), "sig.reencode.trail0"
	}
}

// reencodeSignatureOnWire applies sigReencode to one signature byte string of
// the message.
func reencodeSignatureOnWire(t *tape.Tape, wire []byte) ([]byte, string) {
	m, err := OpenTree(wire)
	if err != nil {
		return nil, ""
	}
	var sigs []Slot
	for _, s := range m.Slots() {
		if s.Role == "sig" {
			sigs = append(sigs, s)
		}
	}
	if len(sigs) == 0 {
		return nil, ""
	}
	sl := sigs[t.Choose(len(sigs), "reencode.which")]
	out, kind := sigReencode(t, sl.Arr.Elems[sl.Idx].Data)
	if kind == "" || bytes.Equal(out, sl.Arr.Elems[sl.Idx].Data) {
		return nil, ""
	}
	sl.Arr.Elems[sl.Idx] = refcbor.Bstr(out)
	return m.Bytes(), kind
}

func scenarioC03(r *Run) {
	t := r.T
	if t.Bool(1, 8, "c03.envelope") {
		c03Envelope(r)
		return
	}
	if t.Bool(1, 24, "c03.badkey") {
		c03DamagedKey(r)
		return
	}
	fm := GenFaultMix(t)
	ent := NewEntropy(uint64(t.U32("entropy.seed")))
	to := TrafficOpts{Spec: SpecOpts{MaxExtra: 4, MaxSigner: 3, Cheap: t.Bool(2, 3, "c03.cheap"), BigOK: bigOK(r, "c03.big")}, ForeignPct: 30, Detach: true}
	var a *Wire
	switch t.Pick([]int{40, 1, 2, 1}, "c03.source") {
	case 1:
		// a pre-mined RSASSA-PSS message whose signature starts with a zero
		// byte (1 in 256 signatures; found once per process by searching
		// entropy seeds), so that zero-stripping middleboxes have something
		// to strip
		mined := minedRSA()
		a = mined[t.Choose(len(mined), "c03.mined")]
		r.Probe("rsa-signature-with-leading-zero")
	case 2:
		// a byzantine peer that signs over the re-encoded (deterministic)
		// form of its headers while sending them in another encoding
		s := genSpec(t, to.Spec)
		k := genKnobs(t)
		k.SignCanonical = true
		k.Reorder = true
		a = r.ForeignWire(t, s, k, ent, false, 0, false)
		a.Desc = "byzantine peer (signs the re-encoded headers) " + s.Kind.String()
		r.Fired("peer.signs-over-reencoded-headers")
	case 3:
		// a byzantine RSA peer: RSASSA-PSS over the right Sig_structure but
		// with a salt length other than the hash length (RFC 8230 section 2)
		s := genSpec(t, SpecOpts{Kinds: []refcose.Kind{refcose.KSign1Tagged, refcose.KSign1Untagged}, MaxExtra: 2})
		s.Key = poolRSA[t.Choose(len(poolRSA), "c03.pss.key")]
		s.Layer.Prot = append(removeLabel(s.Layer.Prot, refcose.LAlg), KV{refcbor.Uint(refcose.LAlg), refcbor.Int(s.Key.Alg)})
		s.Layer.Prot = removeLabel(s.Layer.Prot, refcose.LCrit)
		k := genKnobs(t)
		hl := refcose.HashFor(s.Key.Alg).Size()
		k.PSSSalt = []int{-1, 1, 20, hl - 1, hl + 1}[t.Choose(5, "c03.pss.salt")]
		a = r.ForeignWire(t, s, k, ent, false, 0, false)
		a.Desc = "byzantine RSA peer (PSS salt length != hash length) " + s.Kind.String()
		r.Fired("peer.pss-salt-length")
	default:
		a = r.GenWire(t, to, ent)
	}
	if a == nil {
		r.Outcome("no-traffic")
		return
	}
	r.Op("ISSUE", "%s: %s", a.Desc, a.Spec)
	spec := a.Spec
	received := a.B
	var donor *Wire
	nf := t.Pick([]int{2, 5, 3}, "c03.nfaults")
	for i := 0; i < nf; i++ {
		switch t.Pick([]int{6, 2, 1}, "c03.faultclass") {
		case 0:
			if out, kind := fm.WireFault(t, received); kind != "" {
				received = out
				r.Fired(kind)
			}
		case 1:
			if donor == nil {
				donor = r.GenWire(t, TrafficOpts{Spec: SpecOpts{MaxExtra: 2, MaxSigner: 2, Cheap: true}, ForeignPct: 30}, ent)
				if donor != nil {
					r.Op("ISSUE", "donor %s", donor.Desc)
				}
			}
			if donor != nil {
				if out, what, ok := Splice(t, received, donor.B); ok {
					received = out
					r.Fired(what)
				}
			}
		default:
			if out, kind := reencodeSignatureOnWire(t, received); kind != "" {
				received = out
				r.Fired(kind)
			}
		}
	}
	// which decoder receives it: normally its own; sometimes the tag is
	// toggled in flight (Sign1 tagged <-> untagged)
	kind := spec.Kind
	if (kind == refcose.KSign1Tagged || kind == refcose.KSign1Untagged) && t.Bool(1, 10, "c03.tagtoggle") {
		if kind == refcose.KSign1Tagged && len(received) > 0 && received[0] == 0xd2 {
			received, kind = received[1:], refcose.KSign1Untagged
			r.Fired("untag18")
		} else if kind == refcose.KSign1Untagged {
			received, kind = append([]byte{0xd2}, received...), refcose.KSign1Tagged
			r.Fired("tag18")
		}
	}
	r.Op("DELIVER", "as %s: %s", kind, hexShort(received))
	rc, err := r.Decode(kind, received)
	if err != nil {
		r.Outcome("not-decodable")
		r.Logf("decode: %s", errTag(err))
		return
	}
	if !bytes.Equal(received, a.B) {
		r.Probe("corrupt-still-decodes")
	}
	// verifier side
	keys := append([]*KeyPair{}, keysOf(spec)...)
	keyChanged := false
	if t.Bool(1, 6, "c03.keysub") {
		i := t.Choose(len(keys), "c03.keysub.i")
		if o := otherKey(t, keys[i], t.Bool(2, 3, "c03.keysub.samealg")); o != nil {
			keys[i] = o
			keyChanged = true
			r.Fired("verifier.key-substituted")
		}
	}
	external := spec.External
	if t.Bool(1, 6, "c03.extchange") {
		external = genExternal(t)
		if !bytes.Equal(external, spec.External) {
			r.Fired("verifier.external-changed")
		} else if (external == nil) != (spec.External == nil) {
			r.Fired("verifier.external-nil-vs-empty(benign)")
		}
	}
	var override []byte
	if a.Detached && rc.Payload() == nil {
		override = append([]byte{}, spec.Payload...)
		rc.SetPayload(override)
	}
	vs := make([]cose.Verifier, len(keys))
	viaDir := t.Bool(1, 4, "c03.viadir") // verifiers obtained from the key directory (COSE_Keys filed under ids of its own)
	for i, k := range keys {
		vs[i] = r.verifierFor(k, viaDir)
	}
	var lib error
	lib = r.VerifyLib(rc, external, vs...)
	r.Logf("verify: %s", errTag(lib))

	ref, perr := RefVerdict(kind, received, keys, external, override)
	r.Check()
	if perr != nil {
		// accepted by the decoder but unreadable for the reference parser:
		// C05's business; here only the safe direction is demanded
		if lib == nil {
			r.Fail("verifies-but-unparsable/"+kind.String(), "Verify returned nil for bytes the reference parser cannot read as %s (%v)\nwire: %s", kind, perr, hexShort(received))
		}
		r.Outcome("ref-unparsable")
		return
	}
	refOK := len(ref) == len(keys) && len(ref) > 0
	why := ""
	if !refOK {
		why = "number of verifiers differs from number of signatures"
	}
	for i, rs := range ref {
		if !rs.Valid {
			refOK = false
			if why == "" {
				why = "signature " + itoa(i) + ": " + rs.Why
			}
		}
	}
	if (lib == nil) != refOK {
		if lib == nil {
			r.Fail("accepts-invalid-signature/"+kind.String()+"/"+whyClass(why),
				"Verify returned nil but the signature is not valid over the received bytes: %s\nfaults: %v\nwire: %s\noriginal: %s\nspec: %s", why, SortedKeys(r.Faults), hexShort(received), hexShort(a.B), spec)
		} else {
			r.Fail("rejects-valid-signature/"+kind.String(),
				"Verify returned %v but every signature is valid over the received bytes under the given keys and external data\nfaults: %v\nwire: %s\noriginal: %s\nspec: %s", lib, SortedKeys(r.Faults), hexShort(received), hexShort(a.B), spec)
		}
		return
	}
	if lib == nil {
		r.Outcome("accepted")
		if !bytes.Equal(received, a.B) {
			r.Probe("corrupt-still-verifies(benign)")
		}
		if t.Bool(1, 3, "c03.tamper-in-place") {
			// the accepted message object is damaged in memory afterwards (a
			// signature or payload octet changed in place: same slices, same
			// lengths) and shown to the SAME verifier objects again: an
			// earlier acceptance decides nothing about the bytes held now
			var target []byte
			what := "signature"
			switch {
			case rc.MS != nil && len(rc.MS.Signatures) > 0:
				target = rc.MS.Signatures[t.Choose(len(rc.MS.Signatures), "c03.tip.sig")].Signature
			case rc.M1 != nil:
				target = rc.M1.Signature
			}
			if pl := rc.Payload(); len(pl) > 0 && t.Bool(1, 3, "c03.tip.payload") {
				target, what = pl, "payload"
			}
			if len(target) > 0 {
				i := t.Choose(len(target), "c03.tip.pos")
				target[i] ^= 1 << uint(t.Choose(8, "c03.tip.bit"))
				r.Fired("app.tampers-accepted-message-in-place/" + what)
				again := r.VerifyLib(rc, external, vs...)
				r.Check()
				// a flipped signature bit can, for ECDSA, never give another valid signature of the same content under the same key except by a collision of negligible probability; a payload bit changes the digest
				if again == nil {
					r.Fail("accepts-invalid-signature/"+kind.String()+"/after-in-place-change-of-accepted-message", "Verify returned nil for a message object whose %s was changed in place (octet %d) after the same verifier objects had accepted it\nwire as received: %s", what, i, hexShort(received))
					return
				}
			}
		}
	} else {
		r.Outcome("refused:" + whyClass(why))
	}

	// lineage invariants (no crypto oracle): compare signing inputs and
	// signature bytes with those of the message as issued
	origRef, oerr := RefVerdict(spec.Kind, a.B, keysOf(spec), spec.External, detachedPayload(a))
	if oerr != nil || kind != spec.Kind && !(isSign1(kind) && isSign1(spec.Kind)) {
		return
	}
	for _, o := range origRef {
		if !o.Valid {
			return // not validly signed as issued (byzantine peer): no lineage to speak of
		}
	}
	r.Check()
	if len(origRef) == len(ref) && !keyChanged {
		allSame, anyChangedWithSameSig := true, false
		for i := range ref {
			sameTBS := bytes.Equal(ref[i].TBS, origRef[i].TBS)
			sameSig := bytes.Equal(ref[i].SigBytes, origRef[i].SigBytes)
			if !sameTBS || !sameSig {
				allSame = false
			}
			if !sameTBS && sameSig && len(ref[i].SigBytes) > 0 {
				anyChangedWithSameSig = true
			}
		}
		payloadThere := rc.Payload() != nil
		if allSame && payloadThere && lib != nil {
			r.Fail("benign-change-breaks-verification/"+kind.String(),
				"signing input and signature bytes of every signature are unchanged, yet Verify returned %v\nfaults: %v\nwire: %s\noriginal: %s", lib, SortedKeys(r.Faults), hexShort(received), hexShort(a.B))
		}
		if anyChangedWithSameSig && lib == nil {
			r.Fail("signed-bytes-changed-still-verifies/"+kind.String(),
				"protected bytes, payload or external data changed while the signature bytes did not, yet Verify returned nil\nfaults: %v\nwire: %s\noriginal: %s", SortedKeys(r.Faults), hexShort(received), hexShort(a.B))
		}
		if allSame {
			r.Probe("lineage-benign")
		}
		if anyChangedWithSameSig {
			r.Probe("lineage-signed-bytes-changed")
		}
	}
}

func isSign1(k refcose.Kind) bool { return k == refcose.KSign1Tagged || k == refcose.KSign1Untagged }

func detachedPayload(w *Wire) []byte {
	if w.Detached {
		return w.Spec.Payload
	}
	return nil
}

func itoa(i int) string {
	if i == 0 {
		return "0"
	}
	neg := i < 0
	if neg {
		i = -i
	}
	var b []byte
	for i > 0 {
		b = append([]byte{byte('0' + i%10)}, b...)
		i /= 10
	}
	if neg {
		b = append([]byte{'-'}, b...)
	}
	return string(b)
}

// whyClass reduces a reference explanation to a class for signatures/shapes.
func whyClass(why string) string {
	switch {
	case why == "":
		return "valid"
	case contains(why, "payload missing"):
		return "payload-missing"
	case contains(why, "empty signature"):
		return "empty-signature"
	case contains(why, "alg absent"):
		return "alg-absent-no-external"
	case contains(why, "alg is not"):
		return "alg-not-int"
	case contains(why, "alg differs"):
		return "alg-mismatch"
	case contains(why, "cryptographically"):
		return "crypto-invalid"
	case contains(why, "number of verifiers"):
		return "count-mismatch"
	case contains(why, "no verifier"):
		return "count-mismatch"
	case contains(why, "panics when consulted"):
		return "verifier-panics"
	}
	return "other"
}

func contains(s, sub string) bool { return bytes.Contains([]byte(s), []byte(sub)) }

// c03Envelope: VerifyHashEnvelope on damaged envelopes returns a message only
// if the signature is valid over the received bytes.
func c03Envelope(r *Run) {
	t := r.T
	k := pickKey(t)
	ha := []int64{refcose.AlgSHA256, refcose.AlgSHA384, refcose.AlgSHA512}[t.Choose(3, "env.hash")]
	p := cose.HashEnvelopePayload{HashAlgorithm: cose.Algorithm(ha), HashValue: t.Bytes(refcose.HashLen(ha), "env.digest")}
	if t.Bool(1, 2, "env.ct") {
		p.PreimageContentType = "application/spdx+json"
	}
	if t.Bool(1, 2, "env.loc") {
		p.Location = "https://example.test/x"
	}
	base := envelopeSafe(genLayer(t, LayerOpts{MaxExtra: 3}))
	ent := NewEntropy(uint64(t.U32("entropy.seed")))
	signer := r.signerFor(k, false)
	h := libHeaders(base, Spelling{T: t}, true)
	var env []byte
	var err error
	r.Lib(func() { env, err = cose.SignHashEnvelope(ent, signer, h, p) })
	r.Op("ENVELOPE", "key=%s hash=%d", k.Name, ha)
	if err != nil {
		r.Outcome("envelope-refused")
		return
	}
	fm := GenFaultMix(t)
	received := env
	for i, nf := 0, t.Pick([]int{1, 5, 3}, "c03.nfaults"); i < nf; i++ {
		if t.Bool(1, 8, "c03.env.reencode") {
			if out, kind := reencodeSignatureOnWire(t, received); kind != "" {
				received = out
				r.Fired(kind)
				continue
			}
		}
		if out, kind := fm.WireFault(t, received); kind != "" {
			received = out
			r.Fired(kind)
		}
	}
	key := k
	if t.Bool(1, 6, "c03.keysub") {
		if o := otherKey(t, k, t.Bool(2, 3, "c03.keysub.samealg")); o != nil {
			key = o
			r.Fired("verifier.key-substituted")
		}
	}
	verifier := r.verifierFor(key, false)
	r.Op("DELIVER", "envelope %s", hexShort(received))
	var msg *cose.Sign1Message
	var lib error
	r.Lib(func() { msg, lib = cose.VerifyHashEnvelope(verifier, received) })
	r.Check()
	if lib == nil {
		ref, perr := RefVerdict(refcose.KSign1Tagged, received, []*KeyPair{key}, nil, nil)
		if perr != nil || len(ref) != 1 || !ref[0].Valid {
			why := "unparsable"
			if perr == nil && len(ref) == 1 {
				why = ref[0].Why
			}
			r.Fail("envelope-accepts-invalid-signature/"+whyClass(why), "VerifyHashEnvelope returned a message although the signature is not valid over the received bytes (%s)\nfaults: %v\nwire: %s\noriginal: %s", why, SortedKeys(r.Faults), hexShort(received), hexShort(env))
		}
		if msg == nil {
			r.Fail("envelope-nil-message", "VerifyHashEnvelope returned (nil, nil)")
		}
		r.Outcome("accepted")
		if !bytes.Equal(received, env) {
			r.Probe("corrupt-still-verifies(benign)")
		}
	} else {
		r.Outcome("refused")
		if bytes.Equal(received, env) && key == k {
			r.Fail("envelope-rejects-own-output", "VerifyHashEnvelope refused an undamaged envelope: %v", lib)
		}
	}
}

var _ = ecdsa.Verify

// minedRSA returns, for each 2048-bit RSA pool key, a COSE_Sign1 issued by the
// foreign peer whose PSS signature starts with a zero byte.  Computed once per
// process; a pure function of the key pool (no tape, no clock).
var minedRSACache []*Wire

func minedRSA() []*Wire {
	if minedRSACache != nil {
		return minedRSACache
	}
	for _, k := range poolRSA[:2] {
		a := k.Alg
		spec := &MsgSpec{Kind: refcose.KSign1Tagged, Payload: []byte("mined for a leading zero"), Key: k,
			Layer: Layer{Prot: Bucket{{refcbor.Uint(refcose.LAlg), refcbor.Int(a)}}}}
		prot := refcbor.CanonicalBytes(bucketItem(spec.Layer.Prot, nil))
		tbs := refcose.SigStructure1(prot, nil, spec.Payload)
		for seed := uint64(1); seed < 20000; seed++ {
			sig := foreignSign(k, tbs, NewEntropy(seed))
			if sig[0] != 0 {
				continue
			}
			wire := refcbor.Encode(refcbor.Tag(18, refcbor.Array(refcbor.Bstr(prot), refcbor.Map(), refcbor.Bstr(spec.Payload), refcbor.Bstr(sig))))
			minedRSACache = append(minedRSACache, &Wire{Kind: refcose.KSign1Tagged, Dec: "Sign1Message", B: wire, Spec: spec, Foreign: true,
				Desc: "foreign Sign1Tagged (" + k.Name + ", PSS signature mined for a leading zero byte)"})
			break
		}
	}
	if len(minedRSACache) == 0 {
		panic("harness: no RSA signature with a leading zero found")
	}
	return minedRSACache
}

// c03DamagedKey: the verifier's key store hands out a damaged Go public key
// (truncated or extended Ed25519 key, an EC point with a flipped bit or the
// zero point).  Nothing is valid under such a key: whatever NewVerifier and
// Verify do with it - refuse, return an error, panic - Verify must not return
// nil, neither for the genuine signature nor for a forged one.
func c03DamagedKey(r *Run) {
	t := r.T
	ent := NewEntropy(uint64(t.U32("entropy.seed")))
	var k *KeyPair
	if t.Bool(1, 2, "c03.badkey.ed") {
		k = poolEd[t.Choose(len(poolEd), "c03.badkey.k")]
	} else {
		k = poolEC[t.Choose(len(poolEC), "c03.badkey.k")]
	}
	var bad crypto.PublicKey
	what := ""
	switch pub := k.Pub.(type) {
	case ed25519.PublicKey:
		switch t.Choose(5, "c03.badkey.kind") {
		case 0:
			bad, what = ed25519.PublicKey(nil), "ed25519-nil"
		case 1:
			bad, what = ed25519.PublicKey{}, "ed25519-empty"
		case 2:
			bad, what = append(ed25519.PublicKey{}, pub[:31]...), "ed25519-31-bytes"
		case 3:
			bad, what = append(append(ed25519.PublicKey{}, pub...), 0), "ed25519-33-bytes"
		default:
			bad, what = append(append(ed25519.PublicKey{}, pub...), pub...), "ed25519-64-bytes"
		}
	case *ecdsa.PublicKey:
		cp := &ecdsa.PublicKey{Curve: pub.Curve, X: new(big.Int).Set(pub.X), Y: new(big.Int).Set(pub.Y)}
		switch t.Choose(3, "c03.badkey.kind") {
		case 0:
			cp.Y.Xor(cp.Y, big.NewInt(1<<uint(t.Choose(60, "c03.badkey.bit"))))
			what = "ec-y-bitflip"
		case 1:
			cp.X.Add(cp.X, big.NewInt(1))
			what = "ec-x-plus-one"
		default:
			cp.X, cp.Y = new(big.Int), new(big.Int)
			what = "ec-zero-point"
		}
		if cp.Curve.IsOnCurve(cp.X, cp.Y) {
			r.Outcome("badkey-still-on-curve")
			return
		}
		bad = cp
	}
	spec := genSpec(t, SpecOpts{Kinds: []refcose.Kind{refcose.KSign1Tagged, refcose.KSign1Untagged}, MaxExtra: 2})
	spec.Key = k
	spec.Layer.Prot = append(removeLabel(spec.Layer.Prot, refcose.LAlg), KV{refcbor.Uint(refcose.LAlg), refcbor.Int(k.Alg)})
	a := r.ForeignWire(t, spec, genKnobs(t), ent, false, 0, false)
	r.Op("KEY_DAMAGED", "%s of %s", what, k.Name)
	r.Outcome("damaged-key/" + what)
	var v cose.Verifier
	var err error
	if lp := call(func() { v, err = cose.NewVerifier(cose.Algorithm(k.Alg), bad) }); lp != nil || err != nil || v == nil {
		r.Check()
		r.Outcome("damaged-key-refused-at-construction")
		return
	}
	rc, derr := r.Decode(spec.Kind, a.B)
	if derr != nil {
		return
	}
	forged := t.Bool(1, 2, "c03.badkey.forged")
	if forged {
		rc.M1.Signature = make([]byte, len(rc.M1.Signature))
	}
	var verr error
	r.Steps++
	lp := call(func() {
		if spec.Kind == refcose.KSign1Untagged {
			verr = (*cose.UntaggedSign1Message)(rc.M1).Verify(spec.External, v)
		} else {
			verr = rc.M1.Verify(spec.External, v)
		}
	})
	r.Check()
	if lp == nil && verr == nil {
		r.Fail("accepts-under-damaged-key/"+what, "Verify returned nil under a public key that is not a valid key (%s); forged signature: %v\nwire: %s", what, forged, hexShort(a.B))
		return
	}
	if lp != nil {
		r.Outcome("damaged-key-panics")
	} else {
		r.Outcome("damaged-key-refused")
	}
}
