package sim

import (
	"bytes"
	"crypto/ecdsa"
	"fmt"
	"math"
	"math/big"

	cose "github.com/veraison/go-cose"

	"verif/refcbor"
	"verif/refcose"
)

// Issued is a message as the issuer (go-cose) produced it.
type Issued struct {
	Spec  *MsgSpec
	M1    *cose.Sign1Message // Sign1 kinds
	MS    *cose.SignMessage  // Sign kind
	Bytes []byte             // wire form (nil until encoded)
}

func hexShort(b []byte) string {
	if len(b) > 96 {
		return fmt.Sprintf("%x..(%dB)", b[:96], len(b))
	}
	return fmt.Sprintf("%x", b)
}

// signerFor returns the built-in signer of a key, optionally obtained through
// the key directory (Go key -> COSE_Key -> bytes -> COSE_Key -> Signer()).
func (r *Run) signerFor(k *KeyPair, viaDirectory bool) cose.Signer {
	// one long-lived Signer object per key and run, as an issuer would keep
	// it: whatever a signer returns must stay valid when it signs again
	ck := fmt.Sprintf("%s/%v", k.Name, viaDirectory)
	if s, ok := r.signers[ck]; ok {
		r.Probe("signer-object-reused")
		return s
	}
	s := r.newSigner(k, viaDirectory)
	if r.signers == nil {
		r.signers = map[string]cose.Signer{}
	}
	r.signers[ck] = s
	return s
}

func (r *Run) newSigner(k *KeyPair, viaDirectory bool) cose.Signer {
	if viaDirectory && directoryEligible(k) {
		var s cose.Signer
		var err error
		r.Lib(func() {
			var ck *cose.Key
			ck, err = cose.NewKeyFromPrivate(k.Priv)
			if err != nil {
				return
			}
			var b []byte
			b, err = ck.MarshalCBOR()
			if err != nil {
				return
			}
			var back cose.Key
			if err = back.UnmarshalCBOR(b); err != nil {
				return
			}
			s, err = back.Signer()
		})
		if err == nil && s != nil {
			r.Probe("key-via-directory")
			return s
		}
		// the key directory failing on a valid key is C14's business
		r.Probe("key-directory-failed")
	}
	var s cose.Signer
	var err error
	if priv, isEC := k.Priv.(*ecdsa.PrivateKey); isEC && r.T.Bool(1, 3, "signer.opaque") {
		// the key lives behind an opaque crypto.Signer (HSM / KMS): go-cose
		// then takes its ASN.1 path
		r.Lib(func() { s, err = cose.NewSigner(cose.Algorithm(k.Alg), &HSM{Key: priv}) })
		r.Probe("signer-behind-crypto.Signer")
	} else if !isEC && r.T.Bool(1, 4, "signer.opaque.other") {
		// RSA and Ed25519 keys can live in a device too
		r.Lib(func() { s, err = cose.NewSigner(cose.Algorithm(k.Alg), &HSM{Key: k.Priv}) })
		r.Probe("signer-behind-crypto.Signer(rsa/ed25519)")
	} else {
		r.Lib(func() { s, err = libSigner(k) })
	}
	if err != nil {
		if panicIsViolation[r.Prop] {
			r.Check()
			r.Fail("signer-cannot-be-built/"+baseName(k.Name), "NewSigner(%d, %s) failed: %v", k.Alg, k.Name, err)
		}
		r.Skip(fmt.Sprintf("NewSigner(%d, %s) failed: %v", k.Alg, k.Name, err))
	}
	if busySeams[r.Prop] && SeamInterludes && r.T.Bool(1, 4, "signer.busy") {
		// an application signer around the built-in one that does COSE work
		// of its own (seamInterlude) before it passes its input on
		s = &SpySigner{Inner: s, Alg: s.Algorithm(), Tag: k.Name}
		r.Fired("seam.reentrant-signer")
	}
	return s
}

// busySeams: worlds that otherwise hand go-cose the built-in signers and
// verifiers as they are; there a quarter of the signers and verifiers are
// wrapped into application objects with an interlude (see seamInterlude).
var busySeams = map[string]bool{"C01": true, "C07": true, "C09": true}

func (r *Run) verifierFor(k *KeyPair, viaDirectory bool) cose.Verifier {
	if viaDirectory && directoryEligible(k) {
		var v cose.Verifier
		var err error
		r.Lib(func() {
			var ck *cose.Key
			ck, err = cose.NewKeyFromPublic(k.Pub)
			if err != nil {
				return
			}
			if r.T.Bool(1, 2, "directory.kid") {
				// the directory files keys under identifiers of its own; what
				// kid a message carries (if any) is the sender's business
				ck.ID = []byte("dir-" + k.Name)
			}
			var b []byte
			b, err = ck.MarshalCBOR()
			if err != nil {
				return
			}
			var back cose.Key
			if err = back.UnmarshalCBOR(b); err != nil {
				return
			}
			v, err = back.Verifier()
		})
		if err == nil && v != nil {
			return v
		}
		r.Probe("key-directory-failed")
	}
	var v cose.Verifier
	var err error
	r.Lib(func() { v, err = libVerifier(k) })
	if err != nil {
		// every key of the pool is a valid key of its algorithm: a verifier
		// that cannot be built for the public half of a key that signs is a
		// failed round trip where the statement promises one, and an abandoned
		// run elsewhere
		if panicIsViolation[r.Prop] {
			r.Check()
			r.Fail("verifier-cannot-be-built/"+baseName(k.Name), "NewVerifier(%d, public key of %s) failed: %v", k.Alg, k.Name, err)
		}
		r.Skip(fmt.Sprintf("NewVerifier(%d, %s) failed: %v", k.Alg, k.Name, err))
	}
	if busySeams[r.Prop] && SeamInterludes && r.T.Bool(1, 4, "verifier.busy") {
		v = &SpyVerifier{Inner: v, Alg: v.Algorithm(), Tag: k.Name}
		r.Fired("seam.reentrant-verifier")
	}
	return v
}

// directoryEligible: COSE_Key fixes the algorithm by the curve, so only keys
// used under their curve's default algorithm can come from the directory.
func directoryEligible(k *KeyPair) bool {
	if k.Curve != nil {
		return k.Alg == algForCurve(k.Curve)
	}
	return k.Alg == -8
}

// LibIssue signs the spec with go-cose through the given signer wrappers.
// wrap may replace a signer (spy, fault); nil keeps the built-in one.
func (r *Run) LibIssue(s *MsgSpec, sp Spelling, typedAlg bool, ent *Entropy, wrap func(i int, k *KeyPair, inner cose.Signer) cose.Signer, viaDir bool) (*Issued, error) {
	is := &Issued{Spec: s}
	mk := func(i int, k *KeyPair) cose.Signer {
		inner := r.signerFor(k, viaDir)
		if wrap != nil {
			return wrap(i, k, inner)
		}
		return inner
	}
	var err error
	// message objects taken from a pool: the signature slots are zero-length
	// slices with some capacity left from an earlier use (legal - only a slot
	// that HOLDS signature bytes is refused)
	recycled := func() []byte {
		if r.RecycledSigCap > 0 {
			return make([]byte, 0, r.RecycledSigCap)
		}
		return nil
	}
	// the application leaves the algorithm to the library
	leave := func(h *cose.Headers, hasAlg bool) {
		if !r.LeaveAlgToLibrary || len(s.External) > 0 || !hasAlg || h.Protected == nil {
			return
		}
		for k := range h.Protected {
			if v, ok := asInt64(k); ok && v == refcose.LAlg {
				delete(h.Protected, k)
				r.Fired("app.alg-left-to-library")
			}
		}
	}
	if s.Kind == refcose.KSignTagged {
		is.MS = s.LibSign(sp, typedAlg)
		for i, sg := range s.Signers {
			leave(&is.MS.Signatures[i].Headers, sg.Layer.Prot.lookup(refcose.LAlg) != nil && sg.Layer.Prot.lookup(refcose.LAlg).IsInt())
		}
		signers := make([]cose.Signer, len(s.Signers))
		for i, sg := range s.Signers {
			signers[i] = mk(i, sg.Key)
			is.MS.Signatures[i].Signature = recycled()
		}
		r.Lib(func() { err = is.MS.Sign(ent, s.External, signers...) })
	} else {
		is.M1 = s.LibSign1(sp, typedAlg)
		leave(&is.M1.Headers, s.Layer.Prot.lookup(refcose.LAlg) != nil && s.Layer.Prot.lookup(refcose.LAlg).IsInt())
		is.M1.Signature = recycled()
		signer := mk(0, s.Key)
		r.Lib(func() { err = is.M1.Sign(ent, s.External, signer) })
	}
	return is, err
}

// Encode marshals the issued message (detached: payload sent as nil).
func (r *Run) Encode(is *Issued, detached bool) ([]byte, error) {
	var b []byte
	var err error
	switch is.Spec.Kind {
	case refcose.KSignTagged:
		m := is.MS
		if detached {
			c := *m
			c.Payload = nil
			m = &c
		}
		r.Lib(func() { b, err = m.MarshalCBOR() })
	case refcose.KSign1Tagged:
		m := is.M1
		if detached {
			c := *m
			c.Payload = nil
			m = &c
		}
		r.Lib(func() { b, err = m.MarshalCBOR() })
	default:
		m := is.M1
		if detached {
			c := *m
			c.Payload = nil
			m = &c
		}
		r.Lib(func() { b, err = (*cose.UntaggedSign1Message)(m).MarshalCBOR() })
	}
	return b, err
}

// Received is a message as decoded by the verifier.
type Received struct {
	Kind refcose.Kind
	M1   *cose.Sign1Message
	MS   *cose.SignMessage
}

// Decode parses wire bytes with the decoder of the given kind.
func (r *Run) Decode(kind refcose.Kind, b []byte) (*Received, error) {
	rc := &Received{Kind: kind}
	var err error
	// the receive buffer: the decoder reads a private copy of the wire bytes,
	// and the application re-uses that buffer straight after the call (here:
	// every octet complemented).  A decoded message shares no memory with it.
	b = append([]byte{}, b...)
	defer scribble(b)
	switch kind {
	case refcose.KSignTagged:
		rc.MS = new(cose.SignMessage)
		r.Lib(func() { err = rc.MS.UnmarshalCBOR(b) })
	case refcose.KSign1Tagged:
		rc.M1 = new(cose.Sign1Message)
		r.Lib(func() { err = rc.M1.UnmarshalCBOR(b) })
	case refcose.KSign1Untagged:
		u := new(cose.UntaggedSign1Message)
		r.Lib(func() { err = u.UnmarshalCBOR(b) })
		rc.M1 = (*cose.Sign1Message)(u)
	default:
		panic("Decode: bad kind")
	}
	if err != nil {
		return nil, err
	}
	if r.Prop != "C18" && r.T.Bool(1, 8, "decode.then-refused-into-same-variable") {
		// the receiver's loop goes on: the next thing it reads into the same
		// variable is refused (the same message with its signature - or its
		// list of signatures - emptied: other header buckets, every item well formed, the
		// refusal comes last).  A refused decode leaves the variable as it was, so the
		// message just received is still what the caller works with.
		if late := lateRefused(b); late != nil {
			var err2 error
			r.Lib(func() {
				switch kind {
				case refcose.KSignTagged:
					err2 = rc.MS.UnmarshalCBOR(late)
				case refcose.KSign1Tagged:
					err2 = rc.M1.UnmarshalCBOR(late)
				default:
					err2 = (*cose.UntaggedSign1Message)(rc.M1).UnmarshalCBOR(late)
				}
			})
			scribble(late)
			if err2 == nil {
				return nil, fmt.Errorf("verif: a message without signature bytes was accepted")
			}
			r.Fired("dest.reuse.refused-late")
		}
	}
	return rc, nil
}

// lateRefused returns the message with an empty signature (COSE_Sign1) or an
// empty list of signatures (COSE_Sign); nil when b is not such a message.
func lateRefused(b []byte) []byte {
	root, err := refcbor.ParseOne(b)
	if err != nil {
		return nil
	}
	arr := root
	if arr.Major == refcbor.MTag && len(arr.Elems) == 1 {
		arr = arr.Elems[0]
	}
	if arr.Major != refcbor.MArray || arr.Indef || len(arr.Elems) != 4 {
		return nil
	}
	// other header buckets than the message just received (short ones, so
	// that they fit whatever storage a decoder might recycle)
	if arr.Elems[0].Major == refcbor.MBstr && arr.Elems[1].Major == refcbor.MMap {
		prot := []byte{0xa1, 0x03, 0x00}
		if bytes.Equal(arr.Elems[0].Data, prot) {
			prot[2] = 0x01
		}
		arr.Elems[0] = refcbor.Bstr(prot)
		arr.Elems[1] = refcbor.Map(refcbor.Uint(4), refcbor.Bstr([]byte{0}))
	}
	switch last := arr.Elems[3]; last.Major {
	case refcbor.MBstr:
		arr.Elems[3] = refcbor.Bstr(nil)
	case refcbor.MArray:
		arr.Elems[3] = refcbor.Array()
	default:
		return nil
	}
	return refcbor.Encode(root)
}

func scribble(b []byte) {
	for i := range b {
		b[i] = ^b[i]
	}
}

// DecodeReusing decodes `earlier` and then `b` into the same destination
// variable (a server recycling its structs) and returns the outcome of the
// second decode.
func (r *Run) DecodeReusing(kind refcose.Kind, earlier, b []byte) (*Received, error) {
	rc := &Received{Kind: kind}
	var err error
	b = append([]byte{}, b...)
	defer scribble(b)
	switch kind {
	case refcose.KSignTagged:
		rc.MS = new(cose.SignMessage)
		r.Lib(func() { rc.MS.UnmarshalCBOR(earlier); err = rc.MS.UnmarshalCBOR(b) })
	case refcose.KSign1Tagged:
		rc.M1 = new(cose.Sign1Message)
		r.Lib(func() { rc.M1.UnmarshalCBOR(earlier); err = rc.M1.UnmarshalCBOR(b) })
	case refcose.KSign1Untagged:
		u := new(cose.UntaggedSign1Message)
		r.Lib(func() { u.UnmarshalCBOR(earlier); err = u.UnmarshalCBOR(b) })
		rc.M1 = (*cose.Sign1Message)(u)
	default:
		panic("DecodeReusing: bad kind")
	}
	if err != nil {
		return nil, err
	}
	return rc, nil
}

// Reencode marshals a received message again.
func (r *Run) Reencode(rc *Received) ([]byte, error) {
	var b []byte
	var err error
	switch rc.Kind {
	case refcose.KSignTagged:
		r.Lib(func() { b, err = rc.MS.MarshalCBOR() })
	case refcose.KSign1Tagged:
		r.Lib(func() { b, err = rc.M1.MarshalCBOR() })
	default:
		r.Lib(func() { b, err = (*cose.UntaggedSign1Message)(rc.M1).MarshalCBOR() })
	}
	return b, err
}

// DropRaw clears the retained raw header bytes of every layer reachable
// without descending into header values.
func (rc *Received) DropRaw() {
	if rc.M1 != nil {
		rc.M1.Headers.RawProtected = nil
		rc.M1.Headers.RawUnprotected = nil
	}
	if rc.MS != nil {
		rc.MS.Headers.RawProtected = nil
		rc.MS.Headers.RawUnprotected = nil
		for _, s := range rc.MS.Signatures {
			if s != nil {
				s.Headers.RawProtected = nil
				s.Headers.RawUnprotected = nil
			}
		}
	}
}

// SetPayload re-attaches a detached payload.
func (rc *Received) SetPayload(p []byte) {
	if rc.M1 != nil {
		rc.M1.Payload = p
	}
	if rc.MS != nil {
		rc.MS.Payload = p
	}
}

// Payload returns the message payload.
func (rc *Received) Payload() []byte {
	if rc.M1 != nil {
		return rc.M1.Payload
	}
	return rc.MS.Payload
}

// VerifyLib verifies a received message with the given verifiers.
func (r *Run) VerifyLib(rc *Received, external []byte, vs ...cose.Verifier) error {
	var err error
	if rc.MS != nil {
		r.Lib(func() { err = rc.MS.Verify(external, vs...) })
	} else if rc.Kind == refcose.KSign1Untagged {
		r.Lib(func() { err = (*cose.UntaggedSign1Message)(rc.M1).Verify(external, vs[0]) })
	} else {
		r.Lib(func() { err = rc.M1.Verify(external, vs[0]) })
	}
	return err
}

// verifiersFor builds the matching built-in verifiers of a spec.
func (r *Run) verifiersFor(s *MsgSpec, viaDir bool) []cose.Verifier {
	if s.Kind == refcose.KSignTagged {
		vs := make([]cose.Verifier, len(s.Signers))
		for i, sg := range s.Signers {
			vs[i] = r.verifierFor(sg.Key, viaDir)
		}
		return vs
	}
	return []cose.Verifier{r.verifierFor(s.Key, viaDir)}
}

// keysOf lists the key pairs of a spec in signature order.
func keysOf(s *MsgSpec) []*KeyPair {
	if s.Kind == refcose.KSignTagged {
		ks := make([]*KeyPair, len(s.Signers))
		for i, sg := range s.Signers {
			ks[i] = sg.Key
		}
		return ks
	}
	return []*KeyPair{s.Key}
}

// RefVerdict computes, from received wire bytes only, whether each signature
// of the message is valid under the given keys/algorithms and external data,
// applying the pre-conditions the properties state (payload present,
// signature non-empty, alg rule).  payloadOverride supplies a detached
// payload.  It returns one verdict per signature, or an error when the bytes
// do not parse as the kind.
type RefSig struct {
	Valid      bool
	Why        string
	TBS        []byte
	ProtAlg    *refcbor.Item // alg entry in the signature's protected bucket (nil: absent)
	SigBytes   []byte
	SignerProt []byte
}

func RefVerdict(kind refcose.Kind, wire []byte, keys []*KeyPair, external []byte, payloadOverride []byte) ([]RefSig, error) {
	m, err := refcose.ParseMsg(kind, wire)
	if err != nil {
		return nil, err
	}
	var payload []byte
	havePayload := false
	if m.Payload.Major == refcbor.MBstr {
		payload, havePayload = m.Payload.Data, true
	}
	if payloadOverride != nil {
		payload, havePayload = payloadOverride, true
	}
	one := func(l refcose.Layer, sig []byte, tbs []byte, k *KeyPair) RefSig {
		rs := RefSig{TBS: tbs, SigBytes: sig, ProtAlg: refcose.Lookup(l.ProtMap, refcose.LAlg), SignerProt: l.ProtBstr.Data}
		switch {
		case !havePayload:
			rs.Why = "payload missing"
		case len(sig) == 0:
			rs.Why = "empty signature"
		case k == nil:
			rs.Why = "no verifier"
		default:
			if why := algRule(rs.ProtAlg, k.Alg, external); why != "" {
				rs.Why = why
			} else if !refcose.ValidSignature(k.Alg, k.Pub, tbs, sig) {
				rs.Why = "signature cryptographically invalid"
			} else {
				rs.Valid = true
			}
		}
		return rs
	}
	if kind == refcose.KSignTagged {
		out := make([]RefSig, len(m.Sigs))
		for i, s := range m.Sigs {
			var k *KeyPair
			if i < len(keys) {
				k = keys[i]
			}
			tbs := refcose.SigStructure(m.ProtBstr.Data, s.ProtBstr.Data, external, payload)
			out[i] = one(s.Layer, s.Signature.Data, tbs, k)
		}
		return out, nil
	}
	var k *KeyPair
	if len(keys) > 0 {
		k = keys[0]
	}
	tbs := refcose.SigStructure1(m.ProtBstr.Data, external, payload)
	return []RefSig{one(m.Layer, m.Signature.Data, tbs, k)}, nil
}

// algRule is the pre-condition of property C04 on the verify side: if the
// protected header has an alg it must equal the verifier's; if it has none,
// external data must be supplied.  "" means the rule is satisfied.
func algRule(protAlg *refcbor.Item, verifierAlg int64, external []byte) string {
	if protAlg == nil {
		if len(external) == 0 {
			return "alg absent and no external data"
		}
		return ""
	}
	if !protAlg.IsInt() {
		return "alg is not an integer"
	}
	v, ok := protAlg.Int64()
	if !ok || v != verifierAlg {
		return "alg differs from the verifier's algorithm"
	}
	return ""
}

func sameBytes(a, b []byte) bool { return bytes.Equal(a, b) }

// dropRawHeaders clears the retained raw bytes of a layer and of every
// countersignature nested in its unprotected bucket.
func dropRawHeaders(h *cose.Headers, depth int) {
	h.RawProtected, h.RawUnprotected = nil, nil
	if depth > 32 {
		return
	}
	for _, label := range []int64{cose.HeaderLabelCounterSignature, cose.HeaderLabelCounterSignatureV2} {
		switch v := h.Unprotected[label].(type) {
		case *cose.Countersignature:
			if v != nil {
				dropRawHeaders(&v.Headers, depth+1)
			}
		case []*cose.Countersignature:
			for _, c := range v {
				if c != nil {
					dropRawHeaders(&c.Headers, depth+1)
				}
			}
		}
	}
}

// DropRawDeep clears the retained raw header bytes of every layer of the
// message, nested countersignatures included.
func (rc *Received) DropRawDeep() {
	if rc.M1 != nil {
		dropRawHeaders(&rc.M1.Headers, 0)
	}
	if rc.MS != nil {
		dropRawHeaders(&rc.MS.Headers, 0)
		for _, s := range rc.MS.Signatures {
			if s != nil {
				dropRawHeaders(&s.Headers, 0)
			}
		}
	}
}

// protectedOfUnprot collects the protected byte strings of the
// countersignatures nested (at any depth) in an unprotected bucket: the values
// of labels 7 and 11, a COSE_Countersignature or a list of them.  Only these
// structural positions count - a header VALUE that merely looks like a
// signature object (say 24: [h'a0', {}, 0]) is data, not a header.
func protectedOfUnprot(unprot *refcbor.Item, depth int, out *[]*refcbor.Item) {
	if unprot == nil || unprot.Major != refcbor.MMap || depth > 32 {
		return
	}
	for _, label := range []int64{refcose.LCsig, refcose.LCsigV2} {
		v := refcose.Lookup(unprot, label)
		if v == nil || v.Major != refcbor.MArray {
			continue
		}
		objs := v.Elems
		if len(v.Elems) == 3 && v.Elems[0].Major == refcbor.MBstr {
			objs = []*refcbor.Item{v}
		}
		for _, o := range objs {
			if o.Major == refcbor.MArray && len(o.Elems) == 3 && o.Elems[0].Major == refcbor.MBstr {
				*out = append(*out, o.Elems[0])
				protectedOfUnprot(o.Elems[1], depth+1, out)
			}
		}
	}
}

// protectedItems lists the protected-header byte strings of an object of the
// given decoder ("Sign1Message", "UntaggedSign1Message", "SignMessage",
// "Signature", "Countersignature", "ProtectedHeader", "UnprotectedHeader";
// anything else: none).
func protectedItems(dec string, b []byte) []*refcbor.Item {
	it, err := refcbor.ParseOne(b)
	if err != nil {
		return nil
	}
	var out []*refcbor.Item
	layer := func(arr *refcbor.Item) {
		if arr.Major == refcbor.MArray && len(arr.Elems) >= 2 && arr.Elems[0].Major == refcbor.MBstr {
			out = append(out, arr.Elems[0])
			protectedOfUnprot(arr.Elems[1], 0, &out)
		}
	}
	switch dec {
	case "Sign1Message", "UntaggedSign1Message", "SignMessage":
		arr := it
		if it.Major == refcbor.MTag {
			arr = it.Elems[0]
		}
		layer(arr)
		if dec == "SignMessage" && arr.Major == refcbor.MArray && len(arr.Elems) == 4 && arr.Elems[3].Major == refcbor.MArray {
			for _, s := range arr.Elems[3].Elems {
				layer(s)
			}
		}
	case "Signature", "Countersignature":
		layer(it)
	case "ProtectedHeader":
		if it.Major == refcbor.MBstr {
			out = append(out, it)
		}
	case "UnprotectedHeader":
		protectedOfUnprot(it, 0, &out)
	}
	return out
}

// nonCanonicalDeep explains why an object go-cose encoded is not in
// deterministic form, looking inside its protected headers too ("" when it is
// canonical).  dec names the decoder the object belongs to.
func nonCanonicalDeep(dec string, b []byte) string {
	if r := refcbor.IsCanonicalBytes(b); r != "" {
		return r
	}
	for _, p := range protectedItems(dec, b) {
		if len(p.Data) == 0 {
			continue
		}
		if bytes.Equal(p.Data, []byte{0xa0}) {
			// an empty protected header must be h'', a0 inside is not what a
			// deterministic encoder of the zero-length header emits
			return "empty protected header spelt h'a0'"
		}
		if r := refcbor.IsCanonicalBytes(p.Data); r != "" {
			return "inside a protected header: " + r
		}
	}
	return ""
}

// bignumBeyondInt64 reports whether the item holds, at any depth, a bignum
// (tag 2 or 3 over a byte string) whose magnitude is above MaxInt64 and fits
// 64 bits: the values that have an 8-byte integer encoding which is outside
// "integers within int64".
func bignumBeyondInt64(it *refcbor.Item) bool {
	if it == nil {
		return false
	}
	if it.Major == refcbor.MTag && (it.Arg == 2 || it.Arg == 3) && len(it.Elems) == 1 && it.Elems[0].Major == refcbor.MBstr {
		n := new(big.Int).SetBytes(it.Elems[0].Data)
		if n.IsUint64() && n.Uint64() > math.MaxInt64 {
			return true
		}
	}
	for _, e := range it.Elems {
		if bignumBeyondInt64(e) {
			return true
		}
	}
	return false
}

func bignumBeyondInt64InProtected(dec string, b []byte) bool {
	for _, p := range protectedItems(dec, b) {
		if len(p.Data) == 0 {
			continue
		}
		if it, err := refcbor.ParseOne(p.Data); err == nil && bignumBeyondInt64(it) {
			return true
		}
	}
	return false
}
