package sim

import (
	"bytes"
	"fmt"
	"math/big"
	"sort"
	"time"

	"github.com/fxamacker/cbor/v2"
	cose "github.com/veraison/go-cose"

	"verif/refcbor"
	"verif/refcose"
	"verif/tape"
)

func init() {
	Scenarios["C08"] = scenarioC08
	Infos["C08"] = ScenarioInfo{
		Level:      "exploration",
		NeedsInstr: true,
		Rule: "one run = one in-memory object of the supported data model (protected / unprotected header, Sign1 tagged/untagged, Sign with 1..3 signers, Signature, Countersignature attached single or as a list, COSE_Key of every type; labels spelt with any of the 10 Go integer types or strings, up to 40 entries, " +
			"nested arrays/maps, maps populated in DESCENDING canonical key order so that an encoder that stops sorting fails on every encode rather than one in n!) encoded K = 6 times, on an instrumented scratch copy in which every range-over-map loop of go-cose follows a permutation drawn from the tape (the schedule dimension the statement names); " +
			"messages are signed through a recording signer and emitted. Oracle: all K encodings byte-equal (and equal across two OS processes at different GOMAXPROCS - the event logs of the determinism self-test carry every emitted byte); everything go-cose generated is deterministic CBOR (shortest heads, definite lengths, sorted unique keys, inside protected headers too); " +
			"the protected bytes inside the recorded ToBeSigned are the protected bytes of the emitted message; closure - the corresponding decoder accepts every byte string an encoder or Sign helper returned and the decoded value re-encodes to the same bytes. " +
			"Map iteration inside fxamacker/cbor and reflect cannot be owned; there the oracle is order-independent and the workload adversarial. Held messages: a decoded message (60 % foreign, non-canonical raw buckets) is encoded, used read-only (Verify, countersignatures verified, Countersign0) and encoded again - same bytes, accepted by the decoder. Non-trivial = an object was encoded and judged; distinct = distinct (object kind, size class, spelling, outcome).",
		Assumptions: []string{"header values stay inside the supported data model (ints within int64, no tags / big numbers)", "float width is not judged (the statement speaks of integers and lengths)"},
		Real:        []string{"github.com/veraison/go-cose (instrumented copy: same statements, map ranges routed through the simulator)", "github.com/fxamacker/cbor/v2"},
		Stubs:       []string{"map-iteration order of go-cose's own loops (tape)", "cose.Signer recording wrapper", "entropy source"},
		QuickRuns:   300000, ThoroughRuns: 5000000,
	}
}

const c08K = 6

// c08Encode encodes K times under fresh map-order permutations and demands
// byte equality.  It returns the bytes (nil when the encoder refuses).
func (r *Run) c08Encode(t *tape.Tape, what string, enc func() ([]byte, error)) []byte {
	var first []byte
	var firstErr error
	for i := 0; i < c08K; i++ {
		var b []byte
		var err error
		r.Lib(func() { b, err = enc() })
		// the application owns what an encoder returned and re-uses it as
		// scratch space once it has sent the bytes: the next encoding of the
		// same value (or of anything else) is not affected
		kept := append([]byte(nil), b...)
		scribble(b)
		if cap(b) > len(b) {
			scribble(b[len(b):cap(b)])
		}
		b = kept
		if i == 0 {
			first, firstErr = b, err
			continue
		}
		r.Check()
		if (err != nil) != (firstErr != nil) {
			r.Fail("encoder-verdict-depends-on-map-order/"+what, "encoding the same %s succeeded on one repetition and failed on another (repetition %d): %v / %v", what, i, firstErr, err)
			return nil
		}
		if err == nil && !bytes.Equal(b, first) {
			r.Fail("encoding-not-deterministic/"+what, "repetition %d of encoding the same %s differs\nfirst: %s\n this: %s", i, what, hexShort(first), hexShort(b))
			return nil
		}
	}
	if firstErr != nil {
		return nil
	}
	r.Check()
	if why := nonCanonicalDeep(decoderNameFor(what), first); why != "" {
		r.Fail("encoding-not-canonical/"+what, "%s encoded by go-cose is not deterministic CBOR: %s\n%s", what, why, hexShort(first))
		return nil
	}
	return first
}

func sizeClass(n int) string {
	switch {
	case n == 0:
		return "0"
	case n < 3:
		return "1-2"
	case n < 8:
		return "3-7"
	case n < 24:
		return "8-23"
	}
	return "24+"
}

func scenarioC08(r *Run) {
	if !HaveInstr {
		panic("C08 needs the worker built against the instrumented copy (-tags verifinstr)")
	}
	t := r.T
	maxExtra := 6
	if t.Bool(1, 4, "c08.many") {
		maxExtra = 40
	}
	sp := Spelling{T: t, Labels: true, Values: true, AlgLabel: true}
	ent := NewEntropy(uint64(t.U32("entropy.seed")))
	switch t.Pick([]int{3, 5, 3, 3, 1, 1, 1, 2}, "c08.object") {
	case 7:
		c08HeldMessage(r, t, ent)
	case 6:
		c08RelayEdit(r, t, ent)
	case 5:
		c08DegenerateCsig(r, t, ent)
	case 4:
		c08GoValues(r, t, ent)
	case 0:
		c08Buckets(r, t, sp, maxExtra)
	case 1:
		c08Message(r, t, sp, maxExtra, ent)
	case 2:
		c08Key(r, t)
	default:
		c08Helpers(r, t, sp, ent)
	}
}

// breakLayer makes a conforming layer break one RFC 9052 section 3.1 rule
// (closure must hold for every header a caller can build: the encoder either
// refuses it or emits something its own decoder accepts).
func breakLayer(t *tape.Tape, l Layer) (Layer, string) {
	put := func(b Bucket, label int64, v *refcbor.Item) Bucket {
		return append(removeLabel(b, label), KV{refcbor.Int(label), v})
	}
	bs := func() *refcbor.Item { return refcbor.Bstr(t.Bytes(1+t.Choose(8, "break.n"), "break.bytes")) }
	switch t.Choose(9, "break.kind") {
	case 0:
		l.Prot = put(put(l.Prot, refcose.LIV, bs()), refcose.LPartialIV, bs())
		return l, "iv+piv-protected"
	case 1:
		l.Unprot = put(put(l.Unprot, refcose.LIV, bs()), refcose.LPartialIV, bs())
		return l, "iv+piv-unprotected"
	case 2:
		l.Prot, l.Unprot = put(removeLabel(l.Prot, refcose.LPartialIV), refcose.LIV, bs()), put(removeLabel(l.Unprot, refcose.LIV), refcose.LPartialIV, bs())
		return l, "iv-protected+piv-unprotected"
	case 3:
		l.Prot, l.Unprot = put(removeLabel(l.Prot, refcose.LIV), refcose.LPartialIV, bs()), put(removeLabel(l.Unprot, refcose.LPartialIV), refcose.LIV, bs())
		return l, "piv-protected+iv-unprotected"
	case 4:
		l.Unprot = put(l.Unprot, refcose.LCrit, refcbor.Array(refcbor.Int(4)))
		return l, "crit-unprotected"
	case 5:
		l.Prot = put(l.Prot, refcose.LCrit, refcbor.Array(refcbor.Int(int64(90000+t.Choose(100, "break.crit")))))
		return l, "crit-names-absent-label"
	case 6:
		lbl := []int64{refcose.LKid, refcose.LIV, refcose.LPartialIV}[t.Choose(3, "break.lbl")]
		l.Prot = put(l.Prot, lbl, []*refcbor.Item{refcbor.Tstr("x"), refcbor.Int(5), refcbor.Array()}[t.Choose(3, "break.val")])
		return l, "bstr-parameter-mistyped"
	case 7:
		l.Prot = put(l.Prot, refcose.LContentTyp, []*refcbor.Item{refcbor.Int(-1), refcbor.Tstr("no-slash"), refcbor.Tstr(" a/b"), refcbor.Tstr(""), refcbor.Bstr([]byte("a/b"))}[t.Choose(5, "break.ct")])
		return l, "content-type-invalid"
	default:
		l.Prot = put(l.Prot, refcose.LCrit, refcbor.Array())
		return l, "crit-empty"
	}
}

func c08Buckets(r *Run, t *tape.Tape, sp Spelling, maxExtra int) {
	lo := LayerOpts{MaxExtra: maxExtra, Steer: true}
	if t.Bool(1, 4, "c08.otheralg") {
		// any number is a legal alg value for the encoders (applications
		// bring their own signers for RS256 and for private-use numbers)
		a := otherAlgs[t.Choose(len(otherAlgs), "c08.otheralg.v")]
		lo.Alg = &a
		if t.Bool(1, 2, "c08.otheralg.alone") {
			lo.MaxExtra, lo.Steer, lo.NoCrit = 0, false, true
		}
	}
	l := genLayer(t, lo)
	broken := ""
	if t.Bool(1, 3, "c08.break") {
		l, broken = breakLayer(t, l)
		// a whole-layer encoding shows the cross-bucket rules too
		defer c08BrokenLayerMessage(r, t, l, sp, broken)
	}
	h := libHeaders(l, sp, t.Bool(1, 2, "c08.typed"))
	r.Op("ENCODE", "buckets prot=%s unprot=%s", diagBucket(l.Prot), diagBucket(l.Unprot))
	r.Outcome("buckets/" + sizeClass(len(l.Prot)) + "/" + sizeClass(len(l.Unprot)))
	if pb := r.c08Encode(t, "ProtectedHeader", func() ([]byte, error) { return h.Protected.MarshalCBOR() }); pb != nil {
		// reference: the canonical encoding of the abstract bucket
		want := refcbor.Encode(refcbor.Bstr(nil))
		if len(l.Prot) > 0 {
			want = refcbor.Encode(refcbor.Bstr(refcbor.CanonicalBytes(bucketItem(l.Prot, nil))))
		}
		r.Check()
		if !bytes.Equal(pb, want) && !hasFloat(l.Prot) && broken == "" {
			r.Fail("protected-encoding-differs-from-reference", "ProtectedHeader.MarshalCBOR differs from the deterministic encoding of the same map computed by the reference encoder\n got: %s\nwant: %s", hexShort(pb), hexShort(want))
			return
		}
		// history: the caller overwrites one parameter of the SAME map in
		// place (same number of entries) and encodes again: the bytes must
		// follow the map, not an earlier encoding of it
		if broken == "" && len(l.Prot) > 0 && !hasFloat(l.Prot) {
			i := t.Choose(len(l.Prot), "c08.edit.which")
			lbl, isInt := l.Prot[i].K.Int64()
			isInt = isInt && l.Prot[i].K.IsInt()
			if !(isInt && (lbl == refcose.LAlg || lbl == refcose.LCrit || lbl == refcose.LContentTyp || lbl == refcose.LTyp || lbl == refcose.LKid || lbl == refcose.LIV || lbl == refcose.LPartialIV || lbl == refcose.LCWTClaims)) && !critNames(l.Prot, l.Prot[i].K) {
				nv := refcbor.Bstr(t.Bytes(1+t.Choose(12, "c08.edit.n"), "c08.edit.v"))
				var gk any
				found := false
				for k := range h.Protected {
					if kv, ok := asInt64(k); ok && isInt && kv == lbl {
						gk, found = k, true
					} else if ks, ok := k.(string); ok && !isInt && ks == string(l.Prot[i].K.Data) {
						gk, found = k, true
					}
				}
				if found {
					h.Protected[gk] = append([]byte{}, nv.Data...)
					l2 := l.Prot.clone()
					l2[i].V = nv
					var pb2 []byte
					var e2 error
					r.Lib(func() { pb2, e2 = h.Protected.MarshalCBOR() })
					want2 := refcbor.Encode(refcbor.Bstr(refcbor.CanonicalBytes(bucketItem(l2, nil))))
					r.Check()
					if e2 != nil || !bytes.Equal(pb2, want2) {
						r.Fail("encoding-ignores-in-place-edit/ProtectedHeader", "after overwriting one parameter of the same map in place, MarshalCBOR does not give the encoding of the map as it is now (%v)\n got: %s\nwant: %s", e2, hexShort(pb2), hexShort(want2))
						return
					}
					r.Probe("in-place-edit-reencoded")
					pb, l.Prot = pb2, l2
				}
			}
		}
		var back cose.ProtectedHeader
		var err error
		r.Lib(func() { err = back.UnmarshalCBOR(pb) })
		if err != nil {
			r.Fail("encoder-output-refused/ProtectedHeader", "ProtectedHeader.MarshalCBOR output is refused by ProtectedHeader.UnmarshalCBOR: %v\n%s", err, hexShort(pb))
			return
		}
		var again []byte
		r.Lib(func() { again, err = back.MarshalCBOR() })
		if err != nil || !bytes.Equal(again, pb) {
			r.Fail("decoded-value-reencodes-differently/ProtectedHeader", "decode(encode(h)) re-encodes differently (%v)\nfirst: %s\nagain: %s", err, hexShort(pb), hexShort(again))
			return
		}
	} else {
		r.Outcome("protected-refused")
	}
	if ub := r.c08Encode(t, "UnprotectedHeader", func() ([]byte, error) { return h.Unprotected.MarshalCBOR() }); ub != nil {
		var back cose.UnprotectedHeader
		var err error
		r.Lib(func() { err = back.UnmarshalCBOR(ub) })
		r.Check()
		if err != nil {
			r.Fail("encoder-output-refused/UnprotectedHeader", "UnprotectedHeader.MarshalCBOR output is refused by UnprotectedHeader.UnmarshalCBOR: %v\n%s", err, hexShort(ub))
			return
		}
		var again []byte
		r.Lib(func() { again, err = back.MarshalCBOR() })
		if err != nil || !bytes.Equal(again, ub) {
			r.Fail("decoded-value-reencodes-differently/UnprotectedHeader", "decode(encode(h)) re-encodes differently (%v)\nfirst: %s\nagain: %s", err, hexShort(ub), hexShort(again))
		}
	} else {
		r.Outcome("unprotected-refused")
	}
	// one integer label under two Go integer types in one bucket (h[4] = kid
	// next to a computed h[uint16(l)]): two entries of the Go map, one CBOR
	// label - nothing deterministic can be emitted for that
	if broken == "" && t.Bool(1, 6, "c08.twospellings") {
		which := t.Choose(2, "c08.twospellings.bucket")
		src := map[any]any(h.Protected)
		if which == 1 {
			src = map[any]any(h.Unprotected)
		}
		var ints []int64
		for k := range src {
			if v, ok := asInt64(k); ok && v >= 0 && v < 120 {
				ints = append(ints, v)
			}
		}
		sort.Slice(ints, func(a, b int) bool { return ints[a] < ints[b] })
		if len(ints) > 0 {
			lbl := ints[t.Choose(len(ints), "c08.twospellings.label")]
			cp := map[any]any{}
			var val any
			for k, v := range src {
				if kv, ok := asInt64(k); ok && kv == lbl {
					val = v
					continue
				}
				cp[k] = v
			}
			types := []func(int64) any{
				func(v int64) any { return int(v) }, func(v int64) any { return int8(v) }, func(v int64) any { return int16(v) },
				func(v int64) any { return int32(v) }, func(v int64) any { return int64(v) }, func(v int64) any { return uint8(v) },
				func(v int64) any { return uint16(v) }, func(v int64) any { return uint32(v) }, func(v int64) any { return uint(v) }, func(v int64) any { return uint64(v) },
			}
			i := t.Choose(len(types), "c08.twospellings.a")
			j := (i + 1 + t.Choose(len(types)-1, "c08.twospellings.b")) % len(types)
			cp[types[i](lbl)], cp[types[j](lbl)] = val, val
			var b []byte
			var err error
			if which == 0 {
				r.Lib(func() { b, err = cose.ProtectedHeader(cp).MarshalCBOR() })
			} else {
				r.Lib(func() { b, err = cose.UnprotectedHeader(cp).MarshalCBOR() })
			}
			r.Check()
			if err == nil {
				r.Fail("label-under-two-go-types-encoded", "a header map holding label %d under the Go types %T and %T was encoded: %s", lbl, types[i](lbl), types[j](lbl), hexShort(b))
				return
			}
			r.Probe("label-under-two-go-types-refused")
		}
	}
	// empty-but-not-nil raw buckets (what `append(cbor.RawMessage{}, src...)`
	// gives for a message built in memory, or a store that returns empty
	// blobs): "no retained raw bytes", exactly like nil
	if broken == "" {
		h0 := cose.Headers{Protected: h.Protected, Unprotected: h.Unprotected}
		h1 := h0
		h1.RawProtected, h1.RawUnprotected = cbor.RawMessage{}, cbor.RawMessage{}
		var p0, p1, u0, u1 []byte
		var ep0, ep1, eu0, eu1 error
		r.Lib(func() { p0, ep0 = h0.MarshalProtected() })
		r.Lib(func() { p1, ep1 = h1.MarshalProtected() })
		r.Lib(func() { u0, eu0 = h0.MarshalUnprotected() })
		r.Lib(func() { u1, eu1 = h1.MarshalUnprotected() })
		r.Check()
		if (ep0 == nil) != (ep1 == nil) || !bytes.Equal(p0, p1) || (eu0 == nil) != (eu1 == nil) || !bytes.Equal(u0, u1) {
			r.Fail("empty-raw-bucket-not-treated-as-absent", "Headers with zero-length (non-nil) RawProtected/RawUnprotected encode differently from the same Headers with nil raw buckets\nprotected: %x (%v) vs %x (%v)\nunprotected: %x (%v) vs %x (%v)", p1, ep1, p0, ep0, u1, eu1, u0, eu0)
			return
		}
		r.Probe("empty-raw-buckets-compared")
	}
}

func hasFloat(b Bucket) bool {
	found := false
	for _, e := range b {
		refcbor.Walk(e.V, func(x *refcbor.Item, _ int) {
			if x.Major == refcbor.MSimple && x.Width >= 2 {
				found = true
			}
		})
	}
	return found
}

func c08Message(r *Run, t *tape.Tape, sp Spelling, maxExtra int, ent *Entropy) {
	spec := genSpec(t, SpecOpts{MaxExtra: maxExtra, MaxSigner: 3, Cheap: true})
	var spies []*SpySigner
	r.Op("ISSUE", "%s", spec)
	r.Outcome("message/" + spec.Kind.String() + "/" + sizeClass(len(spec.Layer.Prot)))
	r.LeaveAlgToLibrary = t.Bool(1, 6, "c08.algtolib")
	is, err := r.LibIssue(spec, sp, t.Bool(1, 2, "c08.typed"), ent, func(i int, k *KeyPair, inner cose.Signer) cose.Signer {
		s := &SpySigner{Inner: inner, Alg: inner.Algorithm()}
		spies = append(spies, s)
		return s
	}, false)
	if err != nil {
		r.Outcome("sign-refused")
		return
	}
	// countersignatures attached single / as a list
	if t.Bool(1, 2, "c08.csig") {
		if is.M1 != nil {
			r.libCountersign(t, ent, parentOfSign1(t, is.M1), 2, true)
		} else {
			r.libCountersign(t, ent, parentOfSign(t, is.MS), 2, true)
			if len(is.MS.Signatures) > 0 && t.Bool(1, 2, "c08.csig.sig") {
				r.libCountersign(t, ent, parentOfSignature(t, is.MS.Signatures[0]), 1, true)
			}
		}
		r.Outcome("countersigned")
	}
	wire := r.c08Encode(t, spec.Kind.String(), func() ([]byte, error) { return r.encodeNoLib(is) })
	if wire == nil {
		r.Check()
		r.Fail("signed-message-cannot-be-encoded/"+spec.Kind.String(), "Sign succeeded, MarshalCBOR fails\nspec: %s", spec)
		return
	}
	r.Logf("wire %x", wire)
	// (iii) protected bytes signed == protected bytes emitted
	pm, perr := refcose.ParseMsg(spec.Kind, wire)
	r.Check()
	if perr != nil {
		r.Fail("encoder-output-unparsable/"+spec.Kind.String(), "reference parser cannot read go-cose's own encoding: %v\n%s", perr, hexShort(wire))
		return
	}
	for i, s := range spies {
		if len(s.Calls) != 1 {
			continue
		}
		if body, ok := tbsField(s.Calls[0].Content, 1); !ok || !bytes.Equal(body, pm.ProtBstr.Data) {
			r.Fail("signed-protected-differs-from-emitted/body", "body protected bytes inside ToBeSigned of signer %d differ from those in the emitted message\nsigned:  %x\nemitted: %x", i, body, pm.ProtBstr.Data)
			return
		}
		if spec.Kind == refcose.KSignTagged && i < len(pm.Sigs) {
			if sp, ok := tbsField(s.Calls[0].Content, 2); !ok || !bytes.Equal(sp, pm.Sigs[i].ProtBstr.Data) {
				r.Fail("signed-protected-differs-from-emitted/signer", "sign_protected inside ToBeSigned of signer %d differs from the emitted COSE_Signature\nsigned:  %x\nemitted: %x", i, sp, pm.Sigs[i].ProtBstr.Data)
				return
			}
		}
	}
	// (iv) closure
	rc, derr := r.Decode(spec.Kind, wire)
	if derr != nil {
		r.Fail("encoder-output-refused/"+spec.Kind.String(), "go-cose's own encoding is refused by its decoder: %v\n%s", derr, hexShort(wire))
		return
	}
	rc.DropRawDeep()
	again, eerr := r.Reencode(rc)
	if eerr != nil || !bytes.Equal(again, wire) {
		r.Fail("decoded-value-reencodes-differently/"+spec.Kind.String(), "decode(encode(m)), re-encoded from the parsed headers, differs (%v)\nfirst: %s\nagain: %s", eerr, hexShort(wire), hexShort(again))
		return
	}
	// stand-alone COSE_Signature objects
	if is.MS != nil {
		for i, s := range is.MS.Signatures {
			sb := r.c08Encode(t, "Signature", func() ([]byte, error) { return s.MarshalCBOR() })
			if sb == nil {
				continue
			}
			var back cose.Signature
			var err error
			r.Lib(func() { err = back.UnmarshalCBOR(sb) })
			r.Check()
			if err != nil {
				r.Fail("encoder-output-refused/Signature", "Signature.MarshalCBOR output %d refused: %v\n%s", i, err, hexShort(sb))
				return
			}
		}
	}
}

// encodeNoLib marshals without going through r.Lib (c08Encode wraps it).
func (r *Run) encodeNoLib(is *Issued) ([]byte, error) {
	switch is.Spec.Kind {
	case refcose.KSignTagged:
		return is.MS.MarshalCBOR()
	case refcose.KSign1Tagged:
		return is.M1.MarshalCBOR()
	}
	return (*cose.UntaggedSign1Message)(is.M1).MarshalCBOR()
}

func c08Key(r *Run, t *tape.Tape) {
	ks := genKeySpec(t)
	var k cose.Key
	var err error
	kb := ks.Bytes()
	if mk, ok := keyInMemory(ks); ok && refcose.KeyConsistent(kb) == nil && !ks.Unsupported && t.Bool(1, 3, "c08.key.inmemory") {
		// a consistent Key value written down by the application itself (struct
		// literal), never seen by the decoder: whatever MarshalCBOR makes of
		// it - an error or bytes - the bytes must be acceptable to
		// UnmarshalCBOR.  (Key.MarshalCBOR does not validate: an INCONSISTENT
		// key built in memory is emitted and then refused by the decoder;
		// such keys are outside the data model this property speaks about, and
		// so are keys on curves the library has no code for - Ed448, X448,
		// X25519 - which the decoder refuses whatever their size.)
		k = mk
		r.Probe("key-built-in-memory")
	} else {
		r.Lib(func() { err = k.UnmarshalCBOR(kb) })
		if err != nil {
			r.Outcome("key-refused") // C14/C15's business
			return
		}
	}
	// re-populate the parameter map in descending order with spelt labels so
	// that the in-memory key is a caller-built one, not a decoder product
	if len(k.Params) > 0 {
		params := map[any]any{}
		var keys []any
		for p := range k.Params {
			keys = append(keys, p)
		}
		sortAnyDesc(keys)
		for _, p := range keys {
			lbl := p
			if v, ok := p.(int64); ok && t.Bool(1, 2, "c08.key.spell") {
				lbl = spellInt(t, v)
			}
			params[lbl] = k.Params[p]
		}
		k.Params = params
	}
	if len(k.Params) > 0 && t.Bool(1, 8, "c08.key.twospellings") {
		// one key parameter under two Go integer types (k.Params[-1] written
		// by one part of the application, k.Params[int8(-1)] by another): two
		// entries of the Go map, one CBOR label - an encoder that emits both
		// emits a map with a repeated key, one that picks one of them emits
		// different keys depending on the order it met them in
		var ints []int64
		for p := range k.Params {
			if v, ok := asInt64(p); ok && v > -120 && v < 120 {
				ints = append(ints, v)
			}
		}
		sort.Slice(ints, func(a, b int) bool { return ints[a] < ints[b] })
		if len(ints) > 0 {
			lbl := ints[t.Choose(len(ints), "c08.key.twospellings.label")]
			cp := map[any]any{}
			var val any
			for p, v := range k.Params {
				if pv, ok := asInt64(p); ok && pv == lbl {
					val = v
					continue
				}
				cp[p] = v
			}
			types := []func(int64) any{
				func(v int64) any { return int(v) }, func(v int64) any { return int8(v) }, func(v int64) any { return int16(v) },
				func(v int64) any { return int32(v) }, func(v int64) any { return int64(v) },
			}
			i := t.Choose(len(types), "c08.key.twospellings.a")
			j := (i + 1 + t.Choose(len(types)-1, "c08.key.twospellings.b")) % len(types)
			cp[types[i](lbl)] = val
			other := val
			if bs, ok := val.([]byte); ok && len(bs) > 0 && t.Bool(1, 2, "c08.key.twospellings.othervalue") {
				o := append([]byte{}, bs...)
				o[len(o)-1] ^= 1
				other = o
			}
			cp[types[j](lbl)] = other
			dup := k
			dup.Params = cp
			var b []byte
			var err error
			r.Lib(func() { b, err = dup.MarshalCBOR() })
			r.Fired("key.label-under-two-go-types")
			r.Check()
			if err == nil {
				r.Fail("encoder-emits-repeated-label/Key", "Key.MarshalCBOR returned bytes for a key whose Params hold label %d under two Go integer types (%T and %T): %x", lbl, types[i](lbl), types[j](lbl), b)
				return
			}
			r.Outcome("key-two-spellings-refused")
		}
	}
	r.Op("ENCODE", "key %s %s", ks.Desc, opsClass(ks))
	r.Outcome(fmt.Sprintf("key/kty=%d/%s", ks.Kty, opsClass(ks)))
	b := r.c08Encode(t, "Key", func() ([]byte, error) { return k.MarshalCBOR() })
	if b == nil {
		r.Outcome("key-encode-refused")
		return
	}
	var back cose.Key
	r.Lib(func() { err = back.UnmarshalCBOR(b) })
	r.Check()
	if err != nil {
		r.Fail("encoder-output-refused/Key", "Key.MarshalCBOR output is refused by Key.UnmarshalCBOR: %v\n%x", err, b)
		return
	}
	var again []byte
	r.Lib(func() { again, err = back.MarshalCBOR() })
	if err != nil || !bytes.Equal(again, b) {
		r.Fail("decoded-value-reencodes-differently/Key", "decode(encode(k)) re-encodes differently (%v)\nfirst: %x\nagain: %x", err, b, again)
		return
	}
	// equivalent value: what the restrictions say must survive
	if (k.Ops == nil) != (back.Ops == nil) || len(k.Ops) != len(back.Ops) {
		r.Fail("key-roundtrip-changes-key-ops", "key_ops before %v (nil=%v), after %v (nil=%v)", k.Ops, k.Ops == nil, back.Ops, back.Ops == nil)
	}
}

func sortAnyDesc(keys []any) {
	less := func(a, b any) bool { return fmt.Sprintf("%T/%v", a, a) > fmt.Sprintf("%T/%v", b, b) }
	for i := 1; i < len(keys); i++ {
		for j := i; j > 0 && less(keys[j], keys[j-1]); j-- {
			keys[j], keys[j-1] = keys[j-1], keys[j]
		}
	}
}

func c08Helpers(r *Run, t *tape.Tape, sp Spelling, ent *Entropy) {
	key := pickCheapKey(t)
	external := genExternal(t)
	lo := LayerOpts{MaxExtra: 6, Steer: true}
	if len(external) == 0 || t.Bool(1, 2, "c08.h.alg") {
		a := key.Alg
		lo.Alg = &a
	}
	which := []string{"Sign1()", "Sign1Untagged()", "SignHashEnvelope()"}[t.Choose(3, "c08.helper")]
	layer := genLayer(t, lo)
	if which == "SignHashEnvelope()" {
		layer = envelopeSafe(layer)
		external = nil
	}
	h := libHeaders(layer, sp, t.Bool(1, 2, "c08.typed"))
	payload := genPayload(t, false)
	seed := uint64(t.U32("c08.h.entropy"))
	signer := r.signerFor(key, false)
	r.Op("HELPER", "%s prot=%s", which, diagBucket(layer.Prot))
	r.Outcome("helper/" + which)
	// the helper is called K times with the same entropy seed: same bytes
	// (Sign mutates the caller's map by inserting alg: a fresh Headers value
	// per repetition keeps repetitions independent)
	enc := func() ([]byte, error) {
		hh := libHeaders(layer, Spelling{}, true)
		_ = h
		e := NewEntropy(seed)
		switch which {
		case "Sign1()":
			return cose.Sign1(e, signer, hh, payload, external)
		case "Sign1Untagged()":
			return cose.Sign1Untagged(e, signer, hh, payload, external)
		}
		return cose.SignHashEnvelope(e, signer, hh, cose.HashEnvelopePayload{HashAlgorithm: cose.AlgorithmSHA256, HashValue: payload32(payload)})
	}
	out := r.c08Encode(t, which, enc)
	if out == nil {
		r.Outcome("helper-refused")
		return
	}
	kind := refcose.KSign1Tagged
	if which == "Sign1Untagged()" {
		kind = refcose.KSign1Untagged
	}
	rc, err := r.Decode(kind, out)
	r.Check()
	if err != nil {
		r.Fail("encoder-output-refused/"+which, "%s output is refused by the decoder: %v\n%s", which, err, hexShort(out))
		return
	}
	verifier := r.verifierFor(key, false)
	if verr := r.VerifyLib(rc, external, verifier); verr != nil {
		r.Fail("helper-output-does-not-verify/"+which, "%s output decodes but does not verify: %v", which, verr)
	}
}

func payload32(p []byte) []byte {
	out := make([]byte, 32)
	copy(out, p)
	return out
}

// c08BrokenLayerMessage puts a rule-breaking layer into a Sign1 message with
// a dummy signature: if MarshalCBOR emits it, UnmarshalCBOR must accept it.
func c08BrokenLayerMessage(r *Run, t *tape.Tape, l Layer, sp Spelling, broken string) {
	if r.Viol != nil {
		return
	}
	m := &cose.Sign1Message{Headers: libHeaders(l, sp, false), Payload: []byte("p"), Signature: []byte{1, 2, 3}}
	r.Outcome("broken:" + broken)
	b := r.c08Encode(t, "Sign1Message(rule-breaking headers)", func() ([]byte, error) { return m.MarshalCBOR() })
	if b == nil {
		r.Probe("rule-breaking-headers-refused-by-encoder")
		return
	}
	var back cose.Sign1Message
	var err error
	r.Lib(func() { err = back.UnmarshalCBOR(b) })
	r.Check()
	if err != nil {
		r.Fail("encoder-output-refused/Sign1Message/"+broken, "MarshalCBOR emitted a message whose headers break a rule (%s) and that UnmarshalCBOR refuses: %v\n%s", broken, err, hexShort(b))
	}
}

// decoderNameFor maps the label c08Encode is given to the decoder whose
// structural positions hold protected headers.
func decoderNameFor(what string) string {
	switch what {
	case "Sign1Tagged", "Sign1()", "SignHashEnvelope()", "Sign1Message(rule-breaking headers)":
		return "Sign1Message"
	case "Sign1Untagged", "Sign1Untagged()":
		return "UntaggedSign1Message"
	case "SignTagged":
		return "SignMessage"
	}
	return what
}

// critNames reports whether the bucket's crit entry names the label.
func critNames(b Bucket, label *refcbor.Item) bool {
	c := b.lookup(refcose.LCrit)
	if c == nil {
		return false
	}
	id := refcbor.KeyIdentity(label)
	for _, e := range c.Elems {
		if refcbor.KeyIdentity(e) == id {
			return true
		}
	}
	return false
}

// c08GoValues: header values of the Go types a caller really uses that are not
// `any`-containers: time.Time (a signing time, CWT NumericDate claims), typed
// slices and maps, fixed-size arrays, float32, named types.  No reference
// bytes are predicted for them (how a Go type maps to CBOR is the encoder's
// choice); what the property promises is demanded: the same bytes every time,
// deterministic CBOR, and closure - the message that carries them is accepted
// by the library's own decoder and re-encodes to the same bytes.
func c08GoValues(r *Run, t *tape.Tape, ent *Entropy) {
	type named string
	type namedInt int32
	vals := []struct {
		name string
		v    any
	}{
		{"time.Time", time.Unix(int64(t.Choose(1<<31, "c08.go.time")), 0).UTC()},
		{"*big.Int", big.NewInt(int64(1 + t.Choose(1<<30, "c08.go.big")))},
		{"big.Int", *big.NewInt(-70000)},
		{"[]string", []string{"b", "a", genText(t, 5)}},
		{"[]int", []int{3, -1, 70000}},
		{"[][]byte", [][]byte{{1}, {2, 3}}},
		{"map[string]int", map[string]int{"zz": 1, "a": 2, "mm": 3, "b": 4}},
		{"map[int]string", map[int]string{-1: "x", 5: "y", 300: "z", -300: "w"}},
		{"[2]uint16", [2]uint16{1, 65535}},
		{"named string", named("n/" + genText(t, 4))},
		{"named int", namedInt(-7)},
		{"*int", func() any { x := 5; return &x }()},
		{"struct", struct {
			A int    `cbor:"1,keyasint"`
			B string `cbor:"2,keyasint"`
		}{7, "s"}},
	}
	pick := vals[t.Choose(len(vals), "c08.go.kind")]
	inProt := t.Bool(1, 2, "c08.go.bucket")
	k := pickCheapKey(t)
	h := cose.Headers{Protected: cose.ProtectedHeader{cose.HeaderLabelAlgorithm: cose.Algorithm(k.Alg)}, Unprotected: cose.UnprotectedHeader{}}
	label := int64(-80000 - t.Choose(50, "c08.go.label"))
	if inProt {
		h.Protected[label] = pick.v
	} else {
		h.Unprotected[label] = pick.v
	}
	if t.Bool(1, 2, "c08.go.cwt") {
		// RFC 8392 NumericDate claims as time values
		h.Protected[cose.HeaderLabelCWTClaims] = cose.CWTClaims{4: time.Unix(1900000000, 0).UTC(), 1: "iss"}
	}
	where := "unprotected"
	if inProt {
		where = "protected"
	}
	r.Op("ENCODE", "Go value %s in the %s bucket", pick.name, where)
	r.Outcome("govalue/" + pick.name + "/" + where)
	m := &cose.Sign1Message{Headers: h, Payload: []byte("p")}
	var err error
	signer := r.signerFor(k, false)
	r.Lib(func() { err = m.Sign(ent, nil, signer) })
	if err != nil {
		r.Outcome("govalue-sign-refused")
		return
	}
	b := r.c08Encode(t, "Sign1Message", func() ([]byte, error) { return m.MarshalCBOR() })
	if b == nil {
		r.Outcome("govalue-encode-refused")
		return
	}
	var back cose.Sign1Message
	r.Lib(func() { err = back.UnmarshalCBOR(b) })
	r.Check()
	if err != nil {
		r.Fail("encoder-output-refused/go-value/"+pick.name+"/"+where, "a Sign1Message with a %s value in its %s bucket is encoded to bytes that Sign1Message.UnmarshalCBOR refuses: %v\n%s", pick.name, where, err, hexShort(b))
		return
	}
	var verr error
	r.Lib(func() { verr = back.Verify(nil, r.verifierFor(k, false)) })
	if verr != nil {
		r.Fail("own-output-does-not-verify/go-value/"+pick.name, "the decoded message does not verify: %v\n%s", verr, hexShort(b))
		return
	}
	back.Headers.RawProtected, back.Headers.RawUnprotected = nil, nil
	var again []byte
	r.Lib(func() { again, err = back.MarshalCBOR() })
	if err != nil || !bytes.Equal(again, b) {
		r.Fail("decoded-value-reencodes-differently/go-value/"+pick.name+"/"+where, "decode(encode(m)) re-encoded from the parsed headers differs (%v)\nfirst: %s\nagain: %s", err, hexShort(b), hexShort(again))
	}
}

// c08DegenerateCsig: the degenerate countersignature values a Go caller can
// write under labels 7 and 11 - an empty list, a list with a nil entry, a nil
// *Countersignature.  Closure: the encoder either refuses them or emits
// something its own decoder accepts.
func c08DegenerateCsig(r *Run, t *tape.Tape, ent *Entropy) {
	k := pickCheapKey(t)
	label := []int64{cose.HeaderLabelCounterSignature, cose.HeaderLabelCounterSignatureV2}[t.Choose(2, "c08.dcs.label")]
	m := &cose.Sign1Message{Headers: cose.Headers{Protected: cose.ProtectedHeader{cose.HeaderLabelAlgorithm: cose.Algorithm(k.Alg)}, Unprotected: cose.UnprotectedHeader{}}, Payload: []byte("p")}
	signer := r.signerFor(k, false)
	var err error
	r.Lib(func() { err = m.Sign(ent, nil, signer) })
	if err != nil {
		return
	}
	good := &cose.Countersignature{Headers: cose.Headers{Protected: cose.ProtectedHeader{cose.HeaderLabelAlgorithm: cose.Algorithm(k.Alg)}}}
	r.Lib(func() { err = good.Sign(ent, signer, m, nil) })
	if err != nil {
		return
	}
	var v any
	what := ""
	switch t.Choose(5, "c08.dcs.kind") {
	case 0:
		v, what = []*cose.Countersignature{}, "empty list"
	case 1:
		v, what = []*cose.Countersignature{nil}, "list with a nil entry"
	case 2:
		v, what = (*cose.Countersignature)(nil), "nil *Countersignature"
	case 3:
		v, what = []*cose.Countersignature{good, nil}, "list with a valid and a nil entry"
	default:
		v, what = []*cose.Countersignature(nil), "nil list"
	}
	m.Headers.Unprotected[label] = v
	r.Op("ENCODE", "Sign1 with label %d = %s", label, what)
	r.Outcome("degenerate-countersignature/" + what)
	b := r.c08Encode(t, "Sign1Message", func() ([]byte, error) { return m.MarshalCBOR() })
	if b == nil {
		r.Outcome("degenerate-countersignature-refused-by-encoder")
		return
	}
	var back cose.Sign1Message
	r.Lib(func() { err = back.UnmarshalCBOR(b) })
	r.Check()
	if err != nil {
		r.Fail("encoder-output-refused/degenerate-countersignature", "a Sign1Message whose label %d holds %s is encoded, and the bytes are refused by Sign1Message.UnmarshalCBOR: %v\n%s", label, what, err, hexShort(b))
	}
}

// keyInMemory writes a key specification down as a cose.Key struct literal
// (only for specifications whose key_ops are plain integers).
func keyInMemory(ks *KeySpec) (cose.Key, bool) {
	k := cose.Key{Type: cose.KeyType(ks.Kty), Params: map[any]any{}}
	if ks.Kid != nil {
		k.ID = append([]byte{}, ks.Kid...)
	}
	if ks.Alg != nil {
		k.Algorithm = cose.Algorithm(*ks.Alg)
	}
	if ks.HasOps {
		k.Ops = []cose.KeyOp{}
		for _, o := range ks.Ops {
			v, ok := o.Int64()
			if !o.IsInt() || !ok {
				return cose.Key{}, false
			}
			k.Ops = append(k.Ops, cose.KeyOp(v))
		}
	}
	if ks.BaseIV != nil {
		k.BaseIV = append([]byte{}, ks.BaseIV...)
	}
	if ks.Crv != nil {
		k.Params[int64(-1)] = cose.Curve(*ks.Crv)
	}
	if ks.K != nil {
		k.Params[int64(-1)] = append([]byte{}, ks.K...)
	}
	if ks.X != nil {
		k.Params[int64(-2)] = append([]byte{}, ks.X...)
	}
	if ks.YSign != nil {
		k.Params[int64(-3)] = *ks.YSign
	} else if ks.Y != nil {
		k.Params[int64(-3)] = append([]byte{}, ks.Y...)
	}
	if ks.D != nil {
		k.Params[int64(-4)] = append([]byte{}, ks.D...)
	}
	for _, e := range ks.Extra {
		if refcbor.HasTag(e.V) {
			return cose.Key{}, false
		}
		k.Params[itemToGo(e.K, Spelling{}, true)] = itemToGo(e.V, Spelling{}, false)
	}
	return k, true
}

// c08RelayEdit: a relay decodes a message, discards the retained raw
// UNPROTECTED bytes and edits that bucket (the protected one stays raw, as
// received), then encodes.  Closure: the encoder refuses the result or emits
// bytes the decoder accepts - the rules that span both buckets included.
func c08RelayEdit(r *Run, t *tape.Tape, ent *Entropy) {
	k := pickCheapKey(t)
	first, second := int64(cose.HeaderLabelIV), int64(cose.HeaderLabelPartialIV)
	if t.Bool(1, 2, "c08.relay.swap") {
		first, second = second, first
	}
	m := &cose.Sign1Message{Headers: cose.Headers{Protected: cose.ProtectedHeader{cose.HeaderLabelAlgorithm: cose.Algorithm(k.Alg)}, Unprotected: cose.UnprotectedHeader{cose.HeaderLabelKeyID: []byte("k")}}, Payload: []byte("p")}
	withIV := t.Bool(2, 3, "c08.relay.iv")
	if withIV {
		m.Headers.Protected[first] = t.Bytes(1+t.Choose(8, "c08.relay.ivn"), "c08.relay.iv.v")
	}
	var err error
	var wire []byte
	r.Lib(func() {
		if err = m.Sign(ent, nil, r.signerFor(k, false)); err == nil {
			wire, err = m.MarshalCBOR()
		}
	})
	if err != nil {
		return
	}
	var rc cose.Sign1Message
	r.Lib(func() { err = rc.UnmarshalCBOR(wire) })
	if err != nil {
		r.Check()
		r.Fail("encoder-output-refused/Sign1Tagged", "own output refused: %v\n%s", err, hexShort(wire))
		return
	}
	rc.Headers.RawUnprotected = nil
	edit := ""
	switch t.Choose(5, "c08.relay.edit") {
	case 0:
		rc.Headers.Unprotected[second] = []byte{9, 9}
		edit = "partner IV parameter added to unprotected"
	case 1:
		rc.Headers.Unprotected[cose.HeaderLabelCritical] = []any{int64(4)}
		edit = "crit added to unprotected"
	case 2:
		rc.Headers.Unprotected[cose.HeaderLabelKeyID] = "text kid"
		edit = "kid replaced by a text string"
	case 3:
		rc.Headers.Unprotected[cose.HeaderLabelAlgorithm] = cose.Algorithm(k.Alg)
		edit = "alg repeated in unprotected"
	default:
		rc.Headers.Unprotected[int64(-70010)] = []any{int64(1), "x"}
		edit = "private parameter added"
	}
	r.Op("RELAY", "decoded Sign1 (protected raw kept, IV-ish in protected: %v), unprotected raw discarded, %s", withIV, edit)
	r.Outcome("relay-edit/" + edit)
	b := r.c08Encode(t, "Sign1Message", func() ([]byte, error) { return rc.MarshalCBOR() })
	if b == nil {
		r.Outcome("relay-edit-refused-by-encoder")
		return
	}
	var back cose.Sign1Message
	r.Lib(func() { err = back.UnmarshalCBOR(b) })
	r.Check()
	if err != nil {
		r.Fail("encoder-output-refused/relay-edit", "a decoded Sign1 whose unprotected bucket was edited (%s) is encoded to bytes the decoder refuses: %v\n%s", edit, err, hexShort(b))
	}
}

// c08HeldMessage: a message held in memory after decoding (60 % written by
// the foreign peer, so its retained raw buckets carry wider-than-needed heads,
// other key orders, h'a0') is encoded, used read-only (verified, its
// countersignatures verified) and encoded again: the same in-memory message
// always encodes to the same bytes, and what the encoder returned is accepted
// by the decoder - before and after the message was used.
func c08HeldMessage(r *Run, t *tape.Tape, ent *Entropy) {
	w := r.GenWire(t, TrafficOpts{Spec: SpecOpts{MaxExtra: 4, MaxSigner: 3, Cheap: true}, CsigDepth: 2, Abbrev: true, ForeignPct: 60}, ent)
	if w == nil {
		r.Outcome("no-traffic")
		return
	}
	spec := w.Spec
	r.Op("ISSUE", "%s: %s", w.Desc, spec)
	rc, err := r.Decode(spec.Kind, w.B)
	if err != nil {
		r.Outcome("held-not-accepted")
		return
	}
	r.Outcome("held/" + spec.Kind.String())
	if nonCanonicalDeep(w.Dec, w.B) != "" {
		r.Probe("held-message-with-noncanonical-raw-buckets")
	}
	encNoLib := func() ([]byte, error) {
		switch rc.Kind {
		case refcose.KSignTagged:
			return rc.MS.MarshalCBOR()
		case refcose.KSign1Tagged:
			return rc.M1.MarshalCBOR()
		}
		return (*cose.UntaggedSign1Message)(rc.M1).MarshalCBOR()
	}
	encode := func(stage string) ([]byte, bool) {
		var b []byte
		var e error
		k := 1 + t.Choose(2, "c08.held.k")
		for i := 0; i < k; i++ {
			var bi []byte
			r.Lib(func() { bi, e = encNoLib() })
			if e != nil {
				r.Check()
				r.Fail("held-message-cannot-be-encoded/"+spec.Kind.String(), "%s: an accepted message, untouched, cannot be encoded: %v\ninput: %s", stage, e, hexShort(w.B))
				return nil, false
			}
			kept := append([]byte(nil), bi...)
			scribble(bi)
			if i > 0 && !bytes.Equal(kept, b) {
				r.Check()
				r.Fail("encoding-not-deterministic/held-"+spec.Kind.String(), "%s: repetition %d of encoding the same held message differs\nfirst: %s\n this: %s", stage, i, hexShort(b), hexShort(kept))
				return nil, false
			}
			b = kept
		}
		return b, true
	}
	closure := func(stage string, b []byte) bool {
		_, derr := r.Decode(spec.Kind, b)
		if derr != nil {
			r.Check()
			r.Fail("encoder-output-refused/held-"+spec.Kind.String(), "%s: the encoding of an accepted, untouched message is refused by the decoder: %v\ninput:  %s\noutput: %s", stage, derr, hexShort(w.B), hexShort(b))
			return false
		}
		return true
	}
	first, ok := encode("before use")
	if !ok || !closure("before use", first) {
		return
	}
	vs := r.verifiersFor(spec, false)
	rounds := 1 + t.Choose(3, "c08.held.rounds")
	for i := 0; i < rounds; i++ {
		what := ""
		switch t.Choose(4, "c08.held.use") {
		case 0, 1:
			ext := spec.External
			if w.Detached {
				what = "Verify (payload detached)"
			} else {
				what = "Verify"
			}
			_ = r.VerifyLib(rc, ext, vs...)
		case 2:
			what = "countersignatures verified"
			walkWireCsigs(w, rc, func(n *CsigNode, cs *cose.Countersignature, abbrev []byte, parent any) {
				verifier := r.verifierFor(n.Key, false)
				if n.Abbrev {
					r.Lib(func() { _ = cose.VerifyCountersign0(verifier, parent, n.External, abbrev) })
				} else if cs != nil {
					r.Lib(func() { _ = cs.Verify(verifier, parent, n.External) })
				}
			})
		default:
			what = "countersigned (result discarded)"
			k := pickCheapKey(t)
			var parent any = rc.MS
			if rc.M1 != nil {
				parent = rc.M1
			}
			r.Lib(func() { _, _ = cose.Countersign0(ent, r.signerFor(k, false), parent, nil) })
		}
		r.Op("USE", "%s", what)
		stage := "after " + what
		again, ok := encode(stage)
		if !ok {
			return
		}
		r.Check()
		if !bytes.Equal(again, first) {
			r.Fail("held-message-encodes-differently-after-use/"+spec.Kind.String(), "%s: the same in-memory message, only read since, encodes to other bytes\nbefore: %s\n after: %s", stage, hexShort(first), hexShort(again))
			return
		}
		if !closure(stage, again) {
			return
		}
	}
	r.Probe("held-message-encoded-before-and-after-use")
}
