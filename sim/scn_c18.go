package sim

import (
	"bytes"
	"crypto/ed25519"
	"crypto/rsa"
	"fmt"
	"math/big"
	"os"

	cose "github.com/veraison/go-cose"

	"verif/refcose"
	"verif/tape"
)

func init() {
	Scenarios["C18"] = scenarioC18
	Infos["C18"] = ScenarioInfo{
		Level:      "exploration",
		NeedsInstr: true,
		Rule: "one run = one CONCURRENT block on an instrumented scratch copy of go-cose (a yield point before every statement of package cose): 2..6 caller tasks share, by reference, messages of every kind (Sign1 tagged/untagged, Sign, " +
			"constructed in memory or decoded, with full/abbreviated countersignatures), a COSE_Key, a hash envelope, one Verifier per key and one Signer per key; each task performs 1..4 operations from Verify, MarshalCBOR, Countersignature.Verify, " +
			"VerifyCountersign0, VerifyHashEnvelope, Key.Verifier/PublicKey/MarshalCBOR, Sign on a task-private message with the shared Signer, and Sign with a signer object of the task's own (RSASSA-PSS under different hashes, ECDSA, EdDSA; nothing shared but the library's package-level state). Which task runs after every yield point is decided by a schedule drawn from the tape before the tasks start " +
			"(explicit preemption points, or seeded random with stickiness 0/.5/.9/.99), so a run is one exactly repeatable interleaving. Oracles: (i) read-only - the deep snapshot of every shared value, verifier and signer equals its initial snapshot at scheduler steps (every k-th yield, every switch, every task end) and after the block; " +
			"(ii) sequential equivalence - every operation's result (error class, bytes) equals the result of the same operation run alone after the block (so that first-use effects happen inside the block), signatures made concurrently verify; (iii) race oracle - a race-detector build of the same runs reports no data race " +
			"(the hand-off between tasks is invisible to the detector, so a conflicting write is reported whatever interleaving ran); (iv) no panic. Non-trivial = a block with >= 2 tasks ran and was compared; distinct = distinct schedule hashes ((task, site) sequences).",
		Assumptions: []string{"preemption inside fxamacker/cbor and Go crypto is not explored (atomic steps); a race there is still reported by the race build", "the Go scheduler does not perturb a serialised execution (checked by the determinism self-test at several GOMAXPROCS)", "the race detector is sound for the accesses it instruments"},
		Real:        []string{"github.com/veraison/go-cose (instrumented copy of the working tree: same statements plus yield calls)", "github.com/fxamacker/cbor/v2", "Go crypto", "Go race detector (race phase)"},
		Stubs:       []string{"task scheduler (tape-driven, one runnable task at a time)", "entropy source (one seeded reader per signing task)", "foreign peer (reference model)"},
		QuickRuns:   3000, ThoroughRuns: 100000,
	}
}

// c18Op is one operation of a task.
type c18Op struct {
	name string
	run  func() c18Result
}

type c18Result struct {
	err   bool
	bytes []byte
	panic string
}

func (a c18Result) equal(b c18Result) bool {
	return a.err == b.err && bytes.Equal(a.bytes, b.bytes) && a.panic == b.panic
}

func guard(f func() ([]byte, error)) c18Result {
	var res c18Result
	if lp := call(func() {
		b, err := f()
		res.bytes, res.err = b, err != nil
	}); lp != nil {
		res.panic = lp.Class + " in " + lp.Frame
	}
	return res
}

// RaceMode is set by the race build's environment: monitors that would
// themselves read shared state at every step are reduced to the final
// comparison, the race detector being the oracle.
var RaceMode = os.Getenv("VERIF_RACE") == "1"

func scenarioC18(r *Run) {
	if !HaveInstr {
		panic("C18 needs the worker built against the instrumented copy (-tags verifinstr)")
	}
	t := r.T
	ent := NewEntropy(uint64(t.U32("entropy.seed")))
	// ---- shared values
	type sharedMsg struct {
		w    *Wire
		m1   *cose.Sign1Message
		ms   *cose.SignMessage
		vs   []cose.Verifier
		desc string
	}
	var msgs []*sharedMsg
	nmsg := 1 + t.Choose(2, "c18.nmsg")
	for i := 0; i < nmsg; i++ {
		// (mostly cheap keys; now and then any key of the pool, RSA included)
		spec := genSpec(t, SpecOpts{MaxExtra: 3, MaxSigner: 5, Cheap: !t.Bool(1, 5, "c18.anykey")})
		foreign := t.Bool(1, 3, "c18.foreign")
		var w *Wire
		var is *Issued
		if foreign {
			w = r.ForeignWire(t, spec, genKnobs(t), ent, false, 1, true)
		} else {
			w, is = r.LibWire(t, spec, ent, false, 1, true)
		}
		if w == nil {
			continue
		}
		sm := &sharedMsg{w: w}
		if !foreign && t.Bool(1, 3, "c18.constructed.fresh") {
			// a message built by hand (labels spelt with any Go integer type)
			// that has only been signed so far: never encoded, never verified,
			// so every other first-use effect of a read path happens inside
			// the block
			fresh, ferr := r.LibIssue(spec, Spelling{T: t, Labels: true, Values: true, AlgLabel: true}, t.Bool(1, 2, "c18.fresh.typed"), ent, nil, false)
			if ferr != nil {
				continue
			}
			sm.w = &Wire{Kind: w.Kind, Dec: w.Dec, B: w.B, Spec: spec, Desc: w.Desc}
			sm.m1, sm.ms, sm.desc = fresh.M1, fresh.MS, "constructed-fresh "+spec.Kind.String()
			r.Probe("shared-message-never-encoded-before-block")
		} else if !foreign && t.Bool(1, 2, "c18.constructed") {
			sm.m1, sm.ms, sm.desc = is.M1, is.MS, "constructed "+spec.Kind.String()
		} else {
			rc, err := r.Decode(spec.Kind, w.B)
			if err != nil {
				continue
			}
			sm.m1, sm.ms, sm.desc = rc.M1, rc.MS, "decoded "+spec.Kind.String()
			if t.Bool(1, 5, "c18.rawonly") {
				// a message object assembled from stored raw header buckets:
				// the raw bytes are set, the parsed maps are not
				if sm.m1 != nil {
					sm.m1.Headers.Protected, sm.m1.Headers.Unprotected = nil, nil
				} else {
					sm.ms.Headers.Protected, sm.ms.Headers.Unprotected = nil, nil
					for _, sg := range sm.ms.Signatures {
						sg.Headers.Protected, sg.Headers.Unprotected = nil, nil
					}
				}
				sm.desc = "raw-only " + spec.Kind.String()
				r.Probe("shared-message-raw-buckets-only")
			}
		}
		sm.vs = r.verifiersFor(spec, false)
		msgs = append(msgs, sm)
	}
	if len(msgs) == 0 {
		r.Outcome("no-traffic")
		return
	}
	// a shared key, a shared envelope, shared signer
	ks := genKeySpec(t)
	var sharedKey *cose.Key
	if t.Bool(1, 2, "c18.key.converted") {
		// a key converted from a Go key: coordinates in minimal form in memory
		// (searched for leading zeros), the form MarshalCBOR has to pad
		fk := freshECKey(t)
		var ck *cose.Key
		var err error
		if t.Bool(1, 2, "c18.key.private") {
			r.Lib(func() { ck, err = cose.NewKeyFromPrivate(fk.Priv) })
		} else {
			r.Lib(func() { ck, err = cose.NewKeyFromPublic(fk.Pub) })
		}
		if err == nil {
			sharedKey = ck
			if t.Bool(1, 2, "c18.key.ops") {
				ck.Ops = []cose.KeyOp{cose.KeyOpVerify, cose.KeyOpDeriveBits, cose.KeyOpSign}
			}
			r.Probe("shared-key-converted-from-go-key")
		}
	} else {
		var k cose.Key
		var err error
		kb := ks.Bytes()
		r.Lib(func() { err = k.UnmarshalCBOR(kb) })
		if err == nil {
			sharedKey = &k
		}
	}
	if t.Bool(1, 6, "c18.key.literal") {
		// a key the application wrote down itself, with the Go key types as
		// parameter values (ed25519.PublicKey is a named byte slice)
		ek := poolEd[t.Choose(len(poolEd), "c18.key.literal.k")]
		pub := ek.Pub.(ed25519.PublicKey)
		lit := &cose.Key{Type: cose.KeyTypeOKP, Params: map[any]any{cose.KeyLabelOKPCurve: cose.CurveEd25519, cose.KeyLabelOKPX: pub}}
		if t.Bool(1, 2, "c18.key.literal.priv") {
			lit.Params[cose.KeyLabelOKPD] = ek.Priv.(ed25519.PrivateKey).Seed()
		}
		sharedKey = lit
		r.Probe("shared-key-struct-literal-with-named-types")
	}
	signKey := pickCheapKey(t)
	sharedSigner := r.signerFor(signKey, false)
	sharedSignVerifier := r.verifierFor(signKey, false)
	var envelope []byte
	{
		a := signKey.Alg
		h := libHeaders(envelopeSafe(genLayer(t, LayerOpts{MaxExtra: 2, Alg: &a})), Spelling{T: t}, true)
		var err error
		r.Lib(func() {
			envelope, err = cose.SignHashEnvelope(ent, sharedSigner, h, cose.HashEnvelopePayload{HashAlgorithm: cose.AlgorithmSHA256, HashValue: t.Bytes(32, "c18.digest")})
		})
		if err != nil {
			envelope = nil
		}
	}
	envVerifier := sharedSignVerifier // the envelope above was made with the signer of this key
	if t.Bool(1, 8, "c18.signer.barersa") {
		// an RSA key assembled from its components (JWK, HSM export): no CRT
		// values precomputed; every task signs through the one Signer made
		// from it
		src := poolRSA[t.Choose(2, "c18.signer.barersa.k")]
		pk := src.Priv.(*rsa.PrivateKey)
		bare := &rsa.PrivateKey{PublicKey: rsa.PublicKey{N: new(big.Int).Set(pk.N), E: pk.E}, D: new(big.Int).Set(pk.D), Primes: []*big.Int{new(big.Int).Set(pk.Primes[0]), new(big.Int).Set(pk.Primes[1])}}
		var bs cose.Signer
		var berr error
		r.Lib(func() { bs, berr = cose.NewSigner(cose.Algorithm(src.Alg), bare) })
		if berr == nil {
			signKey, sharedSigner, sharedSignVerifier = src, bs, r.verifierFor(src, false)
			r.Probe("shared-signer-over-bare-rsa-key")
		}
	}
	// ---- operation menu (closures over shared values only; nothing below
	// touches the Run or the tape)
	var menu []func() c18Op
	for _, smx := range msgs {
		sm := smx
		ext := sm.w.Spec.External
		kind := sm.w.Spec.Kind
		menu = append(menu, func() c18Op {
			return c18Op{"Verify(" + sm.desc + ")", func() c18Result {
				return guard(func() ([]byte, error) {
					if sm.ms != nil {
						return nil, sm.ms.Verify(ext, sm.vs...)
					}
					if kind == refcose.KSign1Untagged {
						return nil, (*cose.UntaggedSign1Message)(sm.m1).Verify(ext, sm.vs[0])
					}
					return nil, sm.m1.Verify(ext, sm.vs[0])
				})
			}}
		})
		// the same message checked under the verifier of ANOTHER key of the same
		// algorithm (a receiver trying its trusted keys in parallel): refused,
		// whoever else is verifying the message at that moment
		if others := verifiersOfOtherKeys(r, t, sm.w.Spec); others != nil {
			menu = append(menu, func() c18Op {
				return c18Op{"Verify(" + sm.desc + ", another key)", func() c18Result {
					return guard(func() ([]byte, error) {
						if sm.ms != nil {
							return nil, sm.ms.Verify(ext, others...)
						}
						if kind == refcose.KSign1Untagged {
							return nil, (*cose.UntaggedSign1Message)(sm.m1).Verify(ext, others[0])
						}
						return nil, sm.m1.Verify(ext, others[0])
					})
				}}
			})
		}
		if sm.ms != nil {
			// one call with verifiers of the caller's own that keep state (a
			// call counter, as a metering or kid-resolving verifier does): the
			// object is this goroutine's alone, so nothing may touch it from
			// anywhere else while the call runs
			menu = append(menu, func() c18Op {
				return c18Op{"Verify(" + sm.desc + ", own stateful verifiers)", func() c18Result {
					n := 0
					own := make([]cose.Verifier, len(sm.vs))
					for i, v := range sm.vs {
						own[i] = &countingVerifier{inner: v, n: &n}
					}
					res := guard(func() ([]byte, error) { return nil, sm.ms.Verify(ext, own...) })
					res.bytes = []byte{byte(n)}
					return res
				}}
			})
		}
		menu = append(menu, func() c18Op {
			return c18Op{"MarshalCBOR(" + sm.desc + ")", func() c18Result {
				return guard(func() ([]byte, error) {
					if sm.ms != nil {
						return sm.ms.MarshalCBOR()
					}
					if kind == refcose.KSign1Untagged {
						return (*cose.UntaggedSign1Message)(sm.m1).MarshalCBOR()
					}
					return sm.m1.MarshalCBOR()
				})
			}}
		})
		// decoding the shared wire bytes into a task-private destination
		wireBytes := sm.w.B
		menu = append(menu, func() c18Op {
			return c18Op{"Unmarshal(shared bytes, private destination)", func() c18Result {
				return guard(func() ([]byte, error) {
					dec := decoderForKind(kind)
					dst := dec.New()
					if err := dec.Into(dst, wireBytes); err != nil {
						return nil, err
					}
					return dec.Encode(dst)
				})
			}}
		})
		// header accessors and bucket encoders on the shared headers
		menu = append(menu, func() c18Op {
			return c18Op{"Headers accessors", func() c18Result {
				return guard(func() ([]byte, error) {
					var h *cose.Headers
					if sm.m1 != nil {
						h = &sm.m1.Headers
					} else {
						h = &sm.ms.Headers
					}
					p, err := h.MarshalProtected()
					if err != nil {
						return nil, err
					}
					u, err := h.MarshalUnprotected()
					if err != nil {
						return nil, err
					}
					alg, aerr := h.Protected.Algorithm()
					crit, cerr := h.Protected.Critical()
					pb, _ := h.Protected.MarshalCBOR()
					ub, _ := h.Unprotected.MarshalCBOR()
					out := append(append(append(append([]byte{}, p...), u...), pb...), ub...)
					return append(out, []byte(fmt.Sprintf("%d/%v/%d/%v", int64(alg), aerr != nil, len(crit), cerr != nil))...), nil
				})
			}}
		})
		// abbreviated countersignature over the shared parent with the shared signer
		menu = append(menu, func() c18Op {
			return c18Op{"Countersign0(shared parent, shared signer)", func() c18Result {
				return guard(func() ([]byte, error) {
					var parent any = sm.ms
					if sm.m1 != nil {
						parent = sm.m1
					}
					sig, err := cose.Countersign0(NewEntropy(7), sharedSigner, parent, nil)
					if err != nil {
						return nil, err
					}
					if err := cose.VerifyCountersign0(sharedSignVerifier, parent, nil, sig); err != nil {
						return []byte("countersigned-but-does-not-verify"), nil
					}
					if _, isEd := signKey.Pub.(ed25519.PublicKey); isEd {
						return sig, nil // deterministic algorithm: bytes comparable
					}
					return []byte("ok"), nil
				})
			}}
		})
		// countersignatures on the shared message
		rc := &Received{Kind: kind, M1: sm.m1, MS: sm.ms}
		walkWireCsigs(sm.w, rc, func(n *CsigNode, cs *cose.Countersignature, abbrev []byte, parent any) {
			verifier := r.verifierFor(n.Key, false)
			ext := n.External
			if n.Abbrev {
				if abbrev == nil {
					return
				}
				menu = append(menu, func() c18Op {
					return c18Op{"VerifyCountersign0", func() c18Result {
						return guard(func() ([]byte, error) { return nil, cose.VerifyCountersign0(verifier, parent, ext, abbrev) })
					}}
				})
				return
			}
			if cs == nil {
				return
			}
			menu = append(menu, func() c18Op {
				return c18Op{"Countersignature.Verify", func() c18Result {
					return guard(func() ([]byte, error) { return nil, cs.Verify(verifier, parent, ext) })
				}}
			})
			menu = append(menu, func() c18Op {
				return c18Op{"Countersignature.MarshalCBOR", func() c18Result {
					return guard(func() ([]byte, error) { return cs.MarshalCBOR() })
				}}
			})
		})
	}
	if sharedKey != nil {
		menu = append(menu, func() c18Op {
			return c18Op{"Key.MarshalCBOR", func() c18Result { return guard(func() ([]byte, error) { return sharedKey.MarshalCBOR() }) }}
		})
		menu = append(menu, func() c18Op {
			return c18Op{"Key.Verifier", func() c18Result {
				return guard(func() ([]byte, error) {
					v, err := sharedKey.Verifier()
					if err != nil {
						return nil, err
					}
					return []byte(fmt.Sprint(int64(v.Algorithm()))), nil
				})
			}}
		})
		menu = append(menu, func() c18Op {
			return c18Op{"Key.Signer+PrivateKey", func() c18Result {
				return guard(func() ([]byte, error) {
					_, perr := sharedKey.PrivateKey()
					sg, err := sharedKey.Signer()
					if err != nil {
						return []byte(fmt.Sprint(perr != nil)), err
					}
					a, _ := sharedKey.AlgorithmOrDefault()
					return []byte(fmt.Sprint(int64(sg.Algorithm()), int64(a), perr != nil)), nil
				})
			}}
		})
		menu = append(menu, func() c18Op {
			return c18Op{"Key.PublicKey", func() c18Result {
				return guard(func() ([]byte, error) {
					_, err := sharedKey.PublicKey()
					return nil, err
				})
			}}
		})
	}
	if envelope != nil {
		menu = append(menu, func() c18Op {
			return c18Op{"VerifyHashEnvelope", func() c18Result {
				return guard(func() ([]byte, error) {
					m, err := cose.VerifyHashEnvelope(envVerifier, envelope)
					if err != nil {
						return nil, err
					}
					return m.Payload, nil
				})
			}}
		})
	}
	// Sign on a task-private message with the shared signer: the private
	// message is rebuilt from a pre-drawn spec for the solo run and for the
	// concurrent run alike
	nsign := 0
	addSign := func() func() c18Op {
		a := signKey.Alg
		lo := LayerOpts{MaxExtra: 2}
		ext := genExternal(t)
		if len(ext) == 0 || t.Bool(1, 2, "c18.sign.alg") {
			lo.Alg = &a
		}
		layer := genLayer(t, lo)
		payload := genPayload(t, false)
		seed := uint64(t.U32("c18.sign.entropy"))
		typed := t.Bool(1, 2, "c18.sign.typed")
		nsign++
		return func() c18Op {
			return c18Op{"Sign(private message, shared signer)", func() c18Result {
				return guard(func() ([]byte, error) {
					m := &cose.Sign1Message{Headers: libHeaders(layer, Spelling{}, typed), Payload: append([]byte{}, payload...)}
					if err := m.Sign(NewEntropy(seed), ext, sharedSigner); err != nil {
						return nil, err
					}
					if err := m.Verify(ext, sharedSignVerifier); err != nil {
						return []byte("signed-but-does-not-verify"), nil
					}
					return m.MarshalCBOR()
				})
			}}
		}
	}
	// signing with signer objects that are NOT shared: several issuers in one
	// process, each with its own key and algorithm (RSASSA-PSS under
	// different hashes, ECDSA, EdDSA, native or behind a crypto.Signer).
	// Nothing is shared between them except what the library keeps at
	// package level.
	addOwnSign := func() func() c18Op {
		var k *KeyPair
		if t.Bool(1, 2, "c18.own.rsa") {
			k = poolRSA[t.Choose(len(poolRSA), "c18.own.rsa.k")].withAlg([]int64{-37, -38, -39}[t.Choose(3, "c18.own.rsa.alg")])
		} else {
			k = pickKey(t)
		}
		signer, verifier := r.signerFor(k, false), r.verifierFor(k, false)
		a := k.Alg
		layer := genLayer(t, LayerOpts{MaxExtra: 2, Alg: &a})
		payload := genPayload(t, false)
		seed := uint64(t.U32("c18.sign.entropy"))
		name := fmt.Sprintf("Sign(private message, signer of its own: alg %d)", k.Alg)
		return func() c18Op {
			return c18Op{name, func() c18Result {
				return guard(func() ([]byte, error) {
					m := &cose.Sign1Message{Headers: libHeaders(layer, Spelling{}, true), Payload: append([]byte{}, payload...)}
					if err := m.Sign(NewEntropy(seed), nil, signer); err != nil {
						return nil, err
					}
					if err := m.Verify(nil, verifier); err != nil {
						return []byte("signed-but-does-not-verify"), nil
					}
					return m.MarshalCBOR()
				})
			}}
		}
	}
	// ---- tasks
	ntasks := 2 + t.Choose(5, "c18.ntasks")
	type taskPlan struct {
		ops  []c18Op
		solo []c18Result
		got  []c18Result
	}
	plans := make([]*taskPlan, ntasks)
	var opNames []string
	// a herd: every task runs the same operations on the same shared values
	// (N request handlers verifying one message) - the commonest concurrent
	// use there is
	herd := t.Bool(1, 4, "c18.herd")
	var herdKinds []int
	for ti := range plans {
		p := &taskPlan{}
		if herd && ti > 0 {
			// the same read-only operations on the same shared values; signing
			// operations of the same kind, each on a message of its own
			for _, k := range herdKinds {
				switch {
				case k == -1:
					p.ops = append(p.ops, addSign()())
				case k == -2:
					p.ops = append(p.ops, addOwnSign()())
				default:
					p.ops = append(p.ops, menu[k]())
				}
			}
			p.got = make([]c18Result, len(p.ops))
			plans[ti] = p
			continue
		}
		nops := 1 + t.Choose(4, "c18.nops")
		for j := 0; j < nops; j++ {
			var mk func() c18Op
			kind := 0
			if t.Bool(1, 4, "c18.op.sign") {
				mk, kind = addSign(), -1
			} else if t.Bool(1, 6, "c18.op.ownsign") {
				mk, kind = addOwnSign(), -2
			} else {
				kind = t.Choose(len(menu), "c18.op")
				mk = menu[kind]
			}
			if ti == 0 {
				herdKinds = append(herdKinds, kind)
			}
			p.ops = append(p.ops, mk())
		}
		p.got = make([]c18Result, len(p.ops))
		plans[ti] = p
	}
	// ---- schedule (drawn now; the tasks never touch the tape)
	cfg := SchedConfig{Mode: t.Choose(2, "c18.sched.mode"), First: t.Choose(ntasks, "c18.sched.first")}
	if herd && t.Bool(1, 2, "c18.sched.lockstep") {
		cfg.Mode = 2
		r.Probe("herd-in-lock-step")
	}
	if cfg.Mode == 2 {
		// nothing more to draw
	} else if cfg.Mode == 0 {
		np := t.Choose(9, "c18.sched.npre")
		at := int64(0)
		for i := 0; i < np; i++ {
			at += int64(1 + t.Choose(400, "c18.sched.at"))
			cfg.PreAt = append(cfg.PreAt, at)
			cfg.PreTo = append(cfg.PreTo, t.Choose(ntasks, "c18.sched.to"))
		}
	} else {
		cfg.Seed = uint64(t.U32("c18.sched.seed"))
		cfg.Stick = []uint32{0, 500, 900, 990}[t.Choose(4, "c18.sched.stick")]
	}
	cfg.CheckEvery = []int64{0, 1, 8, 64}[t.Pick([]int{3, 1, 3, 3}, "c18.sched.check")]
	if RaceMode {
		cfg.CheckEvery = -1
	}
	// ---- initial snapshots.  The operations run for the FIRST time inside
	// the block (a hidden first-use write, e.g. a cache filled by a read path,
	// then happens concurrently, where the monitors and the race detector can
	// see it); the sequential reference results are taken afterwards, alone,
	// on the main goroutine.
	for _, p := range plans {
		for _, op := range p.ops {
			opNames = append(opNames, op.name)
		}
	}
	type watched struct {
		name string
		val  any
		snap string
	}
	var watch []*watched
	for i, sm := range msgs {
		if sm.m1 != nil {
			watch = append(watch, &watched{name: fmt.Sprintf("message %d (%s)", i, sm.desc), val: sm.m1})
		} else {
			watch = append(watch, &watched{name: fmt.Sprintf("message %d (%s)", i, sm.desc), val: sm.ms})
		}
		for j, v := range sm.vs {
			watch = append(watch, &watched{name: fmt.Sprintf("verifier %d of message %d", j, i), val: v})
		}
	}
	if sharedKey != nil {
		watch = append(watch, &watched{name: "shared COSE_Key", val: sharedKey})
	}
	watch = append(watch, &watched{name: "shared signer", val: sharedSigner}, &watched{name: "shared verifier", val: sharedSignVerifier})
	if envelope != nil {
		watch = append(watch, &watched{name: "envelope bytes", val: envelope})
	}
	for _, w := range watch {
		w.snap = Snapshot(w.val)
	}
	monitor := func() string {
		for _, w := range watch {
			if s := Snapshot(w.val); s != w.snap {
				return w.name + " changed\n" + diffSnapshot(w.snap, s)
			}
		}
		return ""
	}
	r.Op("CONCURRENT", "%d tasks, ops %v, schedule mode=%d first=%d preemptions=%d stick=%d check-every=%d", ntasks, opNames, cfg.Mode, cfg.First, len(cfg.PreAt), cfg.Stick, cfg.CheckEvery)
	tasks := make([]func(), ntasks)
	for ti := range plans {
		p := plans[ti]
		tasks[ti] = func() {
			for j, op := range p.ops {
				p.got[j] = op.run()
			}
		}
	}
	// inside the block the tasks must not touch the tape: map ranges follow the
	// canonical order there (and in the reference runs afterwards, so that the
	// two are comparable)
	SetPermHook(nil)
	res := RunConcurrent(cfg, tasks, monitor)
	if res.Aborted {
		// a task blocked outside a yield point (a lock held by a parked task):
		// this schedule cannot be executed under a serialising scheduler; the
		// run is not judged (the race build still sees whatever ran freely)
		r.Probe("schedule-infeasible(task-blocked)")
		r.Skip("schedule infeasible: a task blocked outside a yield point")
	}
	if res.BlockedHandoffs > 0 {
		// a task waited in a lock / channel / condition for a parked one and
		// the next runnable task was run instead
		r.Probe("task-blocked-control-handed-on")
	}
	r.Steps += int(res.Steps)
	r.Logf("schedule hash %x steps %d switches %d", res.Hash, res.Steps, res.Switches)
	r.sched = append(r.sched, res.Hash)
	for _, s := range res.SwitchSites {
		name := SiteName(s)
		switch {
		case contains(name, "Verify"):
			r.Probe("preempt-inside-Verify")
		case contains(name, "toBeSigned") || contains(name, "ToBeSigned"):
			r.Probe("preempt-inside-toBeSigned")
		case contains(name, "Marshal") || contains(name, "getContent") || contains(name, "marshal"):
			r.Probe("preempt-inside-Marshal")
		case contains(name, "Sign"):
			r.Probe("preempt-inside-Sign")
		case contains(name, "validate") || contains(name, "ensure"):
			r.Probe("preempt-inside-header-validation")
		default:
			r.Probe("preempt-elsewhere")
		}
	}
	if res.Switches > 0 {
		r.Fired("preempt@site")
	}
	r.Outcome(fmt.Sprintf("tasks=%d/switches=%s/sched=%x", ntasks, bucket(res.Switches), res.Hash))
	r.Check()
	if res.Violation != "" {
		r.Fail("shared-value-modified-during-concurrent-read", "at a scheduler step inside the block a shared value differed from its initial snapshot: %s\noperations: %v", res.Violation, opNames)
		return
	}
	if v := monitor(); v != "" {
		r.Fail("shared-value-modified-after-block", "after the block: %s\noperations: %v", v, opNames)
		return
	}
	for _, p := range plans {
		for _, op := range p.ops {
			p.solo = append(p.solo, op.run())
		}
	}
	if v := monitor(); v != "" {
		r.Fail("shared-value-modified-by-sequential-read", "after running the operations alone: %s\noperations: %v", v, opNames)
		return
	}
	k := 0
	for ti, p := range plans {
		for j := range p.ops {
			r.Check()
			got, want := p.got[j], p.solo[j]
			if got.panic != "" {
				r.Fail("panic-in-concurrent-operation/"+opKind(p.ops[j].name), "task %d op %d (%s) panicked: %s", ti, j, p.ops[j].name, got.panic)
				return
			}
			if !got.equal(want) {
				r.Fail("concurrent-result-differs-from-sequential/"+opKind(p.ops[j].name),
					"task %d op %d (%s): alone it returned (err=%v, %s), inside the block (err=%v, %s)\nschedule: mode=%d switches=%d hash=%x", ti, j, p.ops[j].name, want.err, hexShort(want.bytes), got.err, hexShort(got.bytes), cfg.Mode, res.Switches, res.Hash)
				return
			}
			k++
		}
	}
	if nsign > 0 {
		r.Probe("concurrent-sign-with-shared-signer")
	}
}

func opKind(name string) string {
	for i := 0; i < len(name); i++ {
		if name[i] == '(' {
			return name[:i]
		}
	}
	return name
}

func bucket(n int64) string {
	switch {
	case n == 0:
		return "0"
	case n < 4:
		return "1-3"
	case n < 16:
		return "4-15"
	case n < 64:
		return "16-63"
	}
	return "64+"
}

var _ = tape.Mix

// verifiersOfOtherKeys: for every signer of the spec a verifier of another key
// with the same algorithm (nil when there is none for some position).
func verifiersOfOtherKeys(r *Run, t *tape.Tape, spec *MsgSpec) []cose.Verifier {
	keys := keysOf(spec)
	out := make([]cose.Verifier, len(keys))
	for i, k := range keys {
		o := otherKey(t, k, true)
		if o == nil || o.Alg != k.Alg {
			return nil
		}
		out[i] = r.verifierFor(o, false)
	}
	return out
}

// countingVerifier is an application verifier with state of its own.
type countingVerifier struct {
	inner cose.Verifier
	n     *int
}

func (c *countingVerifier) Algorithm() cose.Algorithm { return c.inner.Algorithm() }
func (c *countingVerifier) Verify(content, signature []byte) error {
	*c.n = *c.n + 1
	return c.inner.Verify(content, signature)
}
