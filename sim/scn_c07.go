package sim

import (
	"fmt"

	cose "github.com/veraison/go-cose"

	"verif/refcose"
)

func init() {
	Scenarios["C07"] = scenarioC07
	Infos["C07"] = ScenarioInfo{
		Level: "exploration",
		Rule: "one run = the foreign peer (the reference model acting as an independent COSE stack) generates a conforming message from the grammar (Sign1 tagged/untagged, Sign with 1..4 signers, " +
			"0..40 labels per bucket, nested values, full countersignatures single/list nested <= 3), chooses encoder freedoms from the tape (head width of every item, key order of every map, h'' or h'a0', " +
			"width of payload/signature/protected/list heads), signs its own Sig_structure / Countersign_structure over its own wire bytes with the Go standard library, and sends it; go-cose must decode it and " +
			"verify the message, every COSE_Signature and every nested countersignature. Non-trivial = the message reached go-cose's decoder; distinct = distinct (kind, encoder-freedom classes used, countersignature shape, outcome) sequence.",
		Assumptions: []string{"the reference encoder/signer (refcbor, refcose) reads RFC 8949/9052/9338 correctly; it is self-tested against the repository's conformance vectors",
			"documented limits of the property: definite lengths, ints within int64, no tags, shortest-form tag/array heads of the COSE structures themselves"},
		Real:      []string{"github.com/veraison/go-cose decoders and verifiers", "github.com/fxamacker/cbor/v2", "Go crypto"},
		Stubs:     []string{"foreign peer = reference model (refcbor/refcose) + Go crypto", "entropy source", "wire (byte copy)"},
		QuickRuns: 150000, ThoroughRuns: 2500000,
	}
}

func scenarioC07(r *Run) {
	t := r.T
	so := SpecOpts{MaxExtra: 6, MaxSigner: 4, BigOK: bigOK(r, "c07.big")}
	if t.Bool(1, 5, "c07.manylabels") {
		so.MaxExtra = 40
	}
	if t.Bool(1, 4, "c07.tagged") {
		so.TaggedProtected = true
		r.Probe("tagged-values-in-protected-headers")
	}
	spec := genSpec(t, so)
	k := genKnobs(t)
	ent := NewEntropy(uint64(t.U32("entropy.seed")))
	detached := t.Bool(1, 5, "c07.detached")
	depth := t.Choose(4, "c07.csig.depth")
	if t.Bool(1, 40, "c07.csig.deep") {
		depth = 4 + t.Choose(3, "c07.csig.deeper") // well inside the CBOR nesting limit
		r.Probe("foreign-countersig-depth>=4")
	}
	w := r.ForeignWire(t, spec, k, ent, detached, depth, false)
	r.Op("FOREIGN_ISSUE", "%s knobs{rewidth=%d/16 reorder=%v a0=%v} detached=%v csigdepth=%d", spec, k.Rewidth, k.Reorder, k.A0, detached, depth)
	r.Logf("wire %x", w.B)
	if k.Rewidth > 0 {
		r.Outcome("wide-heads")
	}
	if k.Reorder {
		r.Outcome("reordered")
	}
	{
		algs := ""
		for _, k := range keysOf(spec) {
			algs += fmt.Sprintf("%d,", k.Alg)
		}
		r.Outcome(fmt.Sprintf("%s/algs=%s/ext=%s/prot=%s/detached=%v/a0=%v/csigdepth=%d", spec.Kind, algs, extClass(spec.External), sizeClass(len(spec.Layer.Prot)), detached, k.A0, depth))
	}
	r.Check()
	rc, err := r.Decode(spec.Kind, w.B)
	if err != nil {
		r.Fail("foreign-message-refused/"+spec.Kind.String(), "a conforming message in a valid non-deterministic encoding was refused: %v\nwire: %s\nspec: %s", err, hexShort(w.B), spec)
		return
	}
	if detached {
		rc.SetPayload(append([]byte{}, spec.Payload...))
	}
	// a receiver that empties its mailbox before it looks at anything: one or
	// two further conforming messages of the same peer (small ones, any
	// kind, other keys) are decoded now and verified after the first
	type laterMsg struct {
		spec *MsgSpec
		w    *Wire
		rc   *Received
	}
	var later []laterMsg
	if t.Bool(1, 3, "c07.batch") {
		for j, n := 0, 1+t.Choose(2, "c07.batch.n"); j < n; j++ {
			kinds := []refcose.Kind{spec.Kind}
			if t.Bool(1, 4, "c07.batch.anykind") {
				kinds = nil
			}
			s2 := genSpec(t, SpecOpts{Kinds: kinds, MaxExtra: 2, MaxSigner: 2, Cheap: true})
			w2 := r.ForeignWire(t, s2, genKnobs(t), ent, false, t.Choose(2, "c07.batch.csig"), false)
			r.Op("FOREIGN_ISSUE", "(batch) %s", s2)
			rc2, err2 := r.Decode(s2.Kind, w2.B)
			r.Check()
			if err2 != nil {
				r.Fail("foreign-message-refused/"+s2.Kind.String(), "a conforming message in a valid non-deterministic encoding was refused (decoded after another one): %v\nwire: %s\nspec: %s", err2, hexShort(w2.B), s2)
				return
			}
			later = append(later, laterMsg{s2, w2, rc2})
		}
		r.Fired("receiver.decodes-batch-before-verifying")
	}
	verifyLater := func() {
		for _, l := range later {
			r.Check()
			if err := r.VerifyLib(l.rc, l.spec.External, r.verifiersFor(l.spec, false)...); err != nil {
				r.Fail("foreign-message-does-not-verify/"+l.spec.Kind.String(), "a message signed by an independent implementation over its wire bytes does not verify when it is one of several decoded before any is verified: %v\nwire: %s\nspec: %s", err, hexShort(l.w.B), l.spec)
				return
			}
		}
	}
	vs := r.verifiersFor(spec, false)
	if t.Bool(1, 4, "c07.trial") {
		// a receiver that tries its trusted keys one after the other: first a
		// verifier of another key (and possibly another algorithm, other
		// external data), which must be turned down - and must leave the
		// decoded message fit for the attempt with the right key
		tv := append([]cose.Verifier{}, vs...)
		i := t.Choose(len(tv), "c07.trial.i")
		keys := keysOf(spec)
		if o := otherKey(t, keys[i], t.Bool(1, 2, "c07.trial.samealg")); o != nil {
			tv[i] = r.verifierFor(o, false)
			ext := spec.External
			if t.Bool(1, 4, "c07.trial.ext") {
				ext = genExternal(t)
			}
			terr := r.VerifyLib(rc, ext, tv...)
			r.Fired("verifier.trial-with-other-key")
			r.Check()
			if terr == nil {
				r.Fail("verifies-under-another-key/"+spec.Kind.String(), "Verify returned nil with the verifier of another key (%s) at position %d\nwire: %s", o.Name, i, hexShort(w.B))
				return
			}
		}
	}
	r.Check()
	if err := r.VerifyLib(rc, spec.External, vs...); err != nil {
		r.Fail("foreign-message-does-not-verify/"+spec.Kind.String(), "a message signed by an independent implementation over its wire bytes does not verify: %v\nwire: %s\nspec: %s", err, hexShort(w.B), spec)
		return
	}
	r.Outcome("verified")
	ncs := 0
	walkWireCsigs(w, rc, func(n *CsigNode, cs *cose.Countersignature, abbrev []byte, parent any) {
		if n.Abbrev {
			return
		}
		ncs++
		r.Check()
		if cs == nil {
			r.Fail("foreign-countersignature-lost", "countersignature under label %d index %d not found after decoding\nwire: %s", n.Label, n.Index, hexShort(w.B))
			return
		}
		verifier := r.verifierFor(n.Key, false)
		var verr error
		r.Lib(func() { verr = cs.Verify(verifier, parent, n.External) })
		if verr != nil {
			r.Fail("foreign-countersignature-does-not-verify", "a countersignature made by an independent implementation does not verify against its decoded parent (%T): %v\nwire: %s", parent, verr, hexShort(w.B))
		}
	})
	if ncs > 0 {
		r.Outcome("countersigs-verified")
		r.Probe("foreign-countersigs-verified")
	}
	verifyLater()
}
