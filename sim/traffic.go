package sim

import (
	"fmt"

	cose "github.com/veraison/go-cose"

	"verif/refcbor"
	"verif/refcose"
	"verif/tape"
)

// CsigNode records one countersignature made in the simulated world, where
// it hangs, and what is needed to verify it.
type CsigNode struct {
	Label    int64
	Index    int // position under the label: 0 for a single value, i in a list
	Abbrev   bool
	Key      *KeyPair
	External []byte
	Children []*CsigNode // countersignatures attached to this countersignature
}

// Wire is one message (or stand-alone object) in flight, with the simulator's
// ground truth about it.
type Wire struct {
	Kind     refcose.Kind
	Dec      string // name of the decoder responsible for it
	B        []byte
	Spec     *MsgSpec // nil for stand-alone signature objects and buckets
	Foreign  bool
	Detached bool
	// BodyCsigs are countersignatures on the message; SigCsigs[i] those on
	// COSE_Signature i.
	BodyCsigs []*CsigNode
	SigCsigs  [][]*CsigNode
	Desc      string
}

// ---------------------------------------------------------------------------
// Foreign peer: countersignatures

func foreignCsigLabel(t *tape.Tape, pk refcose.ParentKind, abbrev bool) int64 {
	v2 := pk == refcose.PSign1 || t.Bool(1, 2, "fcsig.v2label")
	switch {
	case abbrev && v2:
		return refcose.LCsig0V2
	case abbrev:
		return refcose.LCsig0
	case v2:
		return refcose.LCsigV2
	}
	return refcose.LCsig
}

// foreignCountersign makes 0..2 full countersignatures (and optionally an
// abbreviated one) over a parent, nested up to depth levels.  It returns the
// map entries to add to the parent's unprotected bucket and the ground truth.
func (r *Run) foreignCountersign(t *tape.Tape, parent *ForeignParent, depth int, k Knobs, ent *Entropy, withAbbrev bool) (*refcbor.Item, []*CsigNode) {
	frag := refcbor.Map()
	var nodes []*CsigNode
	n := t.Pick([]int{3, 6, 3, 2, 1}, "fcsig.n")
	if n > 0 && t.Bool(1, 25, "fcsig.long") {
		// a long list (a document countersigned by a whole panel of notaries)
		n = 5 + t.Choose(6, "fcsig.long.n")
	}
	if n > 0 {
		label := foreignCsigLabel(t, parent.Kind, false)
		var objs []*refcbor.Item
		for i := 0; i < n; i++ {
			key := pickCheapKey(t)
			ext := genExternal(t)
			lo := LayerOpts{MaxExtra: 2, NoCrit: t.Bool(1, 2, "fcsig.nocrit")}
			if len(ext) == 0 || t.Bool(2, 3, "fcsig.alg") {
				a := key.Alg
				lo.Alg = &a
			}
			fl := r.foreignLayer(genLayer(t, lo), k)
			tbs := refcose.CountersignStructures(parent.Kind, false, parent.Prot, fl.ProtContent, ext, parent.Payload, parent.Sig)[0]
			sig := foreignSign(key, tbs, ent)
			node := &CsigNode{Label: label, Index: i, Key: key, External: ext}
			if depth > 1 && (t.Bool(1, 3, "fcsig.nest") || depth > 3) {
				child, cn := r.foreignCountersign(t, &ForeignParent{Kind: refcose.PCountersignature, Prot: fl.ProtContent, Payload: sig}, depth-1, k, ent, withAbbrev)
				fl.Unprot.Elems = append(fl.Unprot.Elems, child.Elems...)
				node.Children = cn
				if len(cn) > 0 {
					r.Probe("foreign-nested-countersig")
				}
			}
			objs = append(objs, refcbor.Array(fl.ProtBstr, fl.Unprot, bstrKnob(k, sig)))
			nodes = append(nodes, node)
		}
		if n == 1 && t.Bool(2, 3, "fcsig.single") {
			frag.Elems = append(frag.Elems, refcbor.Uint(uint64(label)), objs[0])
		} else {
			list := refcbor.Array(objs...)
			if k.T != nil && k.Rewidth > 0 && k.T.Choose(16, "knob.csiglist.head") < k.Rewidth {
				widen(k.T, list)
			}
			frag.Elems = append(frag.Elems, refcbor.Uint(uint64(label)), list)
			r.Probe("foreign-countersig-list")
		}
		if parent.Kind != refcose.PSign1 && t.Bool(1, 8, "fcsig.bothgenerations") {
			// countersigned by an RFC 8152 party and by an RFC 9338 party: the
			// old label (7) and the new one (11) side by side in one bucket -
			// two different parameters
			other := int64(refcose.LCsig)
			if label == refcose.LCsig {
				other = refcose.LCsigV2
			}
			frag.Elems = append(frag.Elems, refcbor.Uint(uint64(other)), objs[0])
			cp := *nodes[0]
			cp.Label, cp.Index = other, 0
			nodes = append(nodes, &cp)
			r.Probe("foreign-countersig-both-generations")
		}
	}
	if withAbbrev && t.Bool(1, 4, "fcsig.abbrev") {
		key := pickCheapKey(t)
		ext := genExternal(t)
		label := foreignCsigLabel(t, parent.Kind, true)
		tbs := refcose.CountersignStructures(parent.Kind, true, parent.Prot, nil, ext, parent.Payload, parent.Sig)[0]
		sig := foreignSign(key, tbs, ent)
		frag.Elems = append(frag.Elems, refcbor.Uint(uint64(label)), bstrKnob(k, sig))
		nodes = append(nodes, &CsigNode{Label: label, Abbrev: true, Key: key, External: ext})
	}
	frag.Arg = uint64(len(frag.Elems) / 2)
	return frag, nodes
}

// ForeignWire lets the foreign peer issue a message (with countersignatures
// when csigDepth > 0).
func (r *Run) ForeignWire(t *tape.Tape, s *MsgSpec, k Knobs, ent *Entropy, detached bool, csigDepth int, withAbbrev bool) *Wire {
	w := &Wire{Kind: s.Kind, Dec: decoderForKind(s.Kind).Name, Spec: s, Foreign: true, Detached: detached}
	if s.Kind == refcose.KSignTagged {
		w.SigCsigs = make([][]*CsigNode, len(s.Signers))
	}
	sigIdx := 0
	var cb func(parent *ForeignParent) *refcbor.Item
	if csigDepth > 0 {
		cb = func(parent *ForeignParent) *refcbor.Item {
			isSig := parent.Kind == refcose.PSignature
			idx := sigIdx
			if isSig {
				sigIdx++
			}
			if !t.Bool(1, 2, "fwire.csig.here") {
				return nil
			}
			frag, nodes := r.foreignCountersign(t, parent, csigDepth, k, ent, withAbbrev)
			if isSig {
				w.SigCsigs[idx] = nodes
			} else {
				w.BodyCsigs = nodes
			}
			return frag
		}
	}
	fm := r.ForeignIssue(s, k, ent, detached, cb)
	w.B = fm.Bytes
	w.Desc = "foreign " + s.Kind.String()
	return w
}

// ---------------------------------------------------------------------------
// go-cose side: countersignature trees on in-memory values

// libCountersign attaches countersignatures made with go-cose to a parent in
// memory.  Failures to countersign a valid parent abandon the run unless the
// scenario checks them itself (C01/C10 do); here they are only probed.
func (r *Run) libCountersign(t *tape.Tape, ent *Entropy, p Parent, depth int, withAbbrev bool) []*CsigNode {
	var nodes []*CsigNode
	n := t.Pick([]int{3, 6, 3, 2, 1}, "lcsig.n")
	asList := n > 1 || t.Bool(1, 3, "lcsig.aslist")
	label := csigLabel(t, p.Kind, false)
	var fulls []*cose.Countersignature
	for i := 0; i < n; i++ {
		key := pickCheapKey(t)
		ext := genExternal(t)
		cs := cose.NewCountersignature()
		lo := LayerOpts{MaxExtra: 2}
		if len(ext) == 0 || t.Bool(2, 3, "lcsig.alg") {
			a := key.Alg
			lo.Alg = &a
		}
		cs.Headers = libHeaders(genLayer(t, lo), Spelling{T: t}, t.Bool(1, 2, "lcsig.typed"))
		signer := r.signerFor(key, false)
		var err error
		r.Lib(func() { err = cs.Sign(ent, signer, p.Arg, ext) })
		if err != nil {
			r.Probe("traffic-countersign-refused")
			continue
		}
		node := &CsigNode{Label: label, Index: len(fulls), Key: key, External: ext}
		if depth > 1 && t.Bool(1, 3, "lcsig.nest") {
			node.Children = r.libCountersign(t, ent, parentOfCountersignature(t, cs), depth-1, withAbbrev)
		}
		fulls = append(fulls, cs)
		nodes = append(nodes, node)
	}
	if p.Headers.Unprotected == nil {
		p.Headers.Unprotected = cose.UnprotectedHeader{}
	}
	if len(fulls) > 0 {
		p.Headers.RawUnprotected = nil
		if len(fulls) == 1 && !asList {
			p.Headers.Unprotected[label] = fulls[0]
		} else {
			p.Headers.Unprotected[label] = fulls
		}
	}
	if withAbbrev && t.Bool(1, 4, "lcsig.abbrev") {
		key := pickCheapKey(t)
		ext := genExternal(t)
		signer := r.signerFor(key, false)
		var sig []byte
		var err error
		// the abbreviated countersignature is made before any attachment
		// changes the parent's unprotected bucket (which it does not cover)
		r.Lib(func() { sig, err = cose.Countersign0(ent, signer, p.Arg, ext) })
		if err == nil {
			l0 := csigLabel(t, p.Kind, true)
			p.Headers.RawUnprotected = nil
			p.Headers.Unprotected[l0] = sig
			nodes = append(nodes, &CsigNode{Label: l0, Abbrev: true, Key: key, External: ext})
		}
	}
	return nodes
}

// LibWire issues a message with go-cose, optionally countersigned, and encodes
// it.  It returns nil when go-cose refuses the (conforming) spec; that is
// C01's business and only probed here.
func (r *Run) LibWire(t *tape.Tape, s *MsgSpec, ent *Entropy, detached bool, csigDepth int, withAbbrev bool) (*Wire, *Issued) {
	is, err := r.LibIssue(s, Spelling{T: t}, t.Bool(1, 2, "lwire.typedalg"), ent, nil, false)
	if err != nil {
		r.Probe("traffic-sign-refused")
		return nil, nil
	}
	w := &Wire{Kind: s.Kind, Dec: decoderForKind(s.Kind).Name, Spec: s, Detached: detached}
	if csigDepth > 0 {
		if is.M1 != nil {
			if t.Bool(1, 2, "lwire.csig.body") {
				w.BodyCsigs = r.libCountersign(t, ent, parentOfSign1(t, is.M1), csigDepth, withAbbrev)
			}
		} else {
			w.SigCsigs = make([][]*CsigNode, len(is.MS.Signatures))
			for i, sg := range is.MS.Signatures {
				if t.Bool(1, 3, "lwire.csig.sig") {
					w.SigCsigs[i] = r.libCountersign(t, ent, parentOfSignature(t, sg), csigDepth, withAbbrev)
				}
			}
			if t.Bool(1, 2, "lwire.csig.body") {
				w.BodyCsigs = r.libCountersign(t, ent, parentOfSign(t, is.MS), csigDepth, withAbbrev)
			}
		}
	}
	b, err := r.Encode(is, detached)
	if err != nil {
		r.Probe("traffic-encode-refused")
		return nil, nil
	}
	w.B = b
	w.Desc = "go-cose " + s.Kind.String()
	return w, is
}

// TrafficOpts steers the traffic generator.
type TrafficOpts struct {
	Spec       SpecOpts
	CsigDepth  int
	Abbrev     bool
	ForeignPct int // percentage of messages issued by the foreign peer
	Detach     bool
}

// GenWire produces one valid message in flight (never nil unless go-cose
// refuses a conforming spec three times in a row).
func (r *Run) GenWire(t *tape.Tape, o TrafficOpts, ent *Entropy) *Wire {
	for tries := 0; tries < 3; tries++ {
		s := genSpec(t, o.Spec)
		detached := o.Detach && t.Bool(1, 5, "traffic.detached")
		depth := 0
		if o.CsigDepth > 0 && t.Bool(1, 2, "traffic.csig") {
			depth = 1 + t.Choose(o.CsigDepth, "traffic.csig.depth")
		}
		if t.Choose(100, "traffic.foreign") < o.ForeignPct {
			return r.ForeignWire(t, s, genKnobs(t), ent, detached, depth, o.Abbrev)
		}
		if w, _ := r.LibWire(t, s, ent, detached, depth, o.Abbrev); w != nil {
			return w
		}
	}
	return nil
}

// Objects extracts stand-alone encodings from a valid wire message: each
// COSE_Signature, each countersignature object, each header bucket.  They feed
// the Signature / Countersignature / bucket decoders.
func Objects(w *Wire) []*Wire {
	var out []*Wire
	m, err := OpenTree(w.B)
	if err != nil {
		return nil
	}
	for _, s := range m.Slots() {
		switch s.Role {
		case "sigobj":
			b := refcbor.Encode(s.Arr.Elems[s.Idx])
			out = append(out, &Wire{Kind: refcose.KSignature, Dec: "Signature", B: b, Desc: "COSE_Signature object from " + w.Desc},
				&Wire{Kind: refcose.KSignature, Dec: "Countersignature", B: b, Desc: "countersignature object from " + w.Desc})
		case "prot":
			out = append(out, &Wire{Kind: noKind, Dec: "ProtectedHeader", B: refcbor.Encode(s.Arr.Elems[s.Idx]), Desc: "protected bucket from " + w.Desc})
		case "unprot":
			out = append(out, &Wire{Kind: noKind, Dec: "UnprotectedHeader", B: refcbor.Encode(s.Arr.Elems[s.Idx]), Desc: "unprotected bucket from " + w.Desc})
		}
	}
	return out
}

func (w *Wire) String() string {
	return fmt.Sprintf("%s (%dB) %s", w.Desc, len(w.B), hexShort(w.B))
}

// walkCsigs visits every recorded countersignature of a decoded layer,
// handing the visitor the go-cose value found at the recorded place (nil /
// empty when it is not there).
func walkCsigs(h *cose.Headers, parent any, nodes []*CsigNode, visit func(n *CsigNode, cs *cose.Countersignature, abbrev []byte, parent any)) {
	for _, n := range nodes {
		if n.Abbrev {
			sig, _ := h.Unprotected[n.Label].([]byte)
			visit(n, nil, sig, parent)
			continue
		}
		cs := findCountersignature(h, n.Label, n.Index)
		visit(n, cs, nil, parent)
		if cs != nil && len(n.Children) > 0 {
			walkCsigs(&cs.Headers, cs, n.Children, visit)
		}
	}
}

// walkWireCsigs visits the countersignatures of a decoded message.
func walkWireCsigs(w *Wire, rc *Received, visit func(n *CsigNode, cs *cose.Countersignature, abbrev []byte, parent any)) {
	if rc.M1 != nil {
		walkCsigs(&rc.M1.Headers, rc.M1, w.BodyCsigs, visit)
		return
	}
	walkCsigs(&rc.MS.Headers, rc.MS, w.BodyCsigs, visit)
	for i, nodes := range w.SigCsigs {
		if i < len(rc.MS.Signatures) && rc.MS.Signatures[i] != nil {
			walkCsigs(&rc.MS.Signatures[i].Headers, rc.MS.Signatures[i], nodes, visit)
		}
	}
}
