package sim

import (
	"crypto/sha256"
	"encoding/hex"
	"encoding/json"
	"fmt"
	"os"
	"sort"
	"strings"
	"sync/atomic"
	"time"

	"verif/tape"
)

// ReplayFile is the replay artefact: the tape is the execution.
type ReplayFile struct {
	Property  string   `json:"property"`
	Seed      uint64   `json:"seed"`
	Run       int      `json:"run"`
	Tier      string   `json:"tier"`
	Signature string   `json:"signature"`
	Detail    string   `json:"detail"`
	Tape      []uint32 `json:"tape"`
	Trace     []string `json:"trace,omitempty"`
	Minimised bool     `json:"minimised"`
	OrigLen   int      `json:"original_tape_length,omitempty"`
	Faults    []string `json:"faults_fired,omitempty"`
}

// KnownHit is a known finding that fired.
type KnownHit struct {
	Count  int      `json:"count"`
	Detail string   `json:"detail"`
	Run    int      `json:"run"`
	Tape   []uint32 `json:"tape,omitempty"`
}

// Sample is one rendered run for the evidence file.
type Sample struct {
	Run     int      `json:"run"`
	Trace   []string `json:"operations"`
	Faults  []string `json:"faults_fired,omitempty"`
	Outcome string   `json:"shape"`
}

// WorkerResult is what one worker process reports.
type WorkerResult struct {
	Prop      string               `json:"prop"`
	Seed      uint64               `json:"seed"`
	Start     int                  `json:"start"`
	Count     int                  `json:"count"`
	Runs      int                  `json:"runs"`
	Skipped   int                  `json:"skipped"`
	Nontriv   int                  `json:"nontrivial"`
	Faults    map[string]int       `json:"faults"`
	Probes    map[string]int       `json:"probes"`
	Ops       int                  `json:"ops"`
	Steps     int                  `json:"steps"`
	Checks    int                  `json:"checks"`
	Shapes    []uint64             `json:"shapes"`
	Samples   []Sample             `json:"samples"`
	KnownHits map[string]*KnownHit `json:"known_hits"`
	Violation *ReplayFile          `json:"violation,omitempty"`
	LogHash   string               `json:"log_hash,omitempty"`
	Extra     map[string]int       `json:"extra,omitempty"`
	// Enumerated counts runs whose leading choices were forced by an
	// exhaustive enumeration (fault vectors of C20).
	Enumerated int `json:"enumerated,omitempty"`
	// Scheds are the distinct schedule hashes ((task, site) sequences) of the
	// concurrent blocks executed.
	Scheds []uint64 `json:"scheds,omitempty"`
	// SkipReasons counts abandoned runs by reason class.
	SkipReasons map[string]int `json:"skip_reasons,omitempty"`
	// Sites are the go-cose yield sites passed (instrumented builds);
	// NumSites the number of sites there are.
	Sites    []int `json:"sites,omitempty"`
	NumSites int   `json:"num_sites,omitempty"`
}

// Prefixes maps a property to the function that forces the leading choices of
// run i (nil result: nothing forced).  Used for exhaustive enumeration of one
// dimension.
var Prefixes = map[string]func(tier string, run int) []uint32{}

// RunSeed derives the tape seed of run i of a property under VERIF_SEED.
func RunSeed(seed uint64, prop string, i int) uint64 {
	return tape.Mix(seed, tape.HashString(prop), uint64(i))
}

var (
	wdRun   atomic.Int64
	wdSince atomic.Int64
)

// StartWatchdog arms the hang watchdog: the only place real time is read.
// It influences no choice; a trip ends the process with exit code 3 after
// naming the run in progress.
func StartWatchdog(limit time.Duration, onTrip func(run int)) {
	wdSince.Store(time.Now().UnixNano())
	go func() {
		for {
			time.Sleep(500 * time.Millisecond)
			if time.Duration(time.Now().UnixNano()-wdSince.Load()) > limit {
				onTrip(int(wdRun.Load()))
				os.Exit(3)
			}
		}
	}()
}

func watchdogEnter(run int) {
	wdRun.Store(int64(run))
	wdSince.Store(time.Now().UnixNano())
}

// RunBatch executes runs [start, start+count) of a property.
func RunBatch(prop, tier string, seed uint64, start, count int, known map[string]bool, logTo *strings.Builder, progress func(run int)) *WorkerResult {
	sc, ok := Scenarios[prop]
	if !ok {
		panic("no scenario for " + prop)
	}
	res := &WorkerResult{Prop: prop, Seed: seed, Start: start, Count: count,
		Faults: map[string]int{}, Probes: map[string]int{}, KnownHits: map[string]*KnownHit{}}
	shapes := map[uint64]bool{}
	scheds := map[uint64]bool{}
	logHash := sha256.New()
	for i := start; i < start+count; i++ {
		if progress != nil {
			progress(i)
		}
		watchdogEnter(i)
		t := tape.New(RunSeed(seed, prop, i))
		if pf := Prefixes[prop]; pf != nil {
			if prefix := pf(tier, i); prefix != nil {
				t = tape.NewWithPrefix(RunSeed(seed, prop, i), prefix)
				res.Enumerated++
			}
		}
		r := NewRun(t, prop, tier, known)
		if logTo != nil {
			r.Logged = &strings.Builder{}
			fmt.Fprintf(r.Logged, "== run %d\n", i)
		}
		skipped := Execute(r, sc)
		res.Runs++
		if skipped != "" {
			res.Skipped++
			if res.SkipReasons == nil {
				res.SkipReasons = map[string]int{}
			}
			class := skipped
			if i := strings.Index(class, ":"); i > 0 {
				class = class[:i]
			}
			res.SkipReasons[class]++
		}
		for _, k := range SortedKeys(r.Faults) {
			res.Faults[k] += r.Faults[k]
		}
		for _, k := range SortedKeys(r.Probes) {
			if strings.HasPrefix(k, "max-") {
				if r.Probes[k] > res.Probes[k] {
					res.Probes[k] = r.Probes[k]
				}
				continue
			}
			res.Probes[k] += r.Probes[k]
		}
		res.Ops += r.Ops
		res.Steps += r.Steps
		res.Checks += r.Checks
		for _, h := range r.sched {
			scheds[h] = true
		}
		if r.Checks > 0 {
			res.Nontriv++
			h := tape.HashString(r.Shape())
			shapes[h] = true
		}
		if r.Logged != nil {
			if r.Viol != nil {
				fmt.Fprintf(r.Logged, "VIOLATION %s\n", r.Viol.Signature)
			}
			fmt.Fprintf(r.Logged, "shape %s\n", r.Shape())
			logHash.Write([]byte(r.Logged.String()))
			logTo.WriteString(r.Logged.String())
		}
		for _, sig := range SortedKeys(r.KnownHits) {
			kh := res.KnownHits[sig]
			if kh == nil {
				kh = &KnownHit{Detail: r.KnownHits[sig], Run: i, Tape: t.Recorded()}
				res.KnownHits[sig] = kh
			}
			kh.Count++
		}
		if len(res.Samples) < 3 && r.Checks > 0 && (i-start)%7 == 0 {
			res.Samples = append(res.Samples, Sample{Run: i, Trace: r.Trace(), Faults: SortedKeys(r.Faults), Outcome: r.Shape()})
		}
		if r.Viol != nil {
			res.Violation = &ReplayFile{Property: prop, Seed: seed, Run: i, Tier: tier, Signature: r.Viol.Signature,
				Detail: r.Viol.Detail, Tape: t.Recorded(), Trace: r.Trace(), Faults: SortedKeys(r.Faults)}
			break
		}
	}
	for h := range shapes {
		res.Shapes = append(res.Shapes, h)
	}
	sort.Slice(res.Shapes, func(a, b int) bool { return res.Shapes[a] < res.Shapes[b] })
	for h := range scheds {
		res.Scheds = append(res.Scheds, h)
	}
	sort.Slice(res.Scheds, func(a, b int) bool { return res.Scheds[a] < res.Scheds[b] })
	if logTo != nil {
		res.LogHash = hex.EncodeToString(logHash.Sum(nil))
	}
	res.Sites, res.NumSites = SitesHit(), NumSites()
	if n := LibSteps(); n > 0 {
		res.Extra = map[string]int{"go-cose statements executed (yield points passed)": int(n)}
	}
	return res
}

// ReplayTape executes one tape and returns the run.
func ReplayTape(prop, tier string, rec []uint32, known map[string]bool, withLog bool) *Run {
	sc, ok := Scenarios[prop]
	if !ok {
		panic("no scenario for " + prop)
	}
	t := tape.Replay(rec)
	r := NewRun(t, prop, tier, known)
	if withLog {
		r.Logged = &strings.Builder{}
	}
	Execute(r, sc)
	return r
}

// Minimise shrinks a failing tape while the same signature fires.  The
// number of re-executions is bounded; the result is deterministic.
func Minimise(prop, tier string, rec []uint32, signature string, known map[string]bool, budget int) []uint32 {
	execs := 0
	fails := func(c []uint32) bool {
		if execs >= budget {
			return false
		}
		execs++
		r := ReplayTape(prop, tier, c, known, false)
		return r.Viol != nil && r.Viol.Signature == signature
	}
	cur := append([]uint32{}, rec...)
	if !fails(cur) {
		return rec
	}
	// 1. shortest failing prefix (an exhausted tape reads zeros)
	lo, hi := 0, len(cur)
	for lo < hi {
		mid := (lo + hi) / 2
		if fails(cur[:mid]) {
			hi = mid
		} else {
			lo = mid + 1
		}
	}
	if hi < len(cur) && fails(cur[:hi]) {
		cur = cur[:hi]
	}
	for pass := 0; pass < 3 && execs < budget; pass++ {
		changed := false
		// 2. delete blocks
		for size := len(cur) / 2; size >= 1 && execs < budget; size /= 2 {
			for i := 0; i+size <= len(cur) && execs < budget; {
				c := append(append([]uint32{}, cur[:i]...), cur[i+size:]...)
				if fails(c) {
					cur = c
					changed = true
				} else {
					i += size
				}
			}
		}
		// 3. zero blocks, then zero / halve single values
		for size := 8; size >= 1 && execs < budget; size /= 2 {
			for i := 0; i+size <= len(cur) && execs < budget; i += size {
				allZero := true
				for _, v := range cur[i : i+size] {
					if v != 0 {
						allZero = false
					}
				}
				if allZero {
					continue
				}
				c := append([]uint32{}, cur...)
				for j := i; j < i+size; j++ {
					c[j] = 0
				}
				if fails(c) {
					cur = c
					changed = true
				}
			}
		}
		for i := 0; i < len(cur) && execs < budget; i++ {
			for cur[i] > 0 && execs < budget {
				c := append([]uint32{}, cur...)
				c[i] = cur[i] / 2
				if fails(c) {
					cur = c
					changed = true
				} else {
					break
				}
			}
		}
		// trailing zeros are implied
		for len(cur) > 0 && cur[len(cur)-1] == 0 {
			cur = cur[:len(cur)-1]
		}
		if !changed {
			break
		}
	}
	return cur
}

// WriteJSON writes v to path atomically enough for our purposes.
func WriteJSON(path string, v any) error {
	b, err := json.MarshalIndent(v, "", " ")
	if err != nil {
		return err
	}
	return os.WriteFile(path, append(b, '\n'), 0o644)
}

// TapeOfRun executes run i and returns the tape it recorded.
func TapeOfRun(prop, tier string, seed uint64, i int, known map[string]bool) []uint32 {
	sc, ok := Scenarios[prop]
	if !ok {
		panic("no scenario for " + prop)
	}
	t := tape.New(RunSeed(seed, prop, i))
	if pf := Prefixes[prop]; pf != nil {
		if prefix := pf(tier, i); prefix != nil {
			t = tape.NewWithPrefix(RunSeed(seed, prop, i), prefix)
		}
	}
	r := NewRun(t, prop, tier, known)
	Execute(r, sc)
	return t.Recorded()
}
