package sim

import (
	"bytes"
	"fmt"

	cose "github.com/veraison/go-cose"

	"verif/refcbor"
	"verif/refcose"
)

func init() {
	Scenarios["C02"] = scenarioC02
	Infos["C02"] = ScenarioInfo{
		Level: "exploration",
		Rule: "one run = a message built in memory and signed by go-cose through recording signers, or issued by the foreign peer in a non-deterministic encoding (inner protected map unsorted, 1/2/3/5/9-byte heads), " +
			"optionally damaged by 1..2 wire faults that the decoder still accepts, then decoded and verified through recording verifiers; at every Signer.Sign / Verifier.Verify call the content must equal the reference " +
			"Sig_structure computed from the wire bytes (as emitted / as received). Metamorphic checks: editing unprotected headers, toggling tag 18, nil vs empty external leave the content byte-identical. " +
			"Non-trivial = at least one seam call compared; distinct = distinct (population, kind, fault kinds, outcome) sequence.",
		Assumptions: []string{"the reference Sig_structure builder reads RFC 9052 section 4.4 correctly (self-tested on the repository's vectors)", "input model of DESIGN 2.2"},
		Real:        []string{"github.com/veraison/go-cose", "github.com/fxamacker/cbor/v2"},
		Stubs:       []string{"cose.Signer / cose.Verifier (recording wrappers around the built-in ones)", "foreign peer (reference model)", "wire with fault injection", "entropy source"},
		QuickRuns:   200000, ThoroughRuns: 3000000,
	}
}

// refContents computes the reference signing input of every signature of a
// wire message.
func refContents(kind refcose.Kind, wire []byte, external, payloadOverride []byte) ([][]byte, *refcose.Msg, error) {
	m, err := refcose.ParseMsg(kind, wire)
	if err != nil {
		return nil, nil, err
	}
	var payload []byte
	if m.Payload.Major == refcbor.MBstr {
		payload = m.Payload.Data
	}
	if payloadOverride != nil {
		payload = payloadOverride
	}
	if kind == refcose.KSignTagged {
		out := make([][]byte, len(m.Sigs))
		for i, s := range m.Sigs {
			out[i] = refcose.SigStructure(m.ProtBstr.Data, s.ProtBstr.Data, external, payload)
		}
		return out, m, nil
	}
	return [][]byte{refcose.SigStructure1(m.ProtBstr.Data, external, payload)}, m, nil
}

// acceptingVerifiers builds recording verifiers whose algorithm agrees with
// whatever the received protected headers say, so that verification reaches
// the seam; they accept without looking so that every position is seen.
func acceptingVerifiers(m *refcose.Msg, fallback []*KeyPair) []*SpyVerifier {
	algOf := func(l refcose.Layer, i int) cose.Algorithm {
		if a := refcose.Lookup(l.ProtMap, refcose.LAlg); a != nil && a.IsInt() {
			if v, ok := a.Int64(); ok {
				return cose.Algorithm(v)
			}
		}
		if i < len(fallback) {
			return cose.Algorithm(fallback[i].Alg)
		}
		return cose.AlgorithmES256
	}
	if m.Kind == refcose.KSignTagged {
		out := make([]*SpyVerifier, len(m.Sigs))
		for i, s := range m.Sigs {
			out[i] = &SpyVerifier{Alg: algOf(s.Layer, i), Fault: "accept"}
		}
		return out
	}
	return []*SpyVerifier{{Alg: algOf(m.Layer, 0), Fault: "accept"}}
}

func asVerifiers(vs []*SpyVerifier) []cose.Verifier {
	out := make([]cose.Verifier, len(vs))
	for i, v := range vs {
		out[i] = v
	}
	return out
}

// asDigestVerifiers hands out the same spies with VerifyDigest on offer.
func asDigestVerifiers(vs []*SpyVerifier) []cose.Verifier {
	out := make([]cose.Verifier, len(vs))
	for i, v := range vs {
		if refcose.HashFor(int64(v.Alg)) != 0 {
			out[i] = DigestSpyVerifier{v}
		} else {
			out[i] = v
		}
	}
	return out
}

// c02Siblings: several messages signed in one process from header-less
// templates (Protected nil: the library injects alg).  What was signed for
// one of them is what it carries on the wire, whatever the application does
// to the headers of the others afterwards.
func c02Siblings(r *Run) {
	t := r.T
	ent := NewEntropy(uint64(t.U32("entropy.seed")))
	k := pickCheapKey(t)
	n := 2 + t.Choose(2, "c02.sib.n")
	untagged := t.Bool(1, 3, "c02.sib.untagged")
	msgs := make([]*cose.Sign1Message, n)
	spies := make([]*SpySigner, n)
	r.Op("ISSUE", "%d header-less Sign1 messages signed with one %s signer", n, k.Name)
	r.Outcome("siblings")
	for i := range msgs {
		msgs[i] = &cose.Sign1Message{Payload: t.Bytes(1+t.Choose(20, "c02.sib.payload.n"), "c02.sib.payload")}
		spies[i] = &SpySigner{Inner: r.signerFor(k, false), Alg: cose.Algorithm(k.Alg)}
		var err error
		if untagged {
			r.Lib(func() { err = (*cose.UntaggedSign1Message)(msgs[i]).Sign(ent, nil, spies[i]) })
		} else {
			r.Lib(func() { err = msgs[i].Sign(ent, nil, spies[i]) })
		}
		if err != nil || len(spies[i].Calls) != 1 {
			r.Outcome("sibling-sign-refused")
			return
		}
	}
	// the application goes on working with one of them (recycles the holder
	// for the next job: another content type, a kid)
	j := t.Choose(n, "c02.sib.edit")
	if msgs[j].Headers.Protected != nil {
		msgs[j].Headers.Protected[cose.HeaderLabelContentType] = "application/x-edited"
	}
	if msgs[j].Headers.Unprotected == nil {
		msgs[j].Headers.Unprotected = cose.UnprotectedHeader{}
	}
	msgs[j].Headers.Unprotected[cose.HeaderLabelKeyID] = []byte("kid")
	r.Fired("app.edits-sibling-headers")
	for i, m := range msgs {
		if i == j {
			continue
		}
		var wire []byte
		var err error
		if untagged {
			r.Lib(func() { wire, err = (*cose.UntaggedSign1Message)(m).MarshalCBOR() })
		} else {
			r.Lib(func() { wire, err = m.MarshalCBOR() })
		}
		r.Check()
		if err != nil {
			r.Fail("sibling-edit-breaks-encoding", "message %d cannot be encoded after the headers of message %d were edited: %v", i, j, err)
			return
		}
		kind := refcose.KSign1Tagged
		if untagged {
			kind = refcose.KSign1Untagged
		}
		pm, perr := refcose.ParseMsg(kind, wire)
		if perr != nil {
			return
		}
		want := refcose.SigStructure1(pm.ProtBstr.Data, nil, m.Payload)
		if !bytes.Equal(spies[i].Calls[0].Content, want) {
			r.Fail("sign-content-differs/sibling-headers-edited", "message %d was signed over a Sig_structure that is not the one of the message as emitted after the headers of message %d were edited\nsigned: %s\n  wire: %s", i, j, hexShort(spies[i].Calls[0].Content), hexShort(wire))
			return
		}
	}
	r.Probe("siblings-compared")
}

func scenarioC02(r *Run) {
	t := r.T
	if t.Bool(1, 14, "c02.siblings") {
		c02Siblings(r)
		return
	}
	so := SpecOpts{MaxExtra: 6, MaxSigner: 4, BigOK: bigOK(r, "c02.big")}
	if t.Bool(1, 5, "c02.manylabels") {
		so.MaxExtra = 40
	}
	spec := genSpec(t, so)
	ent := NewEntropy(uint64(t.U32("entropy.seed")))
	detached := t.Bool(1, 6, "c02.detached")
	var wire []byte
	population := "constructed"
	if t.Bool(2, 5, "c02.foreign") {
		population = "foreign"
		k := genKnobs(t)
		w := r.ForeignWire(t, spec, k, ent, detached, t.Choose(2, "c02.csig"), false)
		wire = w.B
		r.Op("FOREIGN_ISSUE", "%s knobs{rewidth=%d/16 reorder=%v}", spec, k.Rewidth, k.Reorder)
	} else {
		var spies []*SpySigner
		r.Op("ISSUE", "%s", spec)
		is, err := r.LibIssue(spec, Spelling{T: t, Labels: true, Values: true}, t.Bool(1, 2, "c02.typedalg"), ent,
			func(i int, k *KeyPair, inner cose.Signer) cose.Signer {
				s := &SpySigner{Inner: inner, Alg: inner.Algorithm()}
				spies = append(spies, s)
				if _, ok := inner.(cose.DigestSigner); ok && t.Bool(1, 2, "c02.digestcap") {
					// the seam offers SignDigest too, like the built-in signers
					return DigestSpySigner{s}
				}
				return s
			}, false)
		if err != nil {
			r.Outcome("sign-refused")
			return
		}
		wire, err = r.Encode(is, detached)
		if err != nil {
			r.Outcome("encode-refused")
			return
		}
		want, _, perr := refContents(spec.Kind, wire, spec.External, spec.Payload)
		if perr != nil {
			// an emitted message the reference parser cannot read is C08's business
			r.Outcome("emitted-unparsable")
			return
		}
		for i, s := range spies {
			r.Check()
			if len(s.Calls)+len(s.DigestCalls) != 1 {
				r.Fail("signer-call-count", "signer %d was called %d times for one signature", i, len(s.Calls)+len(s.DigestCalls))
				continue
			}
			if len(s.DigestCalls) == 1 {
				// handed a digest instead of the structure: it must be the
				// digest of the RFC structure under the signer's algorithm
				if i < len(want) && !bytes.Equal(s.DigestCalls[0], refcose.Digest(refcose.HashFor(int64(s.Alg)), want[i])) {
					r.Fail("sign-content-differs/"+spec.Kind.String()+"/constructed/digest",
						"the digest handed to signer %d (SignDigest) is not the hash of the RFC 9052 Sig_structure of the message as emitted\n got: %x\nwant: %x (hash of %s)\nspec: %s",
						i, s.DigestCalls[0], refcose.Digest(refcose.HashFor(int64(s.Alg)), want[i]), hexShort(want[i]), spec)
				}
				continue
			}
			if i < len(want) && !bytes.Equal(s.Calls[0].Content, want[i]) {
				r.Fail("sign-content-differs/"+spec.Kind.String()+"/constructed",
					"content handed to signer %d differs from the RFC 9052 Sig_structure of the message as emitted\n got: %s\nwant: %s\nwire: %s\nspec: %s",
					i, hexShort(s.Calls[0].Content), hexShort(want[i]), hexShort(wire), spec)
			}
		}
		r.Outcome("sign-seam-checked")
	}
	r.Outcome(population)
	r.Outcome(spec.Kind.String())
	r.Logf("wire %x", wire)

	// damaged-but-accepted traffic
	received := wire
	nf := t.Pick([]int{5, 3, 2}, "c02.nfaults")
	if nf > 0 {
		fm := GenFaultMix(t)
		for i := 0; i < nf; i++ {
			out, kind := fm.WireFault(t, received)
			if kind != "" {
				received = out
				r.Fired(kind)
			}
		}
		r.Op("CORRUPT", "%d faults -> %s", nf, hexShort(received))
	}
	rc, err := r.Decode(spec.Kind, received)
	if err != nil {
		r.Outcome("not-decodable")
		if !bytes.Equal(received, wire) {
			received = wire
			rc, err = r.Decode(spec.Kind, received)
		}
		if err != nil {
			return
		}
	} else if !bytes.Equal(received, wire) {
		r.Probe("corrupt-still-decodes")
		r.Outcome("damaged-accepted")
	}
	var override []byte
	if rc.Payload() == nil {
		override = append([]byte{}, spec.Payload...)
		rc.SetPayload(override)
	}
	external := spec.External
	if t.Bool(1, 4, "c02.otherext") {
		external = genExternal(t)
	}
	want, pm, perr := refContents(spec.Kind, received, external, override)
	if perr != nil {
		r.Check()
		r.Fail("accepted-but-unparsable/"+spec.Kind.String(), "decoder accepted bytes the reference parser cannot read as %s: %v\nwire: %s", spec.Kind, perr, hexShort(received))
		return
	}
	spies := acceptingVerifiers(pm, keysOf(spec))
	vlist := asVerifiers(spies)
	if t.Bool(1, 2, "c02.digestcap.v") {
		vlist = asDigestVerifiers(spies)
	}
	verr := r.VerifyLib(rc, external, vlist...)
	r.Logf("verify: %s", errTag(verr))
	compared := 0
	for i, s := range spies {
		for _, c := range s.DigestCalls {
			r.Check()
			compared++
			if i < len(want) && !bytes.Equal(c.Content, refcose.Digest(refcose.HashFor(int64(s.Alg)), want[i])) {
				r.Fail("verify-content-differs/"+spec.Kind.String()+"/"+population+"/digest",
					"the digest handed to verifier %d (VerifyDigest) is not the hash of the RFC 9052 Sig_structure computed from the received bytes\n got: %x\nwant: hash of %s\nwire: %s", i, c.Content, hexShort(want[i]), hexShort(received))
			}
		}
		for j, c := range s.Calls {
			r.Check()
			compared++
			if j > 0 {
				r.Fail("verifier-called-twice", "verifier %d called %d times", i, len(s.Calls))
				break
			}
			if !bytes.Equal(c.Content, want[i]) {
				r.Fail("verify-content-differs/"+spec.Kind.String()+"/"+population,
					"content handed to verifier %d differs from the RFC 9052 Sig_structure computed from the received bytes\n got: %s\nwant: %s\nwire: %s",
					i, hexShort(c.Content), hexShort(want[i]), hexShort(received))
			}
			if wantSig := sigBytesAt(pm, i); !bytes.Equal(c.Signature, wantSig) {
				r.Fail("verify-signature-arg-differs/"+spec.Kind.String(), "verifier %d was offered signature %s, the wire carries %s", i, hexShort(c.Signature), hexShort(wantSig))
			}
		}
	}
	// every position whose pre-conditions hold must have been reached
	// (recording verifiers accept without looking, so nothing stops early)
	// (for messages that conform to the header rules: what a decoder does with
	// a malformed one that it lets through - e.g. a label under tag 55799,
	// known finding of C05 - is not this property's question)
	if rv, e := RefVerdict(spec.Kind, received, keysOf(spec), external, override); e == nil && refcose.WellFormed(spec.Kind, received) == nil {
		for i, s := range spies {
			if i >= len(rv) {
				break
			}
			pre := rc.Payload() != nil && len(rv[i].SigBytes) > 0 && algRule(rv[i].ProtAlg, int64(s.Alg), external) == ""
			// earlier positions must all be reachable too
			for j := 0; j < i && pre; j++ {
				pre = len(rv[j].SigBytes) > 0 && algRule(rv[j].ProtAlg, int64(spies[j].Alg), external) == ""
			}
			if pre && len(s.Calls)+len(s.DigestCalls) == 0 {
				r.Check()
				r.Fail("verifier-not-reached/"+spec.Kind.String(), "payload, signature and algorithm of signature %d are in order, yet its verifier was never called (Verify returned %v)\nwire: %s", i, verr, hexShort(received))
				return
			}
		}
	}
	if compared == 0 {
		r.Outcome("seam-not-reached")
		return
	}
	// the per-signer API used directly: Signature.Verify with the body
	// protected bytes exactly as they were received (raw, possibly with a
	// non-minimal length head) must build the same Sig_structure
	if rc.MS != nil && len(rc.MS.Headers.RawProtected) > 0 {
		for i, sg := range rc.MS.Signatures {
			if i >= len(want) || sg == nil {
				continue
			}
			sp := &SpyVerifier{Alg: spies[i].Alg, Fault: "accept"}
			var derr error
			r.Lib(func() { derr = sg.Verify(sp, rc.MS.Headers.RawProtected, rc.MS.Payload, external) })
			if len(sp.Calls) == 1 {
				r.Check()
				if !bytes.Equal(sp.Calls[0].Content, want[i]) {
					r.Fail("verify-content-differs/Signature.Verify-direct/"+population,
						"Signature.Verify called directly with the received body protected bytes hands verifier %d content that differs from the reference Sig_structure\n got: %s\nwant: %s\nwire: %s", i, hexShort(sp.Calls[0].Content), hexShort(want[i]), hexShort(received))
					return
				}
				r.Probe("direct-signature-verify-compared")
			} else if derr == nil {
				r.Fail("verifier-not-reached/Signature.Verify-direct", "Signature.Verify returned nil without consulting the verifier")
				return
			}
		}
	}
	// re-signing with the Sign1 helpers from the decoded Headers: the raw
	// protected bytes the caller supplies are what is signed and emitted
	if rc.M1 != nil && len(rc.M1.Headers.RawProtected) > 0 && t.Bool(1, 3, "c02.helper") {
		if a := refcose.Lookup(pm.ProtMap, refcose.LAlg); a != nil && a.IsInt() {
			av, _ := a.Int64()
			var hk *KeyPair
			for _, k := range poolAll {
				if k.Alg == av {
					hk = k
					break
				}
			}
			if hk != nil {
				spyS := &SpySigner{Inner: r.signerFor(hk, false), Alg: cose.Algorithm(av)}
				hdrs := rc.M1.Headers
				var out []byte
				var herr error
				untagged := spec.Kind == refcose.KSign1Untagged
				r.Lib(func() {
					if untagged {
						out, herr = cose.Sign1Untagged(NewEntropy(5), spyS, hdrs, spec.Payload, external)
					} else {
						out, herr = cose.Sign1(NewEntropy(5), spyS, hdrs, spec.Payload, external)
					}
				})
				if herr == nil && len(spyS.Calls) == 1 {
					r.Check()
					wantH := refcose.SigStructure1(pm.ProtBstr.Data, external, spec.Payload)
					if !bytes.Equal(spyS.Calls[0].Content, wantH) {
						r.Fail("sign-content-differs/helper-with-raw-protected", "Sign1 helper called with decoded Headers (raw protected bytes present): the signer was handed a Sig_structure that does not contain those bytes\n got: %s\nwant: %s", hexShort(spyS.Calls[0].Content), hexShort(wantH))
						return
					}
					if m2, e := refcose.ParseMsg(spec.Kind, out); e == nil && !bytes.Equal(m2.ProtBstr.Data, pm.ProtBstr.Data) {
						r.Fail("helper-emits-other-protected-bytes", "Sign1 helper called with decoded Headers emits protected bytes other than the raw ones supplied\n got: %x\nwant: %x", m2.ProtBstr.Data, pm.ProtBstr.Data)
						return
					}
					r.Probe("helper-with-raw-protected-compared")
				}
			}
		}
	}
	// a relay that re-signs a received COSE_Sign: it decodes, empties the
	// signature slots and signs again with its own keys.  What each signer is
	// handed must be the Sig_structure of the message as it is emitted
	// afterwards - over the received (retained) body protected bytes.
	if rc.MS != nil && rc.Payload() != nil && t.Bool(1, 3, "c02.resign") {
		if rc2, derr := r.Decode(spec.Kind, received); derr == nil && rc2.MS != nil && len(rc2.MS.Signatures) == len(spies) {
			if override != nil {
				rc2.SetPayload(override)
			}
			keys := keysOf(spec)
			var rs []*SpySigner
			signers := make([]cose.Signer, len(rc2.MS.Signatures))
			for i, sg := range rc2.MS.Signatures {
				sg.Signature = nil
				k := keys[i%len(keys)]
				sp := &SpySigner{Inner: r.signerFor(k, false), Alg: spies[i].Alg}
				rs = append(rs, sp)
				signers[i] = sp
			}
			var serr error
			r.Lib(func() { serr = rc2.MS.Sign(NewEntropy(9), external, signers...) })
			if serr == nil {
				var out []byte
				var merr error
				r.Lib(func() { out, merr = rc2.MS.MarshalCBOR() })
				if merr == nil {
					if want2, _, perr2 := refContents(spec.Kind, out, external, nil); perr2 == nil {
						r.Check()
						for i, sp := range rs {
							if len(sp.Calls) == 1 && i < len(want2) && !bytes.Equal(sp.Calls[0].Content, want2[i]) {
								r.Fail("sign-content-differs/"+spec.Kind.String()+"/re-signed-after-decode",
									"a decoded COSE_Sign was signed again: signer %d was handed a Sig_structure that is not the one of the message as emitted afterwards\n got: %s\nwant: %s\nreceived: %s", i, hexShort(sp.Calls[0].Content), hexShort(want2[i]), hexShort(received))
								return
							}
						}
						r.Probe("re-signed-decoded-cose-sign-compared")
					}
				}
			}
		}
	}
	// a verifier that says no is final: it is consulted once, with the
	// reference content, and its refusal is what Verify returns
	{
		sp3 := acceptingVerifiers(pm, keysOf(spec))
		for _, s := range sp3 {
			s.Fault = "reject"
		}
		rerr := r.VerifyLib(rc, external, asVerifiers(sp3)...)
		r.Check()
		for i, s := range sp3 {
			if len(s.Calls) > 1 {
				r.Fail("verifier-consulted-again-after-refusing/"+spec.Kind.String(), "verifier %d refused and was consulted %d times; second content %s (first %s)\nwire: %s", i, len(s.Calls), hexShort(s.Calls[1].Content), hexShort(s.Calls[0].Content), hexShort(received))
				return
			}
			if len(s.Calls) == 1 && i < len(want) && !bytes.Equal(s.Calls[0].Content, want[i]) {
				r.Fail("verify-content-differs/"+spec.Kind.String()+"/"+population, "content handed to (refusing) verifier %d differs from the reference Sig_structure", i)
				return
			}
		}
		if len(sp3) > 0 && len(sp3[0].Calls) == 1 && rerr == nil {
			r.Fail("verifier-refusal-overruled/"+spec.Kind.String(), "the verifier refused and Verify returned nil\nwire: %s", hexShort(received))
			return
		}
	}
	// verifying the same decoded message a second time hands over the same bytes
	{
		sp2 := acceptingVerifiers(pm, keysOf(spec))
		r.VerifyLib(rc, external, asVerifiers(sp2)...)
		for i := range spies {
			if len(spies[i].Calls) == 0 {
				continue
			}
			r.Check()
			if len(sp2[i].Calls) == 0 || !bytes.Equal(sp2[i].Calls[0].Content, spies[i].Calls[0].Content) {
				got := []byte(nil)
				if len(sp2[i].Calls) > 0 {
					got = sp2[i].Calls[0].Content
				}
				r.Fail("second-verify-differs/"+spec.Kind.String(), "verifying the same decoded message twice: the second call hands verifier %d other content (or none)\n first: %s\nsecond: %s\nwire: %s", i, hexShort(spies[i].Calls[0].Content), hexShort(got), hexShort(received))
				return
			}
		}
	}
	r.Outcome("verify-seam-checked")
	if pm.ProtBstr.Width > 0 && len(pm.ProtBstr.Data) < 24 || pm.ProtBstr.Width > 1 && len(pm.ProtBstr.Data) < 256 {
		r.Probe("protected-head-nonminimal")
	}
	if len(pm.ProtBstr.Data) >= 256 {
		r.Probe("protected>=256B")
	} else if len(pm.ProtBstr.Data) >= 24 {
		r.Probe("protected>=24B")
	}
	if pm.ProtMap != nil && refcbor.NonCanonical(pm.ProtMap, pm.ProtBstr.Data) != "" {
		r.Probe("protected-map-noncanonical")
	}

	// metamorphic: nil vs empty external
	firstContent := func(vs []*SpyVerifier) [][]byte {
		out := make([][]byte, len(vs))
		for i, v := range vs {
			if len(v.Calls) > 0 {
				out[i] = v.Calls[0].Content
			}
		}
		return out
	}
	base := firstContent(spies)
	sameAs := func(name string, got [][]byte, ref [][]byte) {
		for i := range got {
			if i < len(ref) && got[i] != nil && ref[i] != nil {
				r.Check()
				if !bytes.Equal(got[i], ref[i]) {
					r.Fail("content-depends-on-"+name, "signing input of signature %d changed although only %s changed\nbefore: %s\n after: %s", i, name, hexShort(ref[i]), hexShort(got[i]))
				}
			}
		}
	}
	if len(external) == 0 {
		other := []byte{}
		if external != nil {
			other = nil
		}
		sp2 := acceptingVerifiers(pm, keysOf(spec))
		r.VerifyLib(rc, other, asVerifiers(sp2)...)
		sameAs("nil-vs-empty-external", firstContent(sp2), base)
	}
	// metamorphic: unprotected edit on the wire
	if out, _, ok := StructFault(t, received, "unprot-edit"); ok {
		if rc2, err := r.Decode(spec.Kind, out); err == nil {
			if rc2.Payload() == nil {
				rc2.SetPayload(override)
			}
			if pm2, err := refcose.ParseMsg(spec.Kind, out); err == nil && sameSignatureCount(pm, pm2) {
				sp2 := acceptingVerifiers(pm2, keysOf(spec))
				r.VerifyLib(rc2, external, asVerifiers(sp2)...)
				sameAs("unprotected-headers", firstContent(sp2), base)
				r.Probe("metamorphic-unprotected")
			}
		}
	}
	// metamorphic: tag 18 present / absent
	if spec.Kind == refcose.KSign1Tagged || spec.Kind == refcose.KSign1Untagged {
		var other []byte
		otherKind := refcose.KSign1Untagged
		if spec.Kind == refcose.KSign1Tagged {
			other = received[1:]
		} else {
			other = append([]byte{0xd2}, received...)
			otherKind = refcose.KSign1Tagged
		}
		if rc2, err := r.Decode(otherKind, other); err == nil {
			if rc2.Payload() == nil {
				rc2.SetPayload(override)
			}
			sp2 := acceptingVerifiers(pm, keysOf(spec))
			r.VerifyLib(rc2, external, asVerifiers(sp2)...)
			sameAs("cbor-tag", firstContent(sp2), base)
			r.Probe("metamorphic-tag")
		} else {
			r.Check()
			r.Fail("tag-toggle-refused", "a COSE_Sign1 accepted as %s is refused as %s: %v", spec.Kind, otherKind, err)
		}
	}
}

func sigBytesAt(m *refcose.Msg, i int) []byte {
	if m.Kind == refcose.KSignTagged {
		if i < len(m.Sigs) {
			return m.Sigs[i].Signature.Data
		}
		return nil
	}
	return m.Signature.Data
}

func sameSignatureCount(a, b *refcose.Msg) bool { return len(a.Sigs) == len(b.Sigs) }

var _ = fmt.Sprintf
