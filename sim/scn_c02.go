package sim

import (
	"bytes"
	"fmt"

	cose "github.com/veraison/go-cose"

	"verif/refcbor"
	"verif/refcose"
)

func init() {
	Scenarios["C02"] = scenarioC02
	Infos["C02"] = ScenarioInfo{
		Level: "exploration",
		Rule: "one run = a message built in memory and signed by go-cose through recording signers, or issued by the foreign peer in a non-deterministic encoding (inner protected map unsorted, 1/2/3/5/9-byte heads), " +
			"optionally damaged by 1..2 wire faults that the decoder still accepts, then decoded and verified through recording verifiers; at every Signer.Sign / Verifier.Verify call the content must equal the reference " +
			"Sig_structure computed from the wire bytes (as emitted / as received). Metamorphic checks: editing unprotected headers, toggling tag 18, nil vs empty external leave the content byte-identical. " +
			"Non-trivial = at least one seam call compared; distinct = distinct (population, kind, fault kinds, outcome) sequence.",
		Assumptions: []string{"the reference Sig_structure builder reads RFC 9052 section 4.4 correctly (self-tested on the repository's vectors)", "input model of DESIGN 2.2"},
		Real:        []string{"github.com/veraison/go-cose", "github.com/fxamacker/cbor/v2"},
		Stubs:       []string{"cose.Signer / cose.Verifier (recording wrappers around the built-in ones)", "foreign peer (reference model)", "wire with fault injection", "entropy source"},
		QuickRuns:   200000, ThoroughRuns: 3000000,
	}
}

// refContents computes the reference signing input of every signature of a
// wire message.
func refContents(kind refcose.Kind, wire []byte, external, payloadOverride []byte) ([][]byte, *refcose.Msg, error) {
	m, err := refcose.ParseMsg(kind, wire)
	if err != nil {
		return nil, nil, err
	}
	var payload []byte
	if m.Payload.Major == refcbor.MBstr {
		payload = m.Payload.Data
	}
	if payloadOverride != nil {
		payload = payloadOverride
	}
	if kind == refcose.KSignTagged {
		out := make([][]byte, len(m.Sigs))
		for i, s := range m.Sigs {
			out[i] = refcose.SigStructure(m.ProtBstr.Data, s.ProtBstr.Data, external, payload)
		}
		return out, m, nil
	}
	return [][]byte{refcose.SigStructure1(m.ProtBstr.Data, external, payload)}, m, nil
}

// acceptingVerifiers builds recording verifiers whose algorithm agrees with
// whatever the received protected headers say, so that verification reaches
// the seam; they accept without looking so that every position is seen.
func acceptingVerifiers(m *refcose.Msg, fallback []*KeyPair) []*SpyVerifier {
	algOf := func(l refcose.Layer, i int) cose.Algorithm {
		if a := refcose.Lookup(l.ProtMap, refcose.LAlg); a != nil && a.IsInt() {
			if v, ok := a.Int64(); ok {
				return cose.Algorithm(v)
			}
		}
		if i < len(fallback) {
			return cose.Algorithm(fallback[i].Alg)
		}
		return cose.AlgorithmES256
	}
	if m.Kind == refcose.KSignTagged {
		out := make([]*SpyVerifier, len(m.Sigs))
		for i, s := range m.Sigs {
			out[i] = &SpyVerifier{Alg: algOf(s.Layer, i), Fault: "accept"}
		}
		return out
	}
	return []*SpyVerifier{{Alg: algOf(m.Layer, 0), Fault: "accept"}}
}

func asVerifiers(vs []*SpyVerifier) []cose.Verifier {
	out := make([]cose.Verifier, len(vs))
	for i, v := range vs {
		out[i] = v
	}
	return out
}

// asDigestVerifiers hands out the same spies with VerifyDigest on offer.
func asDigestVerifiers(vs []*SpyVerifier) []cose.Verifier {
	out := make([]cose.Verifier, len(vs))
	for i, v := range vs {
		if refcose.HashFor(int64(v.Alg)) != 0 {
			out[i] = DigestSpyVerifier{v}
		} else {
			out[i] = v
		}
	}
	return out
}

// c02Siblings: several messages signed in one process from header-less
// templates (Protected nil: the library injects alg).  What was signed for
// one of them is what it carries on the wire, whatever the application does
// to the headers of the others afterwards.
func c02Siblings(r *Run) {
	t := r.T
	ent := NewEntropy(uint64(t.U32("entropy.seed")))
	k := pickCheapKey(t)
	n := 2 + t.Choose(2, "c02.sib.n")
	untagged := t.Bool(1, 3, "c02.sib.untagged")
	msgs := make([]*cose.Sign1Message, n)
	spies := make([]*SpySigner, n)
	r.Op("ISSUE", "%d header-less Sign1 messages signed with one %s signer", n, k.Name)
	r.Outcome("siblings")
	// some applications sign one payload several times with different
	// unprotected headers (a kid for this receiver, an algorithm hint for
	// that one): none of that reaches the signer
	same := t.Bool(1, 2, "c02.sib.samepayload")
	var shared []byte
	if same {
		shared = t.Bytes(1+t.Choose(20, "c02.sib.payload.n"), "c02.sib.payload")
		r.Fired("app.same-payload-other-unprotected")
	}
	for i := range msgs {
		if same {
			msgs[i] = &cose.Sign1Message{Payload: shared}
			switch t.Choose(6, "c02.sib.unprot") {
			case 1:
				msgs[i].Headers.Unprotected = cose.UnprotectedHeader{cose.HeaderLabelKeyID: []byte{byte(i)}}
			case 2:
				msgs[i].Headers.Unprotected = cose.UnprotectedHeader{cose.HeaderLabelAlgorithm: cose.Algorithm(k.Alg)}
			case 3:
				msgs[i].Headers.Unprotected = cose.UnprotectedHeader{cose.HeaderLabelAlgorithm: k.Alg, cose.HeaderLabelKeyID: []byte("k")}
			case 4:
				msgs[i].Headers.Unprotected = cose.UnprotectedHeader{int(1): int(k.Alg)}
			case 5:
				msgs[i].Headers.Unprotected = cose.UnprotectedHeader{cose.HeaderLabelContentType: "text/plain", int64(-70000): []any{int64(i), "x"}}
			}
		} else {
			msgs[i] = &cose.Sign1Message{Payload: t.Bytes(1+t.Choose(20, "c02.sib.payload.n"), "c02.sib.payload")}
		}
		spies[i] = &SpySigner{Inner: r.signerFor(k, false), Alg: cose.Algorithm(k.Alg)}
		var err error
		if untagged {
			r.Lib(func() { err = (*cose.UntaggedSign1Message)(msgs[i]).Sign(ent, nil, spies[i]) })
		} else {
			r.Lib(func() { err = msgs[i].Sign(ent, nil, spies[i]) })
		}
		if err != nil || len(spies[i].Calls) != 1 {
			r.Outcome("sibling-sign-refused")
			return
		}
	}
	if same {
		for i := 1; i < n; i++ {
			r.Check()
			if !bytes.Equal(spies[i].Calls[0].Content, spies[0].Calls[0].Content) {
				r.Fail("sign-content-depends-on-unprotected", "one payload signed with one key in messages that differ only in their unprotected headers: signer %d was handed other bytes than signer 0\n 0: %s (unprotected %v)\n %d: %s (unprotected %v)",
					i, hexShort(spies[0].Calls[0].Content), msgs[0].Headers.Unprotected, i, hexShort(spies[i].Calls[0].Content), msgs[i].Headers.Unprotected)
				return
			}
		}
		r.Probe("same-payload-siblings-compared")
	}
	// the application goes on working with one of them (recycles the holder
	// for the next job: another content type, a kid)
	j := t.Choose(n, "c02.sib.edit")
	if msgs[j].Headers.Protected != nil {
		msgs[j].Headers.Protected[cose.HeaderLabelContentType] = "application/x-edited"
	}
	if msgs[j].Headers.Unprotected == nil {
		msgs[j].Headers.Unprotected = cose.UnprotectedHeader{}
	}
	msgs[j].Headers.Unprotected[cose.HeaderLabelKeyID] = []byte("kid")
	r.Fired("app.edits-sibling-headers")
	for i, m := range msgs {
		if i == j {
			continue
		}
		var wire []byte
		var err error
		if untagged {
			r.Lib(func() { wire, err = (*cose.UntaggedSign1Message)(m).MarshalCBOR() })
		} else {
			r.Lib(func() { wire, err = m.MarshalCBOR() })
		}
		r.Check()
		if err != nil {
			r.Fail("sibling-edit-breaks-encoding", "message %d cannot be encoded after the headers of message %d were edited: %v", i, j, err)
			return
		}
		kind := refcose.KSign1Tagged
		if untagged {
			kind = refcose.KSign1Untagged
		}
		pm, perr := refcose.ParseMsg(kind, wire)
		if perr != nil {
			return
		}
		want := refcose.SigStructure1(pm.ProtBstr.Data, nil, m.Payload)
		if !bytes.Equal(spies[i].Calls[0].Content, want) {
			r.Fail("sign-content-differs/sibling-headers-edited", "message %d was signed over a Sig_structure that is not the one of the message as emitted after the headers of message %d were edited\nsigned: %s\n  wire: %s", i, j, hexShort(spies[i].Calls[0].Content), hexShort(wire))
			return
		}
	}
	r.Probe("siblings-compared")
}

func scenarioC02(r *Run) {
	t := r.T
	if t.Bool(1, 14, "c02.siblings") {
		c02Siblings(r)
		return
	}
	if t.Bool(1, 20, "c02.customraw") {
		c02CustomRaw(r)
		return
	}
	so := SpecOpts{MaxExtra: 6, MaxSigner: 4, BigOK: bigOK(r, "c02.big")}
	if t.Bool(1, 5, "c02.manylabels") {
		so.MaxExtra = 40
	}
	spec := genSpec(t, so)
	ent := NewEntropy(uint64(t.U32("entropy.seed")))
	detached := t.Bool(1, 6, "c02.detached")
	var wire []byte
	population := "constructed"
	if t.Bool(2, 5, "c02.foreign") {
		population = "foreign"
		k := genKnobs(t)
		w := r.ForeignWire(t, spec, k, ent, detached, t.Choose(2, "c02.csig"), false)
		wire = w.B
		r.Op("FOREIGN_ISSUE", "%s knobs{rewidth=%d/16 reorder=%v}", spec, k.Rewidth, k.Reorder)
	} else {
		var spies []*SpySigner
		r.Op("ISSUE", "%s", spec)
		r.LeaveAlgToLibrary = t.Bool(1, 6, "c02.algtolib")
		is, err := r.LibIssue(spec, Spelling{T: t, Labels: true, Values: true}, t.Bool(1, 2, "c02.typedalg"), ent,
			func(i int, k *KeyPair, inner cose.Signer) cose.Signer {
				s := &SpySigner{Inner: inner, Alg: inner.Algorithm()}
				spies = append(spies, s)
				if _, ok := inner.(cose.DigestSigner); ok && t.Bool(1, 2, "c02.digestcap") {
					// the seam offers SignDigest too, like the built-in signers
					return DigestSpySigner{s}
				}
				return s
			}, false)
		if err != nil {
			r.Outcome("sign-refused")
			return
		}
		wire, err = r.Encode(is, detached)
		if err != nil {
			r.Outcome("encode-refused")
			return
		}
		want, _, perr := refContents(spec.Kind, wire, spec.External, spec.Payload)
		if perr != nil {
			// an emitted message the reference parser cannot read is C08's business
			r.Outcome("emitted-unparsable")
			return
		}
		for i, s := range spies {
			r.Check()
			if len(s.Calls)+len(s.DigestCalls) != 1 {
				r.Fail("signer-call-count", "signer %d was called %d times for one signature", i, len(s.Calls)+len(s.DigestCalls))
				continue
			}
			if len(s.DigestCalls) == 1 {
				// handed a digest instead of the structure: it must be the
				// digest of the RFC structure under the signer's algorithm
				if i < len(want) && !bytes.Equal(s.DigestCalls[0], refcose.Digest(refcose.HashFor(int64(s.Alg)), want[i])) {
					r.Fail("sign-content-differs/"+spec.Kind.String()+"/constructed/digest",
						"the digest handed to signer %d (SignDigest) is not the hash of the RFC 9052 Sig_structure of the message as emitted\n got: %x\nwant: %x (hash of %s)\nspec: %s",
						i, s.DigestCalls[0], refcose.Digest(refcose.HashFor(int64(s.Alg)), want[i]), hexShort(want[i]), spec)
				}
				continue
			}
			if i < len(want) && !bytes.Equal(s.Calls[0].Content, want[i]) {
				r.Fail("sign-content-differs/"+spec.Kind.String()+"/constructed",
					"content handed to signer %d differs from the RFC 9052 Sig_structure of the message as emitted\n got: %s\nwant: %s\nwire: %s\nspec: %s",
					i, hexShort(s.Calls[0].Content), hexShort(want[i]), hexShort(wire), spec)
			}
		}
		r.Outcome("sign-seam-checked")
	}
	r.Outcome(population)
	r.Outcome(spec.Kind.String())
	r.Logf("wire %x", wire)

	// damaged-but-accepted traffic
	received := wire
	nf := t.Pick([]int{5, 3, 2}, "c02.nfaults")
	if nf > 0 {
		fm := GenFaultMix(t)
		for i := 0; i < nf; i++ {
			out, kind := fm.WireFault(t, received)
			if kind != "" {
				received = out
				r.Fired(kind)
			}
		}
		r.Op("CORRUPT", "%d faults -> %s", nf, hexShort(received))
	}
	rc, err := r.Decode(spec.Kind, received)
	if err != nil {
		r.Outcome("not-decodable")
		if !bytes.Equal(received, wire) {
			received = wire
			rc, err = r.Decode(spec.Kind, received)
		}
		if err != nil {
			return
		}
	} else if !bytes.Equal(received, wire) {
		r.Probe("corrupt-still-decodes")
		r.Outcome("damaged-accepted")
	}
	var override []byte
	if rc.Payload() == nil {
		override = append([]byte{}, spec.Payload...)
		rc.SetPayload(override)
	}
	external := spec.External
	if t.Bool(1, 4, "c02.otherext") {
		external = genExternal(t)
	}
	want, pm, perr := refContents(spec.Kind, received, external, override)
	if perr != nil {
		r.Check()
		r.Fail("accepted-but-unparsable/"+spec.Kind.String(), "decoder accepted bytes the reference parser cannot read as %s: %v\nwire: %s", spec.Kind, perr, hexShort(received))
		return
	}
	spies := acceptingVerifiers(pm, keysOf(spec))
	vlist := asVerifiers(spies)
	if t.Bool(1, 2, "c02.digestcap.v") {
		vlist = asDigestVerifiers(spies)
	}
	verr := r.VerifyLib(rc, external, vlist...)
	r.Logf("verify: %s", errTag(verr))
	compared := 0
	for i, s := range spies {
		for _, c := range s.DigestCalls {
			r.Check()
			compared++
			if i < len(want) && !bytes.Equal(c.Content, refcose.Digest(refcose.HashFor(int64(s.Alg)), want[i])) {
				r.Fail("verify-content-differs/"+spec.Kind.String()+"/"+population+"/digest",
					"the digest handed to verifier %d (VerifyDigest) is not the hash of the RFC 9052 Sig_structure computed from the received bytes\n got: %x\nwant: hash of %s\nwire: %s", i, c.Content, hexShort(want[i]), hexShort(received))
			}
		}
		for j, c := range s.Calls {
			r.Check()
			compared++
			if j > 0 {
				r.Fail("verifier-called-twice", "verifier %d called %d times", i, len(s.Calls))
				break
			}
			if !bytes.Equal(c.Content, want[i]) {
				r.Fail("verify-content-differs/"+spec.Kind.String()+"/"+population,
					"content handed to verifier %d differs from the RFC 9052 Sig_structure computed from the received bytes\n got: %s\nwant: %s\nwire: %s",
					i, hexShort(c.Content), hexShort(want[i]), hexShort(received))
			}
			if wantSig := sigBytesAt(pm, i); !bytes.Equal(c.Signature, wantSig) {
				r.Fail("verify-signature-arg-differs/"+spec.Kind.String(), "verifier %d was offered signature %s, the wire carries %s", i, hexShort(c.Signature), hexShort(wantSig))
			}
		}
	}
	// every position whose pre-conditions hold must have been reached
	// (recording verifiers accept without looking, so nothing stops early)
	// (for messages that conform to the header rules: what a decoder does with
	// a malformed one that it lets through - e.g. a label under tag 55799,
	// known finding of C05 - is not this property's question)
	if rv, e := RefVerdict(spec.Kind, received, keysOf(spec), external, override); e == nil && refcose.WellFormed(spec.Kind, received) == nil {
		for i, s := range spies {
			if i >= len(rv) {
				break
			}
			pre := rc.Payload() != nil && len(rv[i].SigBytes) > 0 && algRule(rv[i].ProtAlg, int64(s.Alg), external) == ""
			// earlier positions must all be reachable too
			for j := 0; j < i && pre; j++ {
				pre = len(rv[j].SigBytes) > 0 && algRule(rv[j].ProtAlg, int64(spies[j].Alg), external) == ""
			}
			if pre && len(s.Calls)+len(s.DigestCalls) == 0 {
				r.Check()
				r.Fail("verifier-not-reached/"+spec.Kind.String(), "payload, signature and algorithm of signature %d are in order, yet its verifier was never called (Verify returned %v)\nwire: %s", i, verr, hexShort(received))
				return
			}
		}
	}
	if compared == 0 {
		r.Outcome("seam-not-reached")
		return
	}
	// the per-signer API used directly: Signature.Verify with the body
	// protected bytes exactly as they were received (raw, possibly with a
	// non-minimal length head) must build the same Sig_structure
	if rc.MS != nil && len(rc.MS.Headers.RawProtected) > 0 {
		for i, sg := range rc.MS.Signatures {
			if i >= len(want) || sg == nil {
				continue
			}
			sp := &SpyVerifier{Alg: spies[i].Alg, Fault: "accept"}
			var derr error
			r.Lib(func() { derr = sg.Verify(sp, rc.MS.Headers.RawProtected, rc.MS.Payload, external) })
			if len(sp.Calls) == 1 {
				r.Check()
				if !bytes.Equal(sp.Calls[0].Content, want[i]) {
					r.Fail("verify-content-differs/Signature.Verify-direct/"+population,
						"Signature.Verify called directly with the received body protected bytes hands verifier %d content that differs from the reference Sig_structure\n got: %s\nwant: %s\nwire: %s", i, hexShort(sp.Calls[0].Content), hexShort(want[i]), hexShort(received))
					return
				}
				r.Probe("direct-signature-verify-compared")
			} else if derr == nil {
				r.Fail("verifier-not-reached/Signature.Verify-direct", "Signature.Verify returned nil without consulting the verifier")
				return
			}
		}
	}
	// re-signing with the Sign1 helpers from the decoded Headers: the raw
	// protected bytes the caller supplies are what is signed and emitted
	if rc.M1 != nil && len(rc.M1.Headers.RawProtected) > 0 && t.Bool(1, 3, "c02.helper") {
		if a := refcose.Lookup(pm.ProtMap, refcose.LAlg); a != nil && a.IsInt() {
			av, _ := a.Int64()
			var hk *KeyPair
			for _, k := range poolAll {
				if k.Alg == av {
					hk = k
					break
				}
			}
			if hk != nil {
				spyS := &SpySigner{Inner: r.signerFor(hk, false), Alg: cose.Algorithm(av)}
				hdrs := rc.M1.Headers
				var out []byte
				var herr error
				untagged := spec.Kind == refcose.KSign1Untagged
				r.Lib(func() {
					if untagged {
						out, herr = cose.Sign1Untagged(NewEntropy(5), spyS, hdrs, spec.Payload, external)
					} else {
						out, herr = cose.Sign1(NewEntropy(5), spyS, hdrs, spec.Payload, external)
					}
				})
				if herr == nil && len(spyS.Calls) == 1 {
					r.Check()
					wantH := refcose.SigStructure1(pm.ProtBstr.Data, external, spec.Payload)
					if !bytes.Equal(spyS.Calls[0].Content, wantH) {
						r.Fail("sign-content-differs/helper-with-raw-protected", "Sign1 helper called with decoded Headers (raw protected bytes present): the signer was handed a Sig_structure that does not contain those bytes\n got: %s\nwant: %s", hexShort(spyS.Calls[0].Content), hexShort(wantH))
						return
					}
					if m2, e := refcose.ParseMsg(spec.Kind, out); e == nil && !bytes.Equal(m2.ProtBstr.Data, pm.ProtBstr.Data) {
						r.Fail("helper-emits-other-protected-bytes", "Sign1 helper called with decoded Headers emits protected bytes other than the raw ones supplied\n got: %x\nwant: %x", m2.ProtBstr.Data, pm.ProtBstr.Data)
						return
					}
					r.Probe("helper-with-raw-protected-compared")
				}
			}
		}
	}
	// an application that patches the retained raw protected bytes of a
	// decoded message in place (same slice, same length: a counter or a
	// timestamp inside the bucket is brought up to date) and verifies again:
	// the structure handed to the seam carries the bytes the message holds at
	// the time of the call, not those of an earlier call
	if t.Bool(1, 4, "c02.rawedit") {
		if rc3, derr := r.Decode(spec.Kind, received); derr == nil {
			if override != nil {
				rc3.SetPayload(override)
			}
			var raw []byte
			if rc3.MS != nil {
				raw = rc3.MS.Headers.RawProtected
			} else {
				raw = rc3.M1.Headers.RawProtected
			}
			if it, e := refcbor.ParseOne(raw); e == nil && it.Major == refcbor.MBstr && !it.Indef && len(it.Data) > 0 {
				first := acceptingVerifiers(pm, keysOf(spec))
				r.VerifyLib(rc3, external, asVerifiers(first)...)
				raw[len(raw)-1] ^= 1 << uint(t.Choose(8, "c02.rawedit.bit"))
				r.Fired("app.edits-raw-protected-in-place")
				edited := append([]byte{}, raw[len(raw)-len(it.Data):]...)
				second := acceptingVerifiers(pm, keysOf(spec))
				r.VerifyLib(rc3, external, asVerifiers(second)...)
				for i, sv := range second {
					for _, c := range sv.Calls {
						r.Check()
						if f, ok := tbsField(c.Content, 1); ok && !bytes.Equal(f, edited) {
							r.Fail("verify-content-differs/"+spec.Kind.String()+"/after-in-place-edit-of-raw-protected",
								"the raw protected bytes of a decoded message were changed in place (last octet) between two verifications; verifier %d was then handed a structure whose body_protected is %s, the message holds %s", i, hexShort(f), hexShort(edited))
							return
						}
					}
				}
			}
		}
	}
	// a relay that re-signs a received COSE_Sign: it decodes, empties the
	// signature slots and signs again with its own keys.  What each signer is
	// handed must be the Sig_structure of the message as it is emitted
	// afterwards - over the received (retained) body protected bytes.
	if rc.MS != nil && rc.Payload() != nil && t.Bool(1, 3, "c02.resign") {
		if rc2, derr := r.Decode(spec.Kind, received); derr == nil && rc2.MS != nil && len(rc2.MS.Signatures) == len(spies) {
			if override != nil {
				rc2.SetPayload(override)
			}
			keys := keysOf(spec)
			var rs []*SpySigner
			signers := make([]cose.Signer, len(rc2.MS.Signatures))
			for i, sg := range rc2.MS.Signatures {
				sg.Signature = nil
				k := keys[i%len(keys)]
				sp := &SpySigner{Inner: r.signerFor(k, false), Alg: spies[i].Alg}
				rs = append(rs, sp)
				signers[i] = sp
			}
			var serr error
			r.Lib(func() { serr = rc2.MS.Sign(NewEntropy(9), external, signers...) })
			if serr == nil {
				var out []byte
				var merr error
				r.Lib(func() { out, merr = rc2.MS.MarshalCBOR() })
				if merr == nil {
					if want2, _, perr2 := refContents(spec.Kind, out, external, nil); perr2 == nil {
						r.Check()
						for i, sp := range rs {
							if len(sp.Calls) == 1 && i < len(want2) && !bytes.Equal(sp.Calls[0].Content, want2[i]) {
								r.Fail("sign-content-differs/"+spec.Kind.String()+"/re-signed-after-decode",
									"a decoded COSE_Sign was signed again: signer %d was handed a Sig_structure that is not the one of the message as emitted afterwards\n got: %s\nwant: %s\nreceived: %s", i, hexShort(sp.Calls[0].Content), hexShort(want2[i]), hexShort(received))
								return
							}
						}
						r.Probe("re-signed-decoded-cose-sign-compared")
					}
				}
			}
		}
	}
	// a verifier that says no is final: it is consulted once, with the
	// reference content, and its refusal is what Verify returns
	{
		sp3 := acceptingVerifiers(pm, keysOf(spec))
		for _, s := range sp3 {
			s.Fault = "reject"
		}
		rerr := r.VerifyLib(rc, external, asVerifiers(sp3)...)
		r.Check()
		for i, s := range sp3 {
			if len(s.Calls) > 1 {
				r.Fail("verifier-consulted-again-after-refusing/"+spec.Kind.String(), "verifier %d refused and was consulted %d times; second content %s (first %s)\nwire: %s", i, len(s.Calls), hexShort(s.Calls[1].Content), hexShort(s.Calls[0].Content), hexShort(received))
				return
			}
			if len(s.Calls) == 1 && i < len(want) && !bytes.Equal(s.Calls[0].Content, want[i]) {
				r.Fail("verify-content-differs/"+spec.Kind.String()+"/"+population, "content handed to (refusing) verifier %d differs from the reference Sig_structure", i)
				return
			}
		}
		if len(sp3) > 0 && len(sp3[0].Calls) == 1 && rerr == nil {
			r.Fail("verifier-refusal-overruled/"+spec.Kind.String(), "the verifier refused and Verify returned nil\nwire: %s", hexShort(received))
			return
		}
	}
	// verifying the same decoded message a second time hands over the same bytes
	{
		sp2 := acceptingVerifiers(pm, keysOf(spec))
		r.VerifyLib(rc, external, asVerifiers(sp2)...)
		for i := range spies {
			if len(spies[i].Calls) == 0 {
				continue
			}
			r.Check()
			if len(sp2[i].Calls) == 0 || !bytes.Equal(sp2[i].Calls[0].Content, spies[i].Calls[0].Content) {
				got := []byte(nil)
				if len(sp2[i].Calls) > 0 {
					got = sp2[i].Calls[0].Content
				}
				r.Fail("second-verify-differs/"+spec.Kind.String(), "verifying the same decoded message twice: the second call hands verifier %d other content (or none)\n first: %s\nsecond: %s\nwire: %s", i, hexShort(spies[i].Calls[0].Content), hexShort(got), hexShort(received))
				return
			}
		}
	}
	r.Outcome("verify-seam-checked")
	if pm.ProtBstr.Width > 0 && len(pm.ProtBstr.Data) < 24 || pm.ProtBstr.Width > 1 && len(pm.ProtBstr.Data) < 256 {
		r.Probe("protected-head-nonminimal")
	}
	if len(pm.ProtBstr.Data) >= 256 {
		r.Probe("protected>=256B")
	} else if len(pm.ProtBstr.Data) >= 24 {
		r.Probe("protected>=24B")
	}
	if pm.ProtMap != nil && refcbor.NonCanonical(pm.ProtMap, pm.ProtBstr.Data) != "" {
		r.Probe("protected-map-noncanonical")
	}

	// metamorphic: nil vs empty external
	firstContent := func(vs []*SpyVerifier) [][]byte {
		out := make([][]byte, len(vs))
		for i, v := range vs {
			if len(v.Calls) > 0 {
				out[i] = v.Calls[0].Content
			}
		}
		return out
	}
	base := firstContent(spies)
	sameAs := func(name string, got [][]byte, ref [][]byte) {
		for i := range got {
			if i < len(ref) && got[i] != nil && ref[i] != nil {
				r.Check()
				if !bytes.Equal(got[i], ref[i]) {
					r.Fail("content-depends-on-"+name, "signing input of signature %d changed although only %s changed\nbefore: %s\n after: %s", i, name, hexShort(ref[i]), hexShort(got[i]))
				}
			}
		}
	}
	if len(external) == 0 {
		other := []byte{}
		if external != nil {
			other = nil
		}
		sp2 := acceptingVerifiers(pm, keysOf(spec))
		r.VerifyLib(rc, other, asVerifiers(sp2)...)
		sameAs("nil-vs-empty-external", firstContent(sp2), base)
	}
	// metamorphic: unprotected edit on the wire
	if out, _, ok := StructFault(t, received, "unprot-edit"); ok {
		if rc2, err := r.Decode(spec.Kind, out); err == nil {
			if rc2.Payload() == nil {
				rc2.SetPayload(override)
			}
			if pm2, err := refcose.ParseMsg(spec.Kind, out); err == nil && sameSignatureCount(pm, pm2) {
				sp2 := acceptingVerifiers(pm2, keysOf(spec))
				r.VerifyLib(rc2, external, asVerifiers(sp2)...)
				sameAs("unprotected-headers", firstContent(sp2), base)
				r.Probe("metamorphic-unprotected")
			}
		}
	}
	// metamorphic: tag 18 present / absent
	if spec.Kind == refcose.KSign1Tagged || spec.Kind == refcose.KSign1Untagged {
		var other []byte
		otherKind := refcose.KSign1Untagged
		if spec.Kind == refcose.KSign1Tagged {
			other = received[1:]
		} else {
			other = append([]byte{0xd2}, received...)
			otherKind = refcose.KSign1Tagged
		}
		if rc2, err := r.Decode(otherKind, other); err == nil {
			if rc2.Payload() == nil {
				rc2.SetPayload(override)
			}
			sp2 := acceptingVerifiers(pm, keysOf(spec))
			r.VerifyLib(rc2, external, asVerifiers(sp2)...)
			sameAs("cbor-tag", firstContent(sp2), base)
			r.Probe("metamorphic-tag")
		} else {
			r.Check()
			r.Fail("tag-toggle-refused", "a COSE_Sign1 accepted as %s is refused as %s: %v", spec.Kind, otherKind, err)
		}
	}
}

func sigBytesAt(m *refcose.Msg, i int) []byte {
	if m.Kind == refcose.KSignTagged {
		if i < len(m.Sigs) {
			return m.Sigs[i].Signature.Data
		}
		return nil
	}
	return m.Signature.Data
}

func sameSignatureCount(a, b *refcose.Msg) bool { return len(a.Sigs) == len(b.Sigs) }

var _ = fmt.Sprintf

// c02CustomRaw: the documented "customized encoding" path - the application
// supplies the protected bucket as raw bytes (a byte string it spelt itself,
// with any head width, or in chunks) on a message built in memory.  Whatever
// spelling the library accepts, what the signer and the verifier are handed is
// the RFC structure over the bytes INSIDE that byte string.
func c02CustomRaw(r *Run) {
	t := r.T
	ent := NewEntropy(uint64(t.U32("entropy.seed")))
	k := pickCheapKey(t)
	inner := refcbor.Map(refcbor.Uint(refcose.LAlg), refcbor.Int(k.Alg))
	if t.Bool(1, 2, "c02.raw.extra") {
		inner = refcbor.Map(refcbor.Uint(refcose.LAlg), refcbor.Int(k.Alg), refcbor.Uint(3), refcbor.Tstr("text/"+genText(t, 8)))
	}
	mapBytes := refcbor.Encode(inner)
	bs := refcbor.Bstr(mapBytes)
	spelling := t.Choose(4, "c02.raw.spelling")
	switch spelling {
	case 1:
		bs.Width = []int{1, 2, 4, 8}[t.Choose(4, "c02.raw.width")]
	case 2, 3:
		bs.Indef = true
		cut := t.Choose(len(mapBytes)+1, "c02.raw.cut")
		bs.Chunks = []*refcbor.Item{refcbor.Bstr(mapBytes[:cut]), refcbor.Bstr(mapBytes[cut:])}
		r.Fired("app.raw-protected-in-chunks")
	}
	raw := refcbor.Encode(bs)
	prot := cose.ProtectedHeader{cose.HeaderLabelAlgorithm: cose.Algorithm(k.Alg)}
	if len(inner.Elems) > 2 {
		prot[cose.HeaderLabelContentType] = string(inner.Elems[3].Data)
	}
	payload := t.Bytes(1+t.Choose(20, "c02.raw.payload.n"), "c02.raw.payload")
	r.Op("ISSUE", "Sign1 built in memory with application-supplied raw protected bytes %x", raw)
	r.Outcome("custom-raw")
	want := refcose.SigStructure1(mapBytes, nil, payload)
	sign := t.Bool(1, 2, "c02.raw.sign")
	msg := &cose.Sign1Message{Headers: cose.Headers{RawProtected: raw, Protected: prot}, Payload: payload}
	if sign {
		sp := &SpySigner{Inner: r.signerFor(k, false), Alg: cose.Algorithm(k.Alg)}
		var err error
		r.Lib(func() { err = msg.Sign(ent, nil, sp) })
		r.Check()
		if len(sp.Calls) > 0 && !bytes.Equal(sp.Calls[0].Content, want) {
			r.Fail("sign-content-differs/custom-raw-protected", "Sign1Message with application-supplied raw protected bytes %x: the signer was handed bytes other than the RFC structure over the bytes inside that byte string\n got: %s\nwant: %s", raw, hexShort(sp.Calls[0].Content), hexShort(want))
			return
		}
		if err != nil {
			r.Outcome("custom-raw-refused")
		} else {
			r.Probe("custom-raw-signed-compared")
		}
		return
	}
	// verification: a good signature over the reference structure, attached
	// to a message object holding the custom raw bytes
	var sig []byte
	var serr error
	r.Lib(func() { sig, serr = r.signerFor(k, false).Sign(ent, want) })
	if serr != nil {
		return
	}
	msg.Signature = sig
	sv := &SpyVerifier{Inner: r.verifierFor(k, false), Alg: cose.Algorithm(k.Alg)}
	var verr error
	r.Lib(func() { verr = msg.Verify(nil, sv) })
	r.Check()
	if len(sv.Calls) > 0 && !bytes.Equal(sv.Calls[0].Content, want) {
		r.Fail("verify-content-differs/custom-raw-protected", "Sign1Message with application-supplied raw protected bytes %x: the verifier was handed bytes other than the RFC structure over the bytes inside that byte string\n got: %s\nwant: %s", raw, hexShort(sv.Calls[0].Content), hexShort(want))
		return
	}
	// the same through the COSE_Signature entry points that take
	// body_protected as an argument
	sg := &cose.Signature{Headers: cose.Headers{Protected: cose.ProtectedHeader{cose.HeaderLabelAlgorithm: cose.Algorithm(k.Alg)}}}
	sp := &SpySigner{Inner: r.signerFor(k, false), Alg: cose.Algorithm(k.Alg)}
	var err2 error
	r.Lib(func() { err2 = sg.Sign(ent, sp, raw, payload, nil) })
	r.Check()
	if len(sp.Calls) > 0 {
		want2 := refcose.SigStructure(mapBytes, refcbor.Encode(refcbor.Map(refcbor.Uint(refcose.LAlg), refcbor.Int(k.Alg))), nil, payload)
		if !bytes.Equal(sp.Calls[0].Content, want2) {
			r.Fail("sign-content-differs/custom-body-protected-argument", "Signature.Sign with body_protected %x: the signer was handed bytes other than the RFC structure over the bytes inside that byte string\n got: %s\nwant: %s", raw, hexShort(sp.Calls[0].Content), hexShort(want2))
			return
		}
	}
	if verr != nil || err2 != nil {
		r.Outcome("custom-raw-refused")
	} else {
		r.Probe("custom-raw-verified-compared")
	}
}
