package sim

import (
	"crypto"
	"crypto/ecdsa"
	"crypto/ed25519"
	"crypto/elliptic"
	"crypto/rsa"
	"crypto/sha512"
	"crypto/x509"
	"embed"
	"encoding/pem"
	"fmt"
	"math/big"

	"verif/tape"
)

//go:embed keys/*.pem
var keyFS embed.FS

// KeyPair is one key of the simulated world together with the COSE algorithm
// it is used with.
type KeyPair struct {
	Name  string
	Alg   int64
	Priv  crypto.Signer
	Pub   crypto.PublicKey
	Curve elliptic.Curve // nil for RSA and Ed25519
}

// ecKeyFromScalar derives an ECDSA key from a scalar in [1, n-1].
func ecKeyFromScalar(c elliptic.Curve, d *big.Int) *ecdsa.PrivateKey {
	x, y := c.ScalarBaseMult(d.Bytes())
	return &ecdsa.PrivateKey{PublicKey: ecdsa.PublicKey{Curve: c, X: x, Y: y}, D: d}
}

func scalarFromBytes(c elliptic.Curve, b []byte) *big.Int {
	n1 := new(big.Int).Sub(c.Params().N, big.NewInt(1))
	d := new(big.Int).SetBytes(b)
	d.Mod(d, n1)
	return d.Add(d, big.NewInt(1))
}

func expand(name string, n int) []byte {
	var out []byte
	for i := 0; len(out) < n; i++ {
		h := sha512.Sum512([]byte(fmt.Sprintf("verif-key/%s/%d", name, i)))
		out = append(out, h[:]...)
	}
	return out[:n]
}

func algForCurve(c elliptic.Curve) int64 {
	switch c {
	case elliptic.P256():
		return -7
	case elliptic.P384():
		return -35
	case elliptic.P521():
		return -36
	}
	return 0
}

var (
	poolEC  []*KeyPair
	poolEd  []*KeyPair
	poolRSA []*KeyPair
	// poolRSABig: 4096 and 8192 bits
	poolRSABig []*KeyPair
	poolAll    []*KeyPair
)

func init() {
	for _, c := range []elliptic.Curve{elliptic.P256(), elliptic.P384(), elliptic.P521()} {
		for i := 0; i < 3; i++ {
			name := fmt.Sprintf("%s-%d", c.Params().Name, i)
			k := ecKeyFromScalar(c, scalarFromBytes(c, expand(name, 80)))
			poolEC = append(poolEC, &KeyPair{Name: name, Alg: algForCurve(c), Priv: k, Pub: &k.PublicKey, Curve: c})
		}
	}
	for i := 0; i < 3; i++ {
		name := fmt.Sprintf("Ed25519-%d", i)
		k := ed25519.NewKeyFromSeed(expand(name, 32))
		poolEd = append(poolEd, &KeyPair{Name: name, Alg: -8, Priv: k, Pub: k.Public()})
	}
	// (the last two have a modulus whose bit length is not a multiple of 8:
	// RFC 8230 asks for at least 2048 bits, not for a byte-aligned size)
	// (and one with the public exponent 3, as legacy tools and tokens make them)
	// (and, kept apart because every operation with them is slow, the sizes
	// above the common ones: nothing in RFC 8230 caps the modulus)
	for i, f := range []string{"rsa2048a", "rsa2048b", "rsa3072", "rsa2050", "rsa2060", "rsa2048e3", "rsa4096", "rsa8192"} {
		raw, err := keyFS.ReadFile("keys/" + f + ".pem")
		if err != nil {
			panic(err)
		}
		blk, _ := pem.Decode(raw)
		k, err := x509.ParsePKCS1PrivateKey(blk.Bytes)
		if err != nil {
			panic(err)
		}
		k.Precompute()
		kp := &KeyPair{Name: f, Alg: []int64{-37, -38, -39, -37, -39, -37, -39, -37}[i], Priv: k, Pub: &k.PublicKey}
		if k.N.BitLen() > 3072 {
			poolRSABig = append(poolRSABig, kp)
			continue
		}
		poolRSA = append(poolRSA, kp)
	}
	poolAll = append(poolAll, poolEC...)
	poolAll = append(poolAll, poolEd...)
	poolAll = append(poolAll, poolRSA...)
}

// withAlg returns a copy of the key used under another algorithm of the same
// family.
func (k *KeyPair) withAlg(alg int64) *KeyPair {
	c := *k
	c.Alg = alg
	c.Name = fmt.Sprintf("%s/alg%d", k.Name, alg)
	return &c
}

// pickKey chooses a key and algorithm: mostly cheap ones (P-256, Ed25519),
// regularly every other built-in algorithm, occasionally an RSA key under
// another PS hash or an EC key under another ES hash (the library allows it).
func pickKey(t *tape.Tape) *KeyPair {
	switch t.Pick([]int{5, 3, 2, 2, 1, 1}, "key.family") {
	case 0:
		return poolEC[t.Choose(3, "key.p256")]
	case 1:
		return poolEd[t.Choose(3, "key.ed")]
	case 2:
		return poolEC[3+t.Choose(3, "key.p384")]
	case 3:
		return poolEC[6+t.Choose(3, "key.p521")]
	case 4:
		k := poolRSA[t.Choose(len(poolRSA), "key.rsa")]
		if t.Bool(1, 12, "key.rsa.big") {
			k = poolRSABig[t.Choose(len(poolRSABig), "key.rsa.big.which")]
		}
		if t.Bool(1, 3, "key.rsa.otherhash") {
			return k.withAlg([]int64{-37, -38, -39}[t.Choose(3, "key.rsa.alg")])
		}
		return k
	default:
		k := poolEC[t.Choose(9, "key.ec.any")]
		return k.withAlg([]int64{-7, -35, -36}[t.Choose(3, "key.ec.alg")])
	}
}

// pickCheapKey avoids RSA and P-521 (used where many signatures are made).
func pickCheapKey(t *tape.Tape) *KeyPair {
	switch t.Pick([]int{5, 3, 1}, "key.cheap") {
	case 0:
		return poolEC[t.Choose(3, "key.p256")]
	case 1:
		return poolEd[t.Choose(3, "key.ed")]
	default:
		return poolEC[3+t.Choose(3, "key.p384")]
	}
}

// otherKey returns a key different from k, of the same algorithm when
// sameAlg is set and one exists.
func otherKey(t *tape.Tape, k *KeyPair, sameAlg bool) *KeyPair {
	var cands []*KeyPair
	for _, c := range poolAll {
		if baseName(c.Name) == baseName(k.Name) {
			continue
		}
		if sameAlg {
			if sameFamily(c, k) && (c.Curve == k.Curve) {
				cands = append(cands, c.withAlg(k.Alg))
			}
			continue
		}
		cands = append(cands, c)
	}
	if len(cands) == 0 {
		return nil
	}
	return cands[t.Choose(len(cands), "key.other")]
}

// baseName strips the "/alg<n>" suffix withAlg adds: the name of the pool key.
func baseName(n string) string {
	for i := 0; i < len(n); i++ {
		if n[i] == '/' {
			return n[:i]
		}
	}
	return n
}

func sameFamily(a, b *KeyPair) bool {
	fam := func(k *KeyPair) int {
		switch k.Pub.(type) {
		case *ecdsa.PublicKey:
			return 1
		case ed25519.PublicKey:
			return 2
		case *rsa.PublicKey:
			return 3
		}
		return 0
	}
	return fam(a) == fam(b)
}
