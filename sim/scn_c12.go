package sim

import (
	"bytes"
	"fmt"

	"github.com/fxamacker/cbor/v2"
	cose "github.com/veraison/go-cose"

	"verif/refcbor"
	"verif/refcose"
	"verif/tape"
)

func init() {
	Scenarios["C12"] = scenarioC12
	Infos["C12"] = ScenarioInfo{
		Level: "exploration",
		Rule: "producer runs: an issuer keeps ONE base Headers value and calls SignHashEnvelope 1..4 times on it (history): base headers with any labels/values including the governed ones (3, 258, 259, 260) in either bucket, " +
			"parsed and/or caller-supplied raw buckets, hash algorithms SHA-256/384/512 and unknown ids, right and wrong digest lengths, optional fields present/absent/wrongly typed. Whenever bytes are returned they must parse (reference parser) as a tagged COSE_Sign1 " +
			"obeying the envelope rules with 258 = given algorithm, 259/260 as given when given, payload = hash value; VerifyHashEnvelope with the matching key must accept them and return those values; the deep snapshot of the caller's Headers must be unchanged after every call. " +
			"verifier runs: a byzantine issuer (the foreign peer) signs rule-breaking envelopes with VALID signatures - the four governed labels moved/added/removed/mistyped in either bucket, wrong digest length - and VerifyHashEnvelope may return a message only if " +
			"the reference signature verdict is true and the reference envelope rules hold. Base headers may be preloaded with exactly the 258/259/260 the calls then give; governed labels in the unprotected bucket also with blanked values (null, undefined, empty). Non-trivial = a producer output or verifier verdict was judged; distinct = distinct (base-header class, hash, optional fields, rule broken, outcome) sequence.",
		Assumptions: []string{"envelope rules as worded by the property (draft-ietf-cose-hash-envelope-05 section 4)", "Go crypto primitives are correct"},
		Real:        []string{"github.com/veraison/go-cose (hash_envelope.go, sign1.go, headers.go)", "github.com/fxamacker/cbor/v2", "Go crypto"},
		Stubs:       []string{"byzantine issuer (reference encoder signing non-conforming envelopes)", "entropy source"},
		QuickRuns:   400000, ThoroughRuns: 8000000,
	}
}

func scenarioC12(r *Run) {
	if r.T.Bool(1, 2, "c12.side") {
		c12Producer(r, r.T)
	} else {
		c12Verifier(r, r.T)
	}
}

func c12Producer(r *Run, t *tape.Tape) {
	key := pickCheapKey(t)
	if t.Bool(1, 6, "c12.anykey") {
		key = pickKey(t)
	}
	// base headers: conforming most of the time, sometimes with governed labels
	lo := LayerOpts{MaxExtra: 5}
	if t.Bool(1, 2, "c12.base.alg") {
		// a base header that already names the signer's algorithm (e.g. one
		// taken over from an earlier, decoded envelope)
		a := key.Alg
		lo.Alg = &a
	}
	base := genLayer(t, lo)
	class := "conforming-base"
	if t.Bool(2, 3, "c12.base.safe") {
		base = envelopeSafe(base)
	} else {
		class = "arbitrary-base"
	}
	if t.Bool(1, 5, "c12.base.governed") {
		class = "governed-label-in-base"
		lbl := []int64{3, 258, 259, 260}[t.Choose(4, "c12.base.lbl")]
		val := []*refcbor.Item{refcbor.Int(-16), refcbor.Tstr("a/b"), refcbor.Uint(42), refcbor.Bstr([]byte{1})}[t.Choose(4, "c12.base.val")]
		if t.Bool(1, 2, "c12.base.bucket") {
			base.Prot = append(base.Prot, KV{refcbor.Int(lbl), val})
		} else {
			base.Unprot = append(base.Unprot, KV{refcbor.Int(lbl), val})
		}
		base = dedupLayer(base)
	}
	h := libHeaders(base, Spelling{T: t, Labels: true, Values: true}, true)
	// a base header that ALREADY says what the calls are going to say (an
	// issuer that fills in 258/259/260 itself, or takes the headers of an
	// earlier envelope over, with or without its alg): nothing is left for
	// the helper to add, which is no licence to hand the caller's map on to
	// the signing step
	var pre *cose.HashEnvelopePayload
	if t.Bool(1, 6, "c12.preload") {
		pre = &cose.HashEnvelopePayload{HashAlgorithm: cose.Algorithm([]int64{refcose.AlgSHA256, refcose.AlgSHA384, refcose.AlgSHA512}[t.Choose(3, "c12.preload.hash")])}
		if h.Protected == nil {
			h.Protected = cose.ProtectedHeader{}
		}
		for _, l := range []int64{258, 259, 260} {
			for k := range h.Protected {
				if v, ok := asInt64(k); ok && v == l {
					delete(h.Protected, k)
				}
			}
		}
		h.Protected[int64(258)] = pre.HashAlgorithm
		switch t.Choose(3, "c12.preload.ct") {
		case 1:
			pre.PreimageContentType = "application/" + genText(t, 6)
			h.Protected[int64(259)] = pre.PreimageContentType
		case 2:
			pre.PreimageContentType = uint(t.Choose(70000, "c12.preload.ct.n"))
			h.Protected[int64(259)] = pre.PreimageContentType
		}
		if t.Bool(1, 2, "c12.preload.loc") {
			pre.Location = "https://example.test/" + genText(t, 12)
			h.Protected[int64(260)] = pre.Location
		}
		if t.Bool(1, 2, "c12.preload.noalg") {
			for k := range h.Protected {
				if v, ok := asInt64(k); ok && v == refcose.LAlg {
					delete(h.Protected, k)
				}
			}
		}
		class += "+preloaded"
		r.Fired("base-headers-preloaded-with-envelope-parameters")
	}
	if t.Bool(1, 4, "c12.rawprot") {
		// caller-supplied raw protected bytes (documented: discarded)
		h.RawProtected = []byte{0x43, 0xa1, 0x01, 0x26}
		if t.Bool(2, 3, "c12.rawprot.consistent") {
			// consistent with the parsed map, as after decoding
			var raw []byte
			var err error
			r.Lib(func() { raw, err = h.Protected.MarshalCBOR() })
			if err == nil {
				h.RawProtected = raw
			}
		}
		class += "+rawprot"
	}
	if t.Bool(1, 4, "c12.rawunprot") {
		// caller-supplied raw unprotected bytes
		raws := [][]byte{{0xa1, 0x04, 0x01}, {0xa1, 0x02, 0x81, 0x04}, {0xa2, 0x05, 0x41, 0x01, 0x06, 0x41, 0x02}, {0xa1, 0x07, 0x40}, {0xa1, 0x09, 0x01}, {0xa1, 0x01, 0x41, 0x26},
			{0xa0}, {0xa1, 0x04, 0x41, 0x31}, {0xa1, 0x03, 0x18, 0x2a}, {0xa1, 0x19, 0x01, 0x02, 0x26}, {0xa1, 0x19, 0x01, 0x03, 0x01}, {0xa1, 0x19, 0x01, 0x04, 0x61, 0x78}}
		h.RawUnprotected = raws[t.Choose(len(raws), "c12.rawunprot.v")]
		class += "+rawunprot"
		if t.Bool(1, 3, "c12.rawunprot.ivpair") {
			// a cross-bucket rule of RFC 9052 section 3.1 that can only be
			// judged with the raw bucket decoded: IV in one bucket, Partial IV
			// in the other (an envelope like that is refused by every decoder)
			a, b := int64(refcose.LIV), byte(refcose.LPartialIV)
			if t.Bool(1, 2, "c12.rawunprot.ivpair.swap") {
				a, b = int64(refcose.LPartialIV), byte(refcose.LIV)
			}
			if h.Protected == nil {
				h.Protected = cose.ProtectedHeader{}
			}
			for _, l := range []int64{refcose.LIV, refcose.LPartialIV} {
				for k := range h.Protected {
					if v, ok := asInt64(k); ok && v == l {
						delete(h.Protected, k)
					}
				}
			}
			h.Protected[a] = []byte{1, 2, 3}
			h.RawProtected = nil
			h.RawUnprotected = []byte{0xa1, b, 0x42, 0x09, 0x09}
			class += "+iv-pair-across-buckets"
		}
	}
	ent := NewEntropy(uint64(t.U32("entropy.seed")))
	signer := r.signerFor(key, false)
	verifier := r.verifierFor(key, false)
	calls := 1 + t.Choose(4, "c12.calls")
	snap0 := Snapshot(&h)
	for c := 0; c < calls; c++ {
		ha := []int64{refcose.AlgSHA256, refcose.AlgSHA384, refcose.AlgSHA512, -18, 0, 9999, 1}[t.Pick([]int{4, 2, 2, 1, 1, 1, 2}, "c12.hash")]
		n := refcose.HashLen(ha)
		registered := ha == 1
		if ha == 1 {
			// the other registered hash algorithms (RFC 9054), with the digest
			// length they really have: ids this library has no code for, so
			// any length goes
			reg := [][2]int64{{-14, 20}, {-15, 8}, {-17, 32}, {-18, 32}, {-45, 64}, {-15, 8}}
			pick := reg[t.Choose(len(reg), "c12.hash.registered")]
			ha, n = pick[0], int(pick[1])
		}
		if n == 0 {
			n = 1 + t.Choose(70, "c12.hash.len")
		}
		lenClass := "right-length"
		if t.Bool(1, 5, "c12.hash.wronglen") {
			n = []int{0, n - 1, n + 1, 2 * n, n + 256, n + 512, n + 65536, 256}[t.Choose(8, "c12.hash.wrong")]
			if n < 0 {
				n = 0
			}
			lenClass = "wrong-length"
		}
		p := cose.HashEnvelopePayload{HashAlgorithm: cose.Algorithm(ha), HashValue: t.Bytes(n, "c12.digest")}
		if p.HashValue == nil {
			p.HashValue = []byte{}
		}
		ctClass := "no-ct"
		switch t.Pick([]int{3, 2, 2, 1}, "c12.ct") {
		case 1:
			p.PreimageContentType, ctClass = uint(t.Choose(70000, "c12.ct.n")), "ct-uint"
		case 2:
			p.PreimageContentType, ctClass = "application/"+genText(t, 6), "ct-text"
		case 3:
			bad := []any{-5, []byte{1}, true, 1.5, int64(-1), cbor.SimpleValue(16), cbor.SimpleValue(255), float32(2), []any{}, cbor.Tag{Number: 1, Content: uint64(3)}}
			p.PreimageContentType, ctClass = bad[t.Choose(len(bad), "c12.ct.bad")], "ct-wrongtype"
		}
		if t.Bool(1, 2, "c12.loc") {
			p.Location = "https://example.test/" + genText(t, 12)
		}
		if pre != nil && t.Bool(3, 4, "c12.preload.same") {
			// this call says exactly what the base header holds already
			p.HashAlgorithm, p.PreimageContentType, p.Location = pre.HashAlgorithm, pre.PreimageContentType, pre.Location
			ha, registered = int64(pre.HashAlgorithm), false
			if lenClass == "right-length" {
				p.HashValue = t.Bytes(refcose.HashLen(ha), "c12.preload.digest")
			} else if len(p.HashValue) == refcose.HashLen(ha) {
				lenClass = "right-length"
			}
			ctClass = "as-preloaded"
		}
		var env []byte
		var err error
		callSigner := signer
		if calls > 1 && t.Bool(1, 6, "c12.signer.fails") {
			// the signing device fails in the middle of a series of calls
			// that share the base headers (or a signer of another algorithm
			// is handed in by mistake): that call must fail and leave nothing
			// behind - neither in the caller's headers nor in later envelopes
			if t.Bool(1, 3, "c12.signer.otheralg") {
				if o := otherKey(t, key, false); o != nil {
					callSigner = r.signerFor(o, false)
				}
			} else {
				callSigner = &SpySigner{Inner: signer, Alg: signer.Algorithm(), Fault: []string{"err", "bytes+err", "err"}[t.Choose(3, "c12.signer.fault")], Tag: "envelope"}
			}
			r.Fired("signer.fails-between-envelopes")
		}
		r.Lib(func() { env, err = cose.SignHashEnvelope(ent, callSigner, h, p) })
		r.Op("ENVELOPE", "call %d: %s hash=%d %s %s loc=%v -> %s", c, class, ha, lenClass, ctClass, p.Location != "", errTag(err))
		if callSigner != signer && err == nil {
			if sp, ok := callSigner.(*SpySigner); ok && sp != nil {
				r.Fail("producer-succeeds-with-failing-signer", "SignHashEnvelope returned no error although the signer failed")
				return
			}
			// a signer of another key went through (its algorithm suits the base headers): nothing more to judge for this call
			continue
		}
		r.Outcome(fmt.Sprintf("produce/%s/%s/%s/%s", class, lenClass, ctClass, errTag(err)))
		r.Check()
		if s := Snapshot(&h); s != snap0 {
			r.Fail("producer-modifies-caller-headers", "SignHashEnvelope changed the caller's Headers value (call %d)\n%s", c, diffSnapshot(snap0, s))
			return
		}
		if err != nil {
			if env != nil {
				r.Fail("producer-returns-bytes-with-error", "SignHashEnvelope returned %d bytes together with %v", len(env), err)
			}
			if callSigner != signer {
				continue // refused because of the signer handed in: the later calls show whether anything was left behind
			}
			if registered && lenClass == "right-length" {
				// refused with the length the algorithm really has: if the
				// same call goes through with another length, the library
				// "knows" this algorithm with a length it does not have, and
				// what it then emits is not the hash value with the length
				// the algorithm requires
				for _, other := range []int{32, 48, 64, 20, 28, 8} {
					if other == n {
						continue
					}
					p2 := p
					p2.HashValue = make([]byte, other)
					var env2 []byte
					var err2 error
					r.Lib(func() { env2, err2 = cose.SignHashEnvelope(ent, signer, h, p2) })
					if err2 == nil && env2 != nil {
						r.Fail("producer-demands-wrong-digest-length", "hash algorithm %d has %d-byte values (RFC 9054); SignHashEnvelope refuses such a value (%v) and produces an envelope for a %d-byte one", ha, n, err, other)
						return
					}
				}
				r.Probe("registered-hash-refusal-cross-checked")
			}
			continue
		}
		// every envelope produced must conform
		m, perr := refcose.ParseMsg(refcose.KSign1Tagged, env)
		if perr != nil {
			r.Fail("producer-output-unparsable", "SignHashEnvelope output is not a tagged COSE_Sign1: %v\n%s", perr, hexShort(env))
			return
		}
		if rerr := refcose.EnvelopeRules(m); rerr != nil {
			r.Fail("producer-emits-nonconforming-envelope/"+errClass(rerr)+"/"+rawClass(class), "SignHashEnvelope produced an envelope that breaks the envelope rules: %v\nbase: %s\nenvelope: %s", rerr, class, hexShort(env))
			return
		}
		if got := refcose.Lookup(m.ProtMap, refcose.LHashAlg); got == nil || !got.IsInt() || mustInt(got) != ha {
			r.Fail("producer-wrong-hash-alg", "protected 258 is %s, payload hash algorithm given was %d", diagOrAbsent(got), ha)
		}
		// "when given": presence and value are demanded only for what the
		// caller gave; a base header may carry 259/260 of its own
		if p.PreimageContentType != nil {
			ct := refcose.Lookup(m.ProtMap, refcose.LPreimageCT)
			ok := ct != nil
			if ok {
				switch v := p.PreimageContentType.(type) {
				case uint:
					ok = ct.Major == refcbor.MUint && ct.Arg == uint64(v)
				case string:
					ok = ct.Major == refcbor.MTstr && string(ct.Data) == v
				}
			}
			if !ok {
				r.Fail("producer-preimage-content-type-mismatch", "259 is %s, given %v", diagOrAbsent(ct), p.PreimageContentType)
			}
		}
		if p.Location != "" {
			loc := refcose.Lookup(m.ProtMap, refcose.LPayloadLoc)
			if loc == nil || loc.Major != refcbor.MTstr || string(loc.Data) != p.Location {
				r.Fail("producer-location-mismatch", "260 is %s, given %q", diagOrAbsent(loc), p.Location)
			}
		}
		// the envelope's protected header is the caller's base header plus the
		// governed labels: nothing the caller put there disappears, whatever
		// Go integer type the label was written with
		for bk := range h.Protected {
			var lbl *refcbor.Item
			if v, ok := asInt64(bk); ok {
				if v == refcose.LAlg || v == refcose.LHashAlg || (v == refcose.LPreimageCT && p.PreimageContentType != nil) || (v == refcose.LPayloadLoc && p.Location != "") {
					continue
				}
				lbl = refcbor.Int(v)
			} else if sv, ok := bk.(string); ok {
				lbl = refcbor.Tstr(sv)
			} else {
				continue
			}
			found := false
			for i := 0; i+1 < len(m.ProtMap.Elems); i += 2 {
				if bytes.Equal(refcbor.CanonicalBytes(m.ProtMap.Elems[i]), refcbor.CanonicalBytes(lbl)) {
					found = true
				}
			}
			if !found {
				r.Fail("producer-drops-base-header-parameter", "the base protected header carried label %s (Go key type %T); the envelope's protected header does not\nbase: %s\nenvelope: %s", refcbor.Diag(lbl), bk, class, hexShort(env))
				return
			}
		}
		// ... and nothing appears that neither the base header nor this call's
		// payload description gave (alg aside, which Sign1 fills in): what an
		// earlier call - successful or failed - was given stays with that call
		if h.RawProtected == nil || len(h.RawProtected) == 0 {
			r.Check()
			for i := 0; i+1 < len(m.ProtMap.Elems); i += 2 {
				k := m.ProtMap.Elems[i]
				if v, ok := k.Int64(); ok && k.IsInt() {
					if v == refcose.LAlg || v == refcose.LHashAlg || (v == refcose.LPreimageCT && p.PreimageContentType != nil) || (v == refcose.LPayloadLoc && p.Location != "") {
						continue
					}
				}
				inBase := false
				for bk := range h.Protected {
					var lbl *refcbor.Item
					if v, ok := asInt64(bk); ok {
						lbl = refcbor.Int(v)
					} else if sv, ok := bk.(string); ok {
						lbl = refcbor.Tstr(sv)
					} else {
						continue
					}
					if bytes.Equal(refcbor.CanonicalBytes(k), refcbor.CanonicalBytes(lbl)) {
						inBase = true
					}
				}
				if !inBase {
					r.Fail("producer-invents-protected-parameter", "the envelope's protected header carries label %s = %s, which neither the base header nor this call's payload description gave (call %d of a series sharing the base headers)\nbase: %s\nenvelope: %s", refcbor.Diag(k), refcbor.Diag(m.ProtMap.Elems[i+1]), c, class, hexShort(env))
					return
				}
			}
		}
		if m.Payload.Major != refcbor.MBstr || !bytes.Equal(m.Payload.Data, p.HashValue) {
			r.Fail("producer-payload-not-hash-value", "payload %s, hash value %x", refcbor.Diag(m.Payload), p.HashValue)
		}
		// closure under the verifier
		var back *cose.Sign1Message
		var verr error
		r.Lib(func() { back, verr = cose.VerifyHashEnvelope(verifier, env) })
		if verr != nil {
			r.Fail("producer-output-refused-by-verifier/"+rawClass(class), "VerifyHashEnvelope refuses an envelope SignHashEnvelope just produced: %v\nbase: %s\nenvelope: %s", verr, class, hexShort(env))
			return
		}
		if back == nil || !bytes.Equal(back.Payload, p.HashValue) {
			r.Fail("verifier-returns-other-values", "VerifyHashEnvelope returned a message whose payload differs from the hash value")
			return
		}
		var gotAlg cose.Algorithm
		var aerr error
		r.Lib(func() { gotAlg, aerr = back.Headers.Protected.PayloadHashAlgorithm() })
		if aerr != nil || int64(gotAlg) != ha {
			r.Fail("verifier-returns-other-values", "returned message says payload hash alg (%d, %v), given %d", int64(gotAlg), aerr, ha)
		}
		r.Probe("envelope-produced-and-verified")
	}
}

func rawClass(class string) string {
	switch {
	case contains(class, "rawunprot"):
		return "raw-unprotected-supplied"
	case contains(class, "governed"):
		return "governed-label-in-base"
	}
	return "parsed-base"
}

func mustInt(it *refcbor.Item) int64 {
	v, _ := it.Int64()
	return v
}

// dedupLayer drops later entries with a label already present in the layer.
func dedupLayer(l Layer) Layer {
	seen := map[string]bool{}
	f := func(b Bucket) Bucket {
		var out Bucket
		for _, e := range b {
			id := refcbor.KeyIdentity(e.K)
			if seen[id] {
				continue
			}
			seen[id] = true
			out = append(out, e)
		}
		return out
	}
	// later additions win over generated ones: walk in reverse
	rev := func(b Bucket) Bucket {
		out := make(Bucket, len(b))
		for i, e := range b {
			out[len(b)-1-i] = e
		}
		return out
	}
	p := rev(f(rev(l.Prot)))
	u := rev(f(rev(l.Unprot)))
	return Layer{Prot: p, Unprot: u}
}

// c12Verifier: the byzantine issuer.
func c12Verifier(r *Run, t *tape.Tape) {
	key := pickCheapKey(t)
	ha := []int64{refcose.AlgSHA256, refcose.AlgSHA384, refcose.AlgSHA512, -18}[t.Pick([]int{4, 2, 2, 1}, "c12.hash")]
	n := refcose.HashLen(ha)
	if n == 0 {
		n = 20
	}
	a := key.Alg
	layer := envelopeSafe(genLayer(t, LayerOpts{MaxExtra: 3, Alg: &a, NoCrit: true}))
	layer.Prot = append(layer.Prot, KV{refcbor.Int(258), refcbor.Int(ha)})
	if t.Bool(1, 2, "c12.v.ct") {
		layer.Prot = append(layer.Prot, KV{refcbor.Int(259), genContentType(t)})
	}
	if t.Bool(1, 2, "c12.v.loc") {
		layer.Prot = append(layer.Prot, KV{refcbor.Int(260), refcbor.Tstr("https://example.test/x")})
	}
	broken := "conforming"
	nb := t.Pick([]int{2, 5, 2}, "c12.v.nbreak")
	for i := 0; i < nb; i++ {
		switch t.Choose(9, "c12.v.break") {
		case 0:
			layer.Prot = removeLabel(layer.Prot, 258)
			broken = "258-absent"
		case 1:
			layer.Prot = removeLabel(layer.Prot, 258)
			layer.Prot = append(layer.Prot, KV{refcbor.Int(258), append([]*refcbor.Item{refcbor.Tstr("SHA-256"), refcbor.Bstr([]byte{1}), refcbor.Float64(-16), refcbor.Nil()}, oddScalars()...)[t.Choose(4+len(oddScalars()), "c12.v.258type")]})
			broken = "258-wrong-type"
		case 2:
			lbl := []int64{258, 259, 260}[t.Choose(3, "c12.v.unprot.lbl")]
			layer.Unprot = append(removeLabel(layer.Unprot, lbl), KV{refcbor.Int(lbl), []*refcbor.Item{refcbor.Int(-16), refcbor.Tstr("a/b"), refcbor.Uint(7), refcbor.Nil(), refcbor.Undefined(), refcbor.Bstr(nil), refcbor.Array(), refcbor.Map(), refcbor.Bool(false)}[t.Choose(9, "c12.v.unprot.val")]})
			broken = "governed-label-in-unprotected"
		case 3:
			if t.Bool(1, 2, "c12.v.ct3.bucket") {
				layer.Prot = append(removeLabel(layer.Prot, 3), KV{refcbor.Int(3), genContentType(t)})
			} else {
				// (a blanked parameter - null, undefined - is a parameter all the same)
				ctv := genContentType(t)
				if t.Bool(1, 4, "c12.v.ct3.blank") {
					ctv = []*refcbor.Item{refcbor.Nil(), refcbor.Undefined()}[t.Choose(2, "c12.v.ct3.blank.v")]
				}
				layer.Unprot = append(removeLabel(layer.Unprot, 3), KV{refcbor.Int(3), ctv})
			}
			broken = "content-type-present"
		case 4:
			layer.Prot = append(removeLabel(layer.Prot, 259), KV{refcbor.Int(259), append([]*refcbor.Item{refcbor.Int(-3), refcbor.Bstr([]byte("a/b")), refcbor.Bool(true), refcbor.Array()}, oddScalars()...)[t.Choose(4+len(oddScalars()), "c12.v.259type")]})
			broken = "259-wrong-type"
		case 5:
			layer.Prot = append(removeLabel(layer.Prot, 260), KV{refcbor.Int(260), append([]*refcbor.Item{refcbor.Int(3), refcbor.Bstr([]byte("x")), refcbor.Nil()}, oddScalars()...)[t.Choose(3+len(oddScalars()), "c12.v.260type")]})
			broken = "260-wrong-type"
		case 6:
			if refcose.HashLen(ha) > 0 {
				n = []int{0, n - 1, n + 1, 20, n + 256, n + 1024, n + 65536}[t.Choose(7, "c12.v.len")]
				broken = "digest-length"
			}
		case 7:
			// move 258 from protected to unprotected
			if v := layer.Prot.lookup(258); v != nil {
				layer.Prot = removeLabel(layer.Prot, 258)
				layer.Unprot = append(removeLabel(layer.Unprot, 258), KV{refcbor.Int(258), v})
				broken = "258-moved-to-unprotected"
			}
		default:
		}
	}
	layer = dedupLayer(layer)
	spec := &MsgSpec{Kind: refcose.KSign1Tagged, Layer: layer, Payload: t.Bytes(n, "c12.v.digest"), Key: key}
	if spec.Payload == nil {
		spec.Payload = []byte{}
	}
	detached := t.Bool(1, 10, "c12.v.detached")
	ent := NewEntropy(uint64(t.U32("entropy.seed")))
	w := r.ForeignWire(t, spec, genKnobs(t), ent, detached, 0, false)
	vkey := key
	if t.Bool(1, 8, "c12.v.otherkey") {
		if o := otherKey(t, key, true); o != nil {
			vkey = o
		}
	}
	wire := w.B
	if t.Bool(1, 8, "c12.v.corrupt") {
		if out, k := ByteFault(t, wire); k != "" {
			wire = out
			r.Fired(k)
		}
	}
	verifier := r.verifierFor(vkey, false)
	var msg *cose.Sign1Message
	var err error
	if t.Bool(1, 3, "c12.v.history") {
		// history: the application has handled these very bytes before - it
		// verified them, decoded them and edited ITS decoded copy (dropped the
		// governed labels, set a hash algorithm).  None of that may influence
		// what VerifyHashEnvelope decides about the bytes now.
		r.Lib(func() { cose.VerifyHashEnvelope(verifier, wire) })
		var prev cose.Sign1Message
		var derr error
		r.Lib(func() { derr = prev.UnmarshalCBOR(wire) })
		if derr == nil {
			for _, l := range []int64{3, 258, 259, 260} {
				delete(prev.Headers.Protected, l)
				delete(prev.Headers.Unprotected, l)
			}
			if prev.Headers.Protected != nil {
				prev.Headers.Protected[int64(258)] = cose.AlgorithmSHA256
			}
			r.Fired("history.app-edits-earlier-decode")
		}
	}
	r.Lib(func() { msg, err = cose.VerifyHashEnvelope(verifier, wire) })
	r.Op("DELIVER", "byzantine envelope (%s, hash %d, digest %dB, detached=%v) -> %s", broken, ha, n, detached, errTag(err))
	r.Outcome("verify/" + broken + "/" + errTag(err))
	r.Check()
	if err != nil {
		if msg != nil {
			r.Fail("verifier-returns-message-with-error", "VerifyHashEnvelope returned a message together with %v", err)
		}
		return
	}
	if msg == nil {
		r.Fail("verifier-returns-nil-nil", "VerifyHashEnvelope returned (nil, nil)")
		return
	}
	ref, perr := RefVerdict(refcose.KSign1Tagged, wire, []*KeyPair{vkey}, nil, nil)
	if perr != nil || len(ref) != 1 || !ref[0].Valid {
		why := "unparsable"
		if perr == nil && len(ref) == 1 {
			why = ref[0].Why
		}
		r.Fail("envelope-accepted-with-invalid-signature/"+whyClass(why), "VerifyHashEnvelope returned a message although the signature is not valid (%s)\n%s", why, hexShort(wire))
		return
	}
	pm, _ := refcose.ParseMsg(refcose.KSign1Tagged, wire)
	if rerr := refcose.EnvelopeRules(pm); rerr != nil {
		r.Fail("nonconforming-envelope-accepted/"+errClass(rerr), "VerifyHashEnvelope returned a message for an envelope (validly signed) that breaks the rules: %v\n%s", rerr, hexShort(wire))
		return
	}
	r.Probe("envelope-accepted-conforming")
}

func removeLabel(b Bucket, label int64) Bucket {
	var out Bucket
	for _, e := range b {
		if e.K.IsInt() {
			if v, ok := e.K.Int64(); ok && v == label {
				continue
			}
		}
		out = append(out, e)
	}
	return out
}

// oddScalars are CBOR scalars that are neither integers nor strings although a
// decoder may hand them to Go as something integer-like (cbor.SimpleValue is
// a uint8) or float-like.
func oddScalars() []*refcbor.Item {
	return []*refcbor.Item{
		refcbor.Tag(32, refcbor.Tstr("https://example.test/tagged")), // a URI, but tagged: not a tstr
		refcbor.Tag(1, refcbor.Int(-16)),
		{Major: refcbor.MSimple, Arg: 16},
		{Major: refcbor.MSimple, Arg: 255, Width: 1},
		refcbor.Undefined(),
		{Major: refcbor.MSimple, Arg: 0x3c00, Width: 2}, // float16 1.0
		refcbor.Float64(3),
	}
}
