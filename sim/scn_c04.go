package sim

import (
	"bytes"
	"errors"
	"fmt"

	cose "github.com/veraison/go-cose"

	"verif/refcbor"
	"verif/refcose"
	"verif/tape"
)

func init() {
	Scenarios["C04"] = scenarioC04
	Infos["C04"] = ScenarioInfo{
		Level: "exploration",
		Rule: "one run = one signing or verification attempt through a recording Signer/Verifier whose algorithm is drawn independently of the alg header value " +
			"(matching built-in, other built-in, private-use integer on a custom signer, text, wrong CBOR type, absent) on Sign1Message / UntaggedSign1Message / Signature / SignMessage / Countersignature / " +
			"Sign1, Sign1Untagged and SignHashEnvelope helpers; constructed messages spell the alg label and value with any Go integer type, with/without external data, with/without caller-supplied raw protected bytes; " +
			"decoded messages come from the foreign peer with arbitrary alg values; a signer fault followed by fail-over to a signer of another algorithm on the same message value is one of the histories. " +
			"Oracle: mismatch => error (ErrAlgorithmMismatch for integers) and the recording seam saw no call; alg absent and no external => Verify errors, Sign errors or the emitted protected bytes carry the signer's alg and are the bytes inside the recorded ToBeSigned; " +
			"decoded: the seam is reached exactly when the alg the reference parser reads from the raw protected bytes equals the verifier's; ledger: every signature emitted left in a message whose protected alg equals the signing algorithm. " +
			"Decoded messages also come with histories: destination reused, same bytes decoded before and the first copy's parsed header edited, raw buckets re-parsed into used Headers/ProtectedHeader values. " +
			"Non-trivial = an attempt was judged; distinct = distinct (target, alg-value kind, external, raw, spelling class, outcome).",
		Assumptions: []string{"caller-supplied raw protected bytes are consistent with the parsed map (the API documents raw bytes as taking precedence)", "input model of DESIGN 2.2"},
		Real:        []string{"github.com/veraison/go-cose", "github.com/fxamacker/cbor/v2", "Go crypto behind the recording signer"},
		Stubs:       []string{"cose.Signer / cose.Verifier recording wrappers with injectable failure and arbitrary Algorithm()", "foreign peer (reference model)", "entropy source"},
		QuickRuns:   1000000, ThoroughRuns: 20000000,
	}
}

// 0 is the "reserved" algorithm: a custom signer whose Algorithm() was never
// set reports it
var privateUseAlgs = []int64{-65536, -65537, -70000, 0x7fffffff, -1 << 40, 1 << 50, 5, -260, 0, 0}

// c04AlgValue draws the alg header value.  kind: "match", "other-builtin",
// "private", "text", "wrongtype", "absent".
func c04AlgValue(t *tape.Tape, signerAlg int64) (item *refcbor.Item, kind string) {
	switch t.Pick([]int{5, 3, 2, 1, 1, 4, 1}, "c04.algkind") {
	case 6:
		// an unsigned value that equals the signer's algorithm modulo 2^64
		// (or 2^32): a Go caller's uint64 / a peer's 8-byte unsigned integer
		if signerAlg < 0 {
			if t.Bool(1, 2, "c04.alg.wrap32") {
				return refcbor.Uint(uint64(uint32(int32(signerAlg)))), "wrapping-uint"
			}
			return refcbor.Uint(uint64(signerAlg)), "wrapping-uint"
		}
		return refcbor.Int(-signerAlg), "other-int"
	case 0:
		return refcbor.Int(signerAlg), "match"
	case 1:
		b := []int64{-7, -8, -35, -36, -37, -38, -39, -257, -258, -259}
		v := b[t.Choose(len(b), "c04.alg.builtin")]
		if v == signerAlg {
			return refcbor.Int(signerAlg), "match"
		}
		return refcbor.Int(v), "other-int"
	case 2:
		v := privateUseAlgs[t.Choose(len(privateUseAlgs), "c04.alg.private")]
		if t.Bool(1, 3, "c04.alg.rand") {
			v = genInt(t)
		}
		if v == signerAlg {
			return refcbor.Int(v), "match"
		}
		return refcbor.Int(v), "other-int"
	case 3:
		s := []string{"ES256", "EdDSA", "-7", ""}
		return refcbor.Tstr(s[t.Choose(len(s), "c04.alg.text")]), "text"
	case 4:
		w := []*refcbor.Item{refcbor.Bstr([]byte{0x26}), refcbor.Bool(true), refcbor.Nil(), refcbor.Float64(-7), refcbor.Array(refcbor.Int(-7)), refcbor.Map()}
		return w[t.Choose(len(w), "c04.alg.wrong")], "wrongtype"
	}
	return nil, "absent"
}

// c04Verdict is what the property demands of an attempt.
type c04Expect struct {
	mustFail     bool // error and no call at the seam
	mustMismatch bool // errors.Is ErrAlgorithmMismatch
	why          string
}

func c04Expectation(hdrAlg *refcbor.Item, partyAlg int64, external []byte) c04Expect {
	switch {
	case hdrAlg == nil:
		if len(external) == 0 {
			return c04Expect{why: "alg absent, no external"} // sign may inject; verify must fail (handled by caller)
		}
		return c04Expect{}
	case hdrAlg.IsInt():
		if v, ok := hdrAlg.Int64(); !ok || v != partyAlg {
			return c04Expect{mustFail: true, mustMismatch: ok, why: "integer alg differs"}
		}
		return c04Expect{}
	default:
		return c04Expect{mustFail: true, why: "alg is not an integer"}
	}
}

func spellingClass(h cose.ProtectedHeader) string {
	for k := range h {
		if v, ok := asInt64(k); ok && v == 1 {
			if _, is64 := k.(int64); is64 {
				return "int64"
			}
			return "non-int64"
		}
	}
	return "none"
}

// protAlgOnWire reads the alg out of protected bstr bytes (the complete bstr
// item) with the reference parser.
func protAlgOnWire(protBstr []byte) (alg *refcbor.Item, content []byte, err error) {
	it, err := refcbor.ParseOne(protBstr)
	if err != nil {
		return nil, nil, err
	}
	if it.Major != refcbor.MBstr {
		return nil, nil, errors.New("protected is not a bstr")
	}
	if len(it.Data) == 0 {
		return nil, it.Data, nil
	}
	m, err := refcbor.ParseOne(it.Data)
	if err != nil || m.Major != refcbor.MMap {
		return nil, it.Data, errors.New("protected content is not a map")
	}
	return refcose.Lookup(m, refcose.LAlg), it.Data, nil
}

// tbsField returns element i of a recorded ToBeSigned array.
func tbsField(tbs []byte, i int) ([]byte, bool) {
	it, err := refcbor.ParseOne(tbs)
	if err != nil || it.Major != refcbor.MArray || i >= len(it.Elems) || it.Elems[i].Major != refcbor.MBstr {
		return nil, false
	}
	return it.Elems[i].Data, true
}

func scenarioC04(r *Run) {
	t := r.T
	if t.Bool(2, 5, "c04.decoded") {
		c04Decoded(r)
		return
	}
	c04Constructed(r)
}

// c04Constructed: signing (and then verifying) messages built in memory.
func c04Constructed(r *Run) {
	t := r.T
	key := pickCheapKey(t)
	signerAlg := key.Alg
	custom := t.Bool(1, 4, "c04.customsigner")
	if custom {
		signerAlg = privateUseAlgs[t.Choose(len(privateUseAlgs), "c04.signer.private")]
	}
	algItem, algKind := c04AlgValue(t, signerAlg)
	if algKind == "wrapping-uint" {
		r.Probe("alg-value-unsigned-congruent-to-signer-alg")
	}
	external := genExternal(t)
	lo := LayerOpts{MaxExtra: 3, AlgItem: algItem}
	if t.Bool(1, 6, "c04.manyparams") {
		// a header as large as a certificate chain plus claims makes it:
		// the algorithm governs whatever the size of the bucket it sits in
		lo.MaxExtra = 40
	}
	targets := []string{"Sign1Message", "UntaggedSign1Message", "Signature", "SignMessage", "Countersignature", "Sign1()", "Sign1Untagged()", "SignHashEnvelope()"}
	target := targets[t.Choose(len(targets), "c04.target")]
	layer := genLayer(t, lo)
	if target == "SignHashEnvelope()" {
		// a conforming base header, so that no other envelope rule pre-empts the alg check
		layer = envelopeSafe(layer)
	}
	sp := Spelling{T: t, Labels: true, Values: true, AlgLabel: t.Bool(1, 2, "c04.spell.alglabel")}
	typed := t.Bool(1, 3, "c04.typedalg")
	h := libHeaders(layer, sp, typed)
	spell := spellingClass(h.Protected)
	withRaw := t.Bool(1, 4, "c04.raw")
	if withRaw {
		var raw []byte
		var err error
		r.Lib(func() { raw, err = h.Protected.MarshalCBOR() })
		if err != nil {
			withRaw = false
		} else {
			h.RawProtected = raw
		}
	}
	ent := NewEntropy(uint64(t.U32("entropy.seed")))
	inner := r.signerFor(key, false)
	spy := &SpySigner{Inner: inner, Alg: cose.Algorithm(signerAlg)}
	payload := genPayload(t, false)

	facts := fmt.Sprintf("target=%s alg=%s external=%s raw=%v spelling=%s", target, algKind, extClass(external), withRaw, spell)
	r.Op("SIGN", "%s signerAlg=%d custom=%v hdr=%s", facts, signerAlg, custom, diagBucket(layer.Prot))
	r.Outcome(target + "/" + algKind + "/" + extClass(external))

	// what is signed, how to emit the governing protected bytes, where they
	// sit in ToBeSigned
	var (
		signErr   error
		hdrs      *cose.Headers
		tbsIdx    = 1
		helperOut []byte
		isHelper  bool
		verify    func(v cose.Verifier, ext []byte) error
		attempt   func()
	)
	switch target {
	case "Sign1Message", "UntaggedSign1Message":
		m := &cose.Sign1Message{Headers: h, Payload: payload}
		hdrs = &m.Headers
		if target == "Sign1Message" {
			attempt = func() { r.Lib(func() { signErr = m.Sign(ent, external, spy) }) }
			verify = func(v cose.Verifier, ext []byte) error { return m.Verify(ext, v) }
		} else {
			u := (*cose.UntaggedSign1Message)(m)
			attempt = func() { r.Lib(func() { signErr = u.Sign(ent, external, spy) }) }
			verify = func(v cose.Verifier, ext []byte) error { return u.Verify(ext, v) }
		}
	case "Signature":
		s := &cose.Signature{Headers: h}
		hdrs, tbsIdx = &s.Headers, 2
		body := []byte{0x40}
		attempt = func() { r.Lib(func() { signErr = s.Sign(ent, spy, body, payload, external) }) }
		verify = func(v cose.Verifier, ext []byte) error { return s.Verify(v, body, payload, ext) }
	case "SignMessage":
		// the governed layer is the second signature; the first one is signed
		// by a well-behaved signer of its own algorithm
		k0 := pickCheapKey(t)
		a0 := k0.Alg
		l0 := genLayer(t, LayerOpts{MaxExtra: 1, Alg: &a0})
		m := &cose.SignMessage{Headers: libHeaders(genLayer(t, LayerOpts{MaxExtra: 2}), Spelling{T: t}, false), Payload: payload,
			Signatures: []*cose.Signature{{Headers: libHeaders(l0, Spelling{T: t}, true)}, {Headers: h}}}
		hdrs, tbsIdx = &m.Signatures[1].Headers, 2
		s0 := r.signerFor(k0, false)
		attempt = func() {
			// (a retry starts from the unsigned message again)
			m.Signatures[0].Signature = nil
			r.Lib(func() { signErr = m.Sign(ent, external, s0, spy) })
		}
		// position 0 accepts without looking so that position 1 is always reached
		v0 := &SpyVerifier{Alg: cose.Algorithm(a0), Fault: "accept"}
		verify = func(v cose.Verifier, ext []byte) error { return m.Verify(ext, v0, v) }
	case "Countersignature":
		parent := c04Parent(r, ent)
		cs := &cose.Countersignature{Headers: h}
		hdrs, tbsIdx = &cs.Headers, 2
		attempt = func() { r.Lib(func() { signErr = cs.Sign(ent, spy, parent, external) }) }
		verify = func(v cose.Verifier, ext []byte) error { return cs.Verify(v, parent, ext) }
	case "Sign1()":
		isHelper = true
		attempt = func() { r.Lib(func() { helperOut, signErr = cose.Sign1(ent, spy, h, payload, external) }) }
	case "Sign1Untagged()":
		isHelper = true
		attempt = func() { r.Lib(func() { helperOut, signErr = cose.Sign1Untagged(ent, spy, h, payload, external) }) }
	case "SignHashEnvelope()":
		isHelper = true
		external = nil
		withRaw = false // the producer discards caller-supplied raw protected bytes
		if t.Bool(1, 2, "c04.env.staleraw") {
			// ... so ANY raw bytes are legal here, e.g. those of an earlier
			// envelope made under another algorithm whose decoded Headers the
			// caller re-uses after changing the parsed alg
			stale := []int64{-7, -8, -35, -37}[t.Choose(4, "c04.env.stalealg")]
			h.RawProtected = refcbor.Encode(refcbor.Bstr(refcbor.Encode(refcbor.Map(refcbor.Int(1), refcbor.Int(stale), refcbor.Int(258), refcbor.Int(-16)))))
			r.Probe("envelope-with-stale-raw-protected")
		}
		hp := cose.HashEnvelopePayload{HashAlgorithm: cose.AlgorithmSHA256, HashValue: t.Bytes(32, "env.digest")}
		attempt = func() { r.Lib(func() { helperOut, signErr = cose.SignHashEnvelope(ent, spy, h, hp) }) }
	}
	attempt()
	exp := c04Expectation(algItem, signerAlg, external)
	calls := len(spy.Calls)
	r.Logf("sign: err=%s calls=%d", errTag(signErr), calls)
	r.Check()
	sigFacts := "/" + target + "/alg=" + algKind + "/label-spelling=" + spell
	if signErr != nil && calls == 0 && t.Bool(1, 2, "c04.retry") {
		// the caller tries again with the very same objects (a retry loop
		// around a signing service): a refused attempt must not have changed
		// anything that makes the next one pass
		for i, n := 0, 1+t.Choose(2, "c04.retry.n"); i < n && signErr != nil && len(spy.Calls) == 0; i++ {
			helperOut = nil
			attempt()
			r.Fired("sign.retry-after-refusal")
		}
		calls = len(spy.Calls)
		r.Logf("retry: err=%s calls=%d", errTag(signErr), calls)
		if signErr == nil || calls > 0 {
			sigFacts += "/on-retry"
		}
	}
	if exp.mustFail {
		if signErr == nil || calls > 0 {
			r.Fail("sign-proceeds-on-alg-mismatch"+sigFacts,
				"protected alg %s differs from the signer's algorithm %d (%s), yet Sign returned %v and the signer was called %d time(s)\n%s", refcbor.Diag(algItem), signerAlg, exp.why, signErr, calls, facts)
		} else if exp.mustMismatch && spell != "non-int64" && !errors.Is(signErr, cose.ErrAlgorithmMismatch) && isGoAlgType(h.Protected) {
			r.Fail("sign-mismatch-wrong-error"+sigFacts, "integer alg mismatch reported as %v, not ErrAlgorithmMismatch\n%s", signErr, facts)
		}
		if isHelper && helperOut != nil {
			r.Fail("helper-returns-bytes-with-error/"+target, "%s returned %d bytes together with %v", target, len(helperOut), signErr)
		}
		r.Outcome("refused")
		return
	}
	if signErr != nil {
		if calls > 0 {
			// the signer ran and failed for its own reasons (cannot happen with a well-behaved inner signer)
			r.Fail("signer-failed-unexpectedly"+sigFacts, "inner signer failed: %v", signErr)
		}
		r.Outcome("refused-other")
		return
	}
	// signing succeeded: the emitted protected bytes must carry the signer's
	// algorithm (or external data was given), and they are the bytes inside
	// the recorded ToBeSigned
	var protBstr []byte
	if isHelper {
		kind := refcose.KSign1Tagged
		if target == "Sign1Untagged()" {
			kind = refcose.KSign1Untagged
		}
		m, err := refcose.ParseMsg(kind, helperOut)
		if err != nil {
			r.Outcome("helper-output-unparsable") // C08's business
			return
		}
		protBstr = refcbor.Encode(refcbor.Bstr(m.ProtBstr.Data))
	} else {
		var err error
		r.Lib(func() { protBstr, err = hdrs.MarshalProtected() })
		if err != nil {
			r.Outcome("emit-refused") // signed but not emittable: C08's business
			return
		}
	}
	wireAlg, content, perr := protAlgOnWire(protBstr)
	if perr != nil {
		r.Outcome("protected-unparsable")
		return
	}
	r.Check()
	switch {
	case wireAlg == nil && len(external) == 0:
		r.Fail("signed-without-alg-in-protected"+sigFacts+fmt.Sprintf("/raw=%v", withRaw),
			"Sign succeeded without external data but the protected bytes that were signed carry no alg\nprotected: %x\n%s", protBstr, facts)
	case wireAlg != nil:
		v, ok := wireAlg.Int64()
		if !wireAlg.IsInt() || !ok || v != signerAlg {
			r.Fail("ledger-signed-under-other-alg"+sigFacts,
				"a signature was produced by a signer of algorithm %d but the protected bytes of the message say alg = %s\nprotected: %x\n%s", signerAlg, refcbor.Diag(wireAlg), protBstr, facts)
		}
	}
	if calls != 1 {
		r.Fail("signer-call-count"+sigFacts, "signer called %d times for one signature", calls)
	} else if got, ok := tbsField(spy.Calls[0].Content, tbsIdx); !ok || !bytes.Equal(got, content) {
		r.Fail("signed-protected-differs-from-emitted"+sigFacts,
			"the protected bytes inside the recorded ToBeSigned differ from the ones the message emits\n in ToBeSigned: %x\n       emitted: %x\n%s", got, content, facts)
	}
	if algKind == "absent" && len(external) == 0 {
		r.Probe("alg-injected")
	}
	r.Outcome("signed")

	// fail-over history: a second signer of another algorithm on the same value
	// is covered by the refusal of double signing; exercised in c04Failover.

	// verification of the constructed, signed message
	if verify == nil {
		return
	}
	c04VerifyAttempt(r, "constructed/"+target, wireAlg, spell, key, signerAlg, custom, external, verify)
}

func isGoAlgType(h cose.ProtectedHeader) bool {
	for k, v := range h {
		if kv, ok := asInt64(k); ok && kv == 1 {
			switch v.(type) {
			case cose.Algorithm, int, int8, int16, int32, int64:
				return true
			}
			return false
		}
	}
	return false
}

func extClass(e []byte) string {
	switch {
	case e == nil:
		return "nil"
	case len(e) == 0:
		return "empty"
	}
	return "nonempty"
}

// c04Parent builds a signed Sign1 parent for countersignature attempts.
func c04Parent(r *Run, ent *Entropy) *cose.Sign1Message {
	t := r.T
	k := pickCheapKey(t)
	a := k.Alg
	m := &cose.Sign1Message{Headers: libHeaders(genLayer(t, LayerOpts{MaxExtra: 1, Alg: &a}), Spelling{T: t}, true), Payload: t.Bytes(8, "parent.payload")}
	s := r.signerFor(k, false)
	var err error
	r.Lib(func() { err = m.Sign(ent, nil, s) })
	if err != nil {
		r.Skip("parent for countersignature could not be signed: " + err.Error())
	}
	return m
}

// c04VerifyAttempt drives one verification through a recording verifier whose
// algorithm is drawn independently, and judges it.
func c04VerifyAttempt(r *Run, where string, wireAlg *refcbor.Item, spell string, key *KeyPair, signedAlg int64, custom bool, signExternal []byte, verify func(v cose.Verifier, ext []byte) error) {
	t := r.T
	verAlg := signedAlg
	switch t.Pick([]int{4, 2, 2}, "c04.veralg") {
	case 1:
		b := []int64{-7, -8, -35, -36, -37, -38, -39}
		verAlg = b[t.Choose(len(b), "c04.veralg.b")]
	case 2:
		verAlg = privateUseAlgs[t.Choose(len(privateUseAlgs), "c04.veralg.p")]
	}
	external := signExternal
	if t.Bool(1, 4, "c04.verext") {
		external = genExternal(t)
	}
	spy := &SpyVerifier{Alg: cose.Algorithm(verAlg), Fault: "accept"}
	var err error
	r.Lib(func() { err = verify(spy, external) })
	calls := len(spy.Calls)
	exp := c04Expectation(wireAlg, verAlg, external)
	if wireAlg == nil && len(external) == 0 {
		exp.mustFail = true
	}
	r.Op("VERIFY", "%s verifierAlg=%d external=%s wireAlg=%s -> %s calls=%d", where, verAlg, extClass(external), diagOrAbsent(wireAlg), errTag(err), calls)
	r.Check()
	sigFacts := "/" + where + "/label-spelling=" + spell
	if exp.mustFail {
		if err == nil || calls > 0 {
			r.Fail("verify-proceeds-on-alg-mismatch"+sigFacts,
				"protected alg %s vs verifier algorithm %d (%s): Verify returned %v and the verifier was called %d time(s)", diagOrAbsent(wireAlg), verAlg, exp.why, err, calls)
		} else if exp.mustMismatch && !errors.Is(err, cose.ErrAlgorithmMismatch) && spell != "non-int64" {
			r.Fail("verify-mismatch-wrong-error"+sigFacts, "integer alg mismatch reported as %v, not ErrAlgorithmMismatch", err)
		}
		r.Outcome("verify-refused")
		return
	}
	// algorithms agree (or alg absent with external data): the seam must be reached
	if calls != 1 || err != nil {
		r.Fail("verify-does-not-reach-verifier"+sigFacts,
			"protected alg %s agrees with the verifier's algorithm %d (external %s), payload and signature are present, yet Verify returned %v after %d verifier call(s): the library consulted another alg than the one in the signed bytes",
			diagOrAbsent(wireAlg), verAlg, extClass(external), err, calls)
	}
	r.Outcome("verify-reached")
}

func diagOrAbsent(it *refcbor.Item) string {
	if it == nil {
		return "absent"
	}
	return refcbor.Diag(it)
}

// c04Decoded: messages from the foreign peer with arbitrary alg values are
// decoded and verified through recording verifiers; also a fail-over history
// on the signing side.
func c04Decoded(r *Run) {
	t := r.T
	if t.Bool(1, 4, "c04.failover") {
		c04Failover(r)
		return
	}
	if t.Bool(1, 12, "c04.rotated") {
		c04Rotated(r)
		return
	}
	if t.Bool(1, 10, "c04.recycled") {
		c04Recycled(r)
		return
	}
	if t.Bool(1, 12, "c04.standalone") {
		c04Standalone(r)
		return
	}
	key := pickCheapKey(t)
	algItem, algKind := c04AlgValue(t, key.Alg)
	if algKind == "wrongtype" {
		algItem, algKind = nil, "absent"
	}
	kinds := []refcose.Kind{refcose.KSign1Tagged, refcose.KSign1Untagged, refcose.KSignTagged}
	kind := kinds[t.Choose(3, "c04.dec.kind")]
	spec := &MsgSpec{Kind: kind, Payload: genPayload(t, false), External: genExternal(t)}
	gov := genLayer(t, LayerOpts{MaxExtra: 3, AlgItem: algItem})
	if algKind == "absent" && t.Bool(1, 2, "c04.dec.unprot-alg") && gov.Unprot.lookup(refcose.LAlg) == nil {
		// the signed bytes name no algorithm, the UNPROTECTED bucket does (the
		// key's own, as a hint): unsigned bytes govern nothing, so without
		// external data verification still fails and the key is not invoked
		gov.Unprot = append(gov.Unprot, KV{refcbor.Uint(refcose.LAlg), refcbor.Int(key.Alg)})
		r.Fired("alg.only-in-unprotected")
	}
	if kind == refcose.KSignTagged {
		spec.Layer = genLayer(t, LayerOpts{MaxExtra: 2})
		if t.Bool(1, 3, "c04.dec.bodyalg") {
			// the BODY header states an algorithm (the verifier's own, or
			// another one): it governs nothing - only the signer's protected
			// header does
			a := key.Alg
			if t.Bool(1, 3, "c04.dec.bodyalg.other") {
				a = []int64{-7, -8, -35}[t.Choose(3, "c04.dec.bodyalg.v")]
			}
			spec.Layer = genLayer(t, LayerOpts{MaxExtra: 2, Alg: &a})
		}
		spec.Signers = []*SignerSpec{{Layer: gov, Key: key}}
	} else {
		spec.Layer, spec.Key = gov, key
	}
	ent := NewEntropy(uint64(t.U32("entropy.seed")))
	w := r.ForeignWire(t, spec, genKnobs(t), ent, false, 0, false)
	r.Op("FOREIGN_ISSUE", "%s alg=%s", spec, algKind)
	r.Outcome("decoded/" + kind.String() + "/" + algKind + "/" + extClass(spec.External))
	var rc *Received
	var err error
	if t.Bool(1, 3, "c04.dec.reuse") {
		// the destination variable held another message (of the same kind,
		// naming the verifier's algorithm) before: the alg consulted must
		// still be the one in THIS message's protected bytes
		a := key.Alg
		prev := &MsgSpec{Kind: kind, Payload: []byte("earlier"), External: nil}
		pl := genLayer(t, LayerOpts{MaxExtra: 2, Alg: &a})
		if kind == refcose.KSignTagged {
			prev.Layer = genLayer(t, LayerOpts{MaxExtra: 1})
			prev.Signers = []*SignerSpec{{Layer: pl, Key: key}}
		} else {
			prev.Layer, prev.Key = pl, key
		}
		pw := r.ForeignWire(t, prev, Knobs{}, ent, false, 0, false)
		rc, err = r.DecodeReusing(kind, pw.B, w.B)
		r.Fired("dest.reuse.ok")
	} else {
		if t.Bool(1, 4, "c04.dec.twin") {
			// the same bytes were received once before, and whoever holds that
			// first message edited its parsed protected header afterwards (a
			// relay preparing its own re-signing): the second decoding answers
			// from ITS bytes, not from a value the first one still shares
			if first, e1 := r.Decode(kind, w.B); e1 == nil {
				var fp cose.ProtectedHeader
				if first.MS != nil {
					if len(first.MS.Signatures) > 0 && first.MS.Signatures[0] != nil {
						fp = first.MS.Signatures[0].Headers.Protected
					}
				} else {
					fp = first.M1.Headers.Protected
				}
				if fp != nil {
					other := []int64{-7, -8, -35, -36, -37, -38, -39}[t.Choose(7, "c04.dec.twin.alg")]
					switch t.Choose(3, "c04.dec.twin.edit") {
					case 0:
						fp[cose.HeaderLabelAlgorithm] = cose.Algorithm(other)
					case 1:
						for k := range fp {
							if v, ok := asInt64(k); ok && v == refcose.LAlg {
								delete(fp, k)
							}
						}
					default:
						fp[cose.HeaderLabelAlgorithm] = cose.Algorithm(key.Alg)
					}
					r.Fired("history.same-bytes-decoded-before-and-first-copy-edited")
				}
			}
		}
		rc, err = r.Decode(kind, w.B)
		if err == nil && t.Bool(1, 4, "c04.dec.reparse") {
			// the application parses the raw buckets again into a Headers (or a
			// ProtectedHeader) value that was used for an earlier message naming
			// the verifier's algorithm, and puts the result in place of the
			// decoded headers: what is consulted is still what THESE bytes say
			hp := &rc.M1
			var cur *cose.Headers
			if rc.MS != nil {
				if len(rc.MS.Signatures) > 0 && rc.MS.Signatures[0] != nil {
					cur = &rc.MS.Signatures[0].Headers
				}
			} else {
				cur = &(*hp).Headers
			}
			if cur != nil && len(cur.RawProtected) > 0 {
				earlierProt := refcbor.Encode(refcbor.Bstr(refcbor.Encode(refcbor.Map(refcbor.Int(refcose.LAlg), refcbor.Int(key.Alg), refcbor.Int(refcose.LKid), refcbor.Bstr([]byte("earlier"))))))
				var e2 error
				if t.Bool(1, 2, "c04.dec.reparse.how") {
					h := cose.Headers{RawProtected: earlierProt, RawUnprotected: []byte{0xa0}}
					r.Lib(func() {
						if e2 = h.UnmarshalFromRaw(); e2 == nil {
							h.RawProtected, h.RawUnprotected = cur.RawProtected, cur.RawUnprotected
							e2 = h.UnmarshalFromRaw()
						}
					})
					if e2 == nil {
						*cur = h
						r.Fired("history.headers-value-reparsed-from-raw")
					}
				} else {
					var ph cose.ProtectedHeader
					r.Lib(func() {
						if e2 = ph.UnmarshalCBOR(earlierProt); e2 == nil {
							e2 = ph.UnmarshalCBOR(cur.RawProtected)
						}
					})
					if e2 == nil {
						cur.Protected = ph
						r.Fired("history.protected-header-value-reparsed")
					}
				}
			}
		}
	}
	if err != nil {
		// a text alg is a conforming header; refusing the message is C07's business
		r.Outcome("decode-refused")
		return
	}
	// (iii) the typed alg go-cose exposes equals what the raw bytes say
	pm, perr := refcose.ParseMsg(kind, w.B)
	if perr != nil {
		r.Skip("foreign message unparsable by the reference: " + perr.Error())
	}
	govLayer := pm.Layer
	var libProt cose.ProtectedHeader
	if kind == refcose.KSignTagged {
		govLayer = pm.Sigs[0].Layer
		libProt = rc.MS.Signatures[0].Headers.Protected
	} else {
		libProt = rc.M1.Headers.Protected
	}
	wireAlg := refcose.Lookup(govLayer.ProtMap, refcose.LAlg)
	r.Check()
	var la cose.Algorithm
	var lerr error
	r.Lib(func() { la, lerr = libProt.Algorithm() })
	switch {
	case wireAlg == nil:
		if lerr == nil {
			r.Fail("decoded-alg-invented", "raw protected bytes carry no alg, Protected.Algorithm() returned %d", int64(la))
		}
	case wireAlg.IsInt():
		v, _ := wireAlg.Int64()
		if lerr != nil || int64(la) != v {
			r.Fail("decoded-alg-differs-from-raw", "raw protected bytes say alg = %d, Protected.Algorithm() returned (%d, %v)", v, int64(la), lerr)
		}
	default:
		if lerr == nil {
			r.Fail("decoded-text-alg-typed", "raw protected bytes carry a text alg, Protected.Algorithm() returned %d without error", int64(la))
		}
	}
	verify := func(v cose.Verifier, ext []byte) error {
		if rc.MS != nil {
			return rc.MS.Verify(ext, v)
		}
		if kind == refcose.KSign1Untagged {
			return (*cose.UntaggedSign1Message)(rc.M1).Verify(ext, v)
		}
		return rc.M1.Verify(ext, v)
	}
	c04VerifyAttempt(r, "decoded/"+kind.String(), wireAlg, "int64", key, key.Alg, false, spec.External, verify)
}

// c04Failover: the issuer's first signer fails after Sign already wrote into
// the message (alg injection); it then fails over to another signer, possibly
// of another algorithm, on the same message value.
func c04Failover(r *Run) {
	t := r.T
	k1 := pickCheapKey(t)
	k2 := otherKey(t, k1, t.Bool(1, 3, "c04.fo.samealg"))
	if k2 == nil || k2.Alg == 0 {
		k2 = poolEd[0]
	}
	if _, isRSA := k2.Priv.Public().(interface{ Size() int }); isRSA {
		k2 = poolEC[0]
	}
	external := genExternal(t)
	layer := genLayer(t, LayerOpts{MaxExtra: 2})
	pinned := false
	if t.Bool(1, 2, "c04.fo.algpresent") {
		a := k1.Alg
		layer = genLayer(t, LayerOpts{MaxExtra: 2, Alg: &a})
		pinned = true
	}
	// the caller may have written the header with any Go integer type for
	// its labels (an untyped constant in a map literal is an int)
	sp := Spelling{T: t, Labels: true, AlgLabel: t.Bool(1, 2, "c04.fo.spell")}
	m := &cose.Sign1Message{Headers: libHeaders(layer, sp, t.Bool(1, 2, "c04.fo.typed")), Payload: genPayload(t, false)}
	ent := NewEntropy(uint64(t.U32("entropy.seed")))
	first := &SpySigner{Inner: r.signerFor(k1, false), Alg: cose.Algorithm(k1.Alg), Fault: "err"}
	var err1 error
	r.Lib(func() { err1 = m.Sign(ent, external, first) })
	r.Fired("signer.err")
	r.Op("SIGN", "first signer %s (alg %d) fails: %s", k1.Name, k1.Alg, errTag(err1))
	second := &SpySigner{Inner: r.signerFor(k2, false), Alg: cose.Algorithm(k2.Alg)}
	var err2 error
	r.Lib(func() { err2 = m.Sign(ent, external, second) })
	r.Fired("failover")
	r.Op("FAILOVER", "second signer %s (alg %d): %s", k2.Name, k2.Alg, errTag(err2))
	if k1.Alg != k2.Alg {
		r.Probe("failover-alg-differs")
	}
	r.Outcome(fmt.Sprintf("failover/samealg=%v/%s", k1.Alg == k2.Alg, extClass(external)))
	r.Check()
	if pinned && k1.Alg != k2.Alg && (err2 == nil || len(second.Calls) > 0) {
		// the caller had pinned alg = k1's algorithm in the protected header:
		// the failed first attempt must not have un-pinned it
		r.Fail("failover-overrides-pinned-algorithm/label-spelling="+spellingClass(m.Headers.Protected), "the protected header pinned alg %d; after a failed attempt with a signer of that algorithm, Sign with a signer of algorithm %d returned %v and called the signer %d time(s)", k1.Alg, k2.Alg, err2, len(second.Calls))
		return
	}
	if err2 != nil {
		if len(second.Calls) > 0 {
			r.Fail("failover-key-used-then-error", "second signer was called although Sign returned %v", err2)
		}
		r.Outcome("failover-refused")
		return
	}
	var prot []byte
	var perr error
	r.Lib(func() { prot, perr = m.Headers.MarshalProtected() })
	if perr != nil {
		r.Outcome("emit-refused")
		return
	}
	wireAlg, _, e := protAlgOnWire(prot)
	if e != nil {
		return
	}
	switch {
	case wireAlg == nil && len(external) == 0:
		r.Fail("failover-signed-without-alg", "after fail-over the message was signed without external data and without alg in the protected bytes")
	case wireAlg != nil:
		if v, ok := wireAlg.Int64(); !ok || !wireAlg.IsInt() || v != k2.Alg {
			r.Fail("ledger-signed-under-other-alg/failover",
				"after a failed attempt with a signer of algorithm %d, the message was signed by a signer of algorithm %d while its protected bytes say alg = %s", k1.Alg, k2.Alg, refcbor.Diag(wireAlg))
		}
	}
	r.Outcome("failover-signed")
}

// c04Rotated: one long-lived signer / verifier OBJECT whose key is rotated
// behind it (a KMS handle: the same Go value answers Algorithm() with the new
// key's algorithm afterwards).  Every use is judged by what the object says
// at that moment.
func c04Rotated(r *Run) {
	t := r.T
	k1 := pickCheapKey(t)
	k2 := otherKey(t, k1, false)
	if k2 == nil || k2.Alg == k1.Alg {
		k2 = poolEd[0]
		if k1.Alg == k2.Alg {
			k2 = poolEC[0]
		}
	}
	if _, isRSA := k2.Priv.Public().(interface{ Size() int }); isRSA {
		k2 = poolEC[3]
		if k2.Alg == k1.Alg {
			k2 = poolEC[0]
		}
	}
	ent := NewEntropy(uint64(t.U32("entropy.seed")))
	payload := genPayload(t, false)
	pinned := func(alg int64) cose.Headers {
		return cose.Headers{Protected: cose.ProtectedHeader{cose.HeaderLabelAlgorithm: cose.Algorithm(alg)}}
	}
	spy := &SpySigner{Inner: r.signerFor(k1, false), Alg: cose.Algorithm(k1.Alg)}
	spyV := &SpyVerifier{Inner: r.verifierFor(k1, false), Alg: cose.Algorithm(k1.Alg)}
	m1 := &cose.Sign1Message{Headers: pinned(k1.Alg), Payload: payload}
	var e1, ev1 error
	r.Lib(func() { e1 = m1.Sign(ent, nil, spy) })
	if e1 != nil {
		r.Outcome("rotated/first-use-refused")
		return
	}
	r.Lib(func() { ev1 = m1.Verify(nil, spyV) })
	r.Op("SIGN", "long-lived signer and verifier objects used with %s (alg %d): %s / %s", k1.Name, k1.Alg, errTag(e1), errTag(ev1))
	// rotation: same objects, new key, new algorithm
	spy.Inner, spy.Alg = r.signerFor(k2, false), cose.Algorithm(k2.Alg)
	spyV.Inner, spyV.Alg = r.verifierFor(k2, false), cose.Algorithm(k2.Alg)
	r.Fired("seam.key-rotated-behind-the-object")
	r.Op("ROTATE", "the same objects now stand for %s (alg %d)", k2.Name, k2.Alg)
	r.Outcome("rotated")
	calls, vcalls := len(spy.Calls), len(spyV.Calls)
	// a message pinned to the OLD algorithm must be refused, key unused
	m2 := &cose.Sign1Message{Headers: pinned(k1.Alg), Payload: payload}
	var e2 error
	r.Lib(func() { e2 = m2.Sign(ent, nil, spy) })
	r.Check()
	if e2 == nil || len(spy.Calls) != calls {
		r.Fail("rotated-signer-judged-by-its-earlier-algorithm", "a signer object that now answers Algorithm() = %d was used before with %d; Sign of a message pinned to alg %d returned %v and called the signer %d time(s)", k2.Alg, k1.Alg, k1.Alg, e2, len(spy.Calls)-calls)
		return
	}
	// a message that leaves the algorithm to the library gets the NEW one
	m3 := &cose.Sign1Message{Payload: payload}
	var e3 error
	var wire []byte
	r.Lib(func() { e3 = m3.Sign(ent, nil, spy) })
	if e3 == nil {
		r.Lib(func() { wire, e3 = m3.MarshalCBOR() })
	}
	r.Check()
	if e3 == nil {
		if pm, perr := refcose.ParseMsg(refcose.KSign1Tagged, wire); perr == nil {
			var a *refcbor.Item
			if pm.ProtMap != nil {
				a = refcose.Lookup(pm.ProtMap, refcose.LAlg)
			}
			if a != nil && a.IsInt() && mustInt(a) == k2.Alg {
				goto verify
			}
			r.Fail("rotated-signer-judged-by-its-earlier-algorithm", "a message that leaves alg to the library, signed by an object that now answers Algorithm() = %d (earlier %d), carries alg %s", k2.Alg, k1.Alg, diagOrAbsent(a))
			return
		}
	}
verify:
	// verification: the old message under the rotated verifier object is a
	// mismatch, the verifier's key is not consulted
	var e4 error
	r.Lib(func() { e4 = m1.Verify(nil, spyV) })
	r.Check()
	if e4 == nil || len(spyV.Calls) != vcalls {
		r.Fail("rotated-verifier-judged-by-its-earlier-algorithm", "a verifier object that now answers Algorithm() = %d was used before with %d; Verify of a message with alg %d returned %v and consulted the verifier %d time(s)", k2.Alg, k1.Alg, k1.Alg, e4, len(spyV.Calls)-vcalls)
		return
	}
	r.Probe("rotated-objects-judged-by-current-algorithm")
}

// c04Recycled: an application object built in memory (COSE_Sign1 message,
// COSE_Signature, countersignature) that is signed, then used again for the
// next job: the application writes another algorithm into its protected
// header, empties the signature and signs with a signer of that algorithm; or
// it only edits the header and asks a verifier of the new algorithm.  The
// bytes a key is invoked on state the algorithm of that key.
func c04Recycled(r *Run) {
	t := r.T
	k1 := pickCheapKey(t)
	k2 := otherKey(t, k1, false)
	if k2 == nil || k2.Alg == k1.Alg {
		k2 = poolEd[0]
		if k1.Alg == k2.Alg {
			k2 = poolEC[0]
		}
	}
	if _, isRSA := k2.Priv.Public().(interface{ Size() int }); isRSA {
		k2 = poolEC[3]
		if k2.Alg == k1.Alg {
			k2 = poolEC[0]
		}
	}
	ent := NewEntropy(uint64(t.U32("entropy.seed")))
	external := genExternal(t)
	hdr := func(alg int64) cose.Headers {
		h := libHeaders(genLayer(t, LayerOpts{MaxExtra: 2, Alg: &alg}), Spelling{T: t}, t.Bool(1, 2, "c04.rc.typed"))
		if h.Unprotected == nil {
			h.Unprotected = cose.UnprotectedHeader{}
		}
		return h
	}
	target := []string{"Sign1Message", "Signature", "Countersignature"}[t.Choose(3, "c04.rc.target")]
	var m1 *cose.Sign1Message
	var sg *cose.Signature
	var cs *cose.Countersignature
	var parent *cose.Sign1Message
	var body *cose.SignMessage
	var headers *cose.Headers
	var sigSlot *[]byte
	tbsIdx := 1
	switch target {
	case "Sign1Message":
		m1 = &cose.Sign1Message{Headers: hdr(k1.Alg), Payload: genPayload(t, false)}
		headers, sigSlot = &m1.Headers, &m1.Signature
	case "Signature":
		sg = &cose.Signature{Headers: hdr(k1.Alg)}
		body = &cose.SignMessage{Headers: cose.Headers{Protected: cose.ProtectedHeader{}, Unprotected: cose.UnprotectedHeader{}}, Payload: genPayload(t, false), Signatures: []*cose.Signature{sg}}
		headers, sigSlot, tbsIdx = &sg.Headers, &sg.Signature, 2
	default:
		parent = c04Parent(r, ent)
		cs = &cose.Countersignature{Headers: hdr(k1.Alg)}
		headers, sigSlot, tbsIdx = &cs.Headers, &cs.Signature, 2
	}
	sign := func(s cose.Signer) error {
		var err error
		r.Lib(func() {
			switch target {
			case "Sign1Message":
				err = m1.Sign(ent, external, s)
			case "Signature":
				err = sg.Sign(ent, s, []byte{0x40}, body.Payload, external)
			default:
				err = cs.Sign(ent, s, parent, external)
			}
		})
		return err
	}
	verify := func(v cose.Verifier) error {
		var err error
		r.Lib(func() {
			switch target {
			case "Sign1Message":
				err = m1.Verify(external, v)
			case "Signature":
				err = sg.Verify(v, []byte{0x40}, body.Payload, external)
			default:
				err = cs.Verify(v, parent, external)
			}
		})
		return err
	}
	first := &SpySigner{Inner: r.signerFor(k1, false), Alg: cose.Algorithm(k1.Alg)}
	if err := sign(first); err != nil {
		r.Outcome("recycled/first-use-refused")
		return
	}
	if t.Bool(1, 2, "c04.rc.encoded") {
		// the first job's result was sent
		r.Lib(func() {
			switch target {
			case "Sign1Message":
				m1.MarshalCBOR()
			case "Signature":
				sg.MarshalCBOR()
			default:
				cs.MarshalCBOR()
			}
		})
	}
	// the next job: another algorithm in the protected header of the same object
	if t.Bool(1, 2, "c04.rc.newmap") {
		nh := hdr(k2.Alg)
		headers.Protected = nh.Protected
	} else {
		for l := range headers.Protected {
			if v, ok := asInt64(l); ok && v == refcose.LAlg {
				delete(headers.Protected, l)
			}
		}
		headers.Protected[cose.HeaderLabelAlgorithm] = cose.Algorithm(k2.Alg)
	}
	r.Fired("app.recycles-signed-object-under-another-alg")
	stated := func(content []byte) (int64, bool) {
		f, ok := tbsField(content, tbsIdx)
		if !ok {
			return 0, false
		}
		a, _, err := protAlgOnWire(refcbor.Encode(refcbor.Bstr(f)))
		if err != nil || a == nil || !a.IsInt() {
			return 0, false
		}
		return mustInt(a), true
	}
	resign := t.Bool(2, 3, "c04.rc.resign")
	r.Op("RECYCLE", "%s signed under alg %d, protected header rewritten to alg %d, then %s", target, k1.Alg, k2.Alg, map[bool]string{true: "signed again", false: "verified"}[resign])
	r.Outcome(fmt.Sprintf("recycled/%s/resign=%v/%s", target, resign, extClass(external)))
	r.Check()
	if resign {
		*sigSlot = nil
		second := &SpySigner{Inner: r.signerFor(k2, false), Alg: cose.Algorithm(k2.Alg)}
		err := sign(second)
		if len(second.Calls) == 0 {
			if err == nil {
				r.Fail("recycled-object-signed-without-its-signer/"+target, "Sign returned nil and the signer was not called")
			}
			return
		}
		if a, ok := stated(second.Calls[0].Content); !ok || a != k2.Alg {
			r.Fail("ledger-signed-under-other-alg/recycled-object/"+target, "a %s signed under alg %d was given alg %d in its protected header, its signature emptied, and signed again: the signer of algorithm %d was invoked on a structure whose protected bytes state alg %d (found=%v)\ncontent: %s", target, k1.Alg, k2.Alg, k2.Alg, a, ok, hexShort(second.Calls[0].Content))
			return
		}
		// what is emitted states what was signed
		var out []byte
		var merr error
		r.Lib(func() {
			switch target {
			case "Sign1Message":
				out, merr = m1.MarshalCBOR()
			case "Signature":
				out, merr = sg.MarshalCBOR()
			default:
				out, merr = cs.MarshalCBOR()
			}
		})
		if merr == nil && err == nil {
			it, perr := refcbor.ParseOne(out)
			if perr == nil && it.Major == refcbor.MTag && len(it.Elems) == 1 {
				it = it.Elems[0]
			}
			if perr == nil && it.Major == refcbor.MArray && len(it.Elems) >= 3 && it.Elems[0].Major == refcbor.MBstr {
				a, _, e := protAlgOnWire(refcbor.Encode(refcbor.Bstr(it.Elems[0].Data)))
				if e != nil || a == nil || !a.IsInt() || mustInt(a) != k2.Alg {
					r.Fail("ledger-emitted-alg-differs-from-signed-alg/recycled-object/"+target, "signed again under alg %d, the %s is emitted with protected bytes stating %s\n%s", k2.Alg, target, diagOrAbsent(a), hexShort(out))
				}
			}
		}
		return
	}
	spyV := &SpyVerifier{Inner: r.verifierFor(k2, false), Alg: cose.Algorithm(k2.Alg)}
	verify(spyV)
	if len(spyV.Calls) > 0 {
		if a, ok := stated(spyV.Calls[0].Content); !ok || a != k2.Alg {
			r.Fail("ledger-verified-under-other-alg/recycled-object/"+target, "a %s signed under alg %d was given alg %d in its protected header: the verifier of algorithm %d was consulted on a structure whose protected bytes state alg %d (found=%v)", target, k1.Alg, k2.Alg, k2.Alg, a, ok)
		}
	}
}

// c04Standalone: a stand-alone COSE_Signature / countersignature is decoded
// out of a receive buffer; the next datagram - an object of the same length
// made under another algorithm - is then read into the same buffer.  The
// decoded object is verified afterwards: the verifier that is consulted is the
// one its own protected bytes name, and those are the bytes it is handed.
func c04Standalone(r *Run) {
	t := r.T
	ent := NewEntropy(uint64(t.U32("entropy.seed")))
	// ES256 and EdDSA: one-byte alg values, 64-byte signatures - equal lengths
	ka, kb := poolEC[0], poolEd[0]
	for _, k := range poolEC {
		if k.Alg == -7 {
			ka = k
		}
	}
	if ka.Alg != -7 || kb.Alg != -8 {
		r.Skip("no ES256/EdDSA pair in the pool")
	}
	if t.Bool(1, 2, "c04.sa.swap") {
		ka, kb = kb, ka
	}
	kid := t.Bytes(1+t.Choose(8, "c04.sa.kid.n"), "c04.sa.kid")
	asCsig := t.Bool(1, 2, "c04.sa.countersignature")
	parent := c04Parent(r, ent)
	bodyProt, payload := []byte{0x40}, []byte("stand-alone")
	external := genExternal(t)
	mk := func(k *KeyPair) []byte {
		h := cose.Headers{Protected: cose.ProtectedHeader{cose.HeaderLabelAlgorithm: cose.Algorithm(k.Alg)}, Unprotected: cose.UnprotectedHeader{cose.HeaderLabelKeyID: kid}}
		var out []byte
		var err error
		r.Lib(func() {
			if asCsig {
				c := &cose.Countersignature{Headers: h}
				if err = c.Sign(ent, r.signerFor(k, false), parent, external); err == nil {
					out, err = c.MarshalCBOR()
				}
			} else {
				g := &cose.Signature{Headers: h}
				if err = g.Sign(ent, r.signerFor(k, false), bodyProt, payload, external); err == nil {
					out, err = g.MarshalCBOR()
				}
			}
		})
		if err != nil {
			r.Skip("stand-alone object could not be made: " + err.Error())
		}
		return out
	}
	a, b := mk(ka), mk(kb)
	if len(a) != len(b) {
		r.Skip("objects differ in length")
	}
	buf := append([]byte{}, a...)
	var sg cose.Signature
	var cs cose.Countersignature
	var derr error
	r.Lib(func() {
		if asCsig {
			derr = cs.UnmarshalCBOR(buf)
		} else {
			derr = sg.UnmarshalCBOR(buf)
		}
	})
	if derr != nil {
		r.Outcome("standalone/decode-refused")
		return
	}
	copy(buf, b) // the next datagram arrives
	r.Fired("buf.next-datagram-same-length-other-alg")
	r.Op("STANDALONE", "countersignature=%v decoded from a buffer (alg %d), buffer then holds an object of the same length under alg %d", asCsig, ka.Alg, kb.Alg)
	r.Outcome(fmt.Sprintf("standalone/csig=%v/%s", asCsig, extClass(external)))
	for _, k := range []*KeyPair{ka, kb} {
		spy := &SpyVerifier{Inner: r.verifierFor(k, false), Alg: cose.Algorithm(k.Alg)}
		var verr error
		r.Lib(func() {
			if asCsig {
				verr = cs.Verify(spy, parent, external)
			} else {
				verr = sg.Verify(spy, bodyProt, payload, external)
			}
		})
		r.Check()
		if k == kb {
			if len(spy.Calls) > 0 || verr == nil {
				r.Fail("verify-reaches-verifier-of-other-alg/standalone-object", "the object's protected bytes say alg %d; a verifier of algorithm %d was consulted %d time(s), Verify returned %v", ka.Alg, kb.Alg, len(spy.Calls), verr)
			}
			continue
		}
		if len(spy.Calls) == 0 {
			r.Fail("verify-does-not-reach-verifier/standalone-object", "the object's protected bytes say alg %d; the verifier of that algorithm was not consulted (%v)", ka.Alg, verr)
			continue
		}
		f, ok := tbsField(spy.Calls[0].Content, 2)
		want := []byte{0xa1, 0x01, byte(0x20 | (-1 - ka.Alg))}
		if !ok || !bytes.Equal(f, want) {
			r.Fail("ledger-verified-under-other-alg/standalone-object", "the verifier of algorithm %d was handed a structure whose signer-protected field is %x (want %x): the object was decoded from a buffer that has since received another object", ka.Alg, f, want)
		} else if verr != nil {
			r.Fail("standalone-object-does-not-verify-after-buffer-reuse", "a stand-alone object decoded from a buffer no longer verifies once the buffer holds the next datagram: %v", verr)
		}
	}
}
