package sim

import (
	"fmt"
	"runtime"
	"strings"
)

// describePanic classifies a recovered panic value and finds the innermost
// go-cose function on the stack (the function, not the line, so that the
// signature survives unrelated edits).
func describePanic(x any) *LibPanic {
	lp := &LibPanic{Value: x, Frame: "?", Class: "panic"}
	msg := fmt.Sprint(x)
	switch {
	case strings.Contains(msg, "interface conversion"):
		lp.Class = "interface-conversion"
	case strings.Contains(msg, "nil pointer"):
		lp.Class = "nil-dereference"
	case strings.Contains(msg, "index out of range"), strings.Contains(msg, "slice bounds"):
		lp.Class = "out-of-range"
	case strings.Contains(msg, "nil map"):
		lp.Class = "nil-map-write"
	case strings.Contains(msg, "reflect"):
		lp.Class = "reflect"
	}
	pcs := make([]uintptr, 64)
	n := runtime.Callers(3, pcs)
	frames := runtime.CallersFrames(pcs[:n])
	for {
		fr, more := frames.Next()
		if strings.HasPrefix(fr.Function, "github.com/veraison/go-cose.") {
			fn := strings.TrimPrefix(fr.Function, "github.com/veraison/go-cose.")
			// strip closure suffixes
			if i := strings.Index(fn, ".func"); i >= 0 {
				fn = fn[:i]
			}
			lp.Frame = fn
			break
		}
		if !more {
			break
		}
	}
	return lp
}
