package sim

import (
	"bytes"
	"crypto"
	"encoding/asn1"
	"errors"
	"fmt"
	"io"
	"math/big"

	cose "github.com/veraison/go-cose"

	"verif/tape"
)

// ---------------------------------------------------------------------------
// Entropy seam

// Entropy is the io.Reader handed to every Sign call.  Its output is a pure
// function of its seed.  One-byte reads are answered with a constant without
// advancing the stream: crypto/ecdsa and crypto/rsa call
// randutil.MaybeReadByte, which reads one byte or none on an unseedable coin
// flip, and this makes the flip irrelevant so that signatures replay exactly.
type Entropy struct {
	state  uint64
	n      int
	FailAt int // error once this many bytes were delivered; -1 = never
	Short  int // deliver at most this many bytes per Read (legal short reads); 0 = off
	Fired  bool
	// Partial: the failing Read hands out the bytes it still has TOGETHER with
	// the error (io.Reader allows n > 0 with err != nil); Once: the source is
	// healthy again after that one failing Read (a transient device glitch).
	Partial bool
	Once    bool
}

// InjectedAs, when non-nil, is the error VALUE every failing seam of the current
// run reports instead of its own sentinel: real signers, devices and readers
// fail with io.EOF, io.ErrUnexpectedEOF, context errors, ... and a library
// must not read a meaning of its own into any of them.  Set and cleared by
// the scenario (one run at a time per worker process).
var InjectedAs error

func injected(sentinel error) error {
	if InjectedAs != nil {
		return InjectedAs
	}
	return sentinel
}

// ErrEntropy is the injected entropy failure.
var ErrEntropy = errors.New("verif: injected entropy source failure")

// NewEntropy returns a fault-free stream.
func NewEntropy(seed uint64) *Entropy { return &Entropy{state: seed | 1, FailAt: -1} }

func (e *Entropy) Read(p []byte) (int, error) {
	// (a source that fails once and recovers must not spend its one failure on
	// that probe read: randutil.MaybeReadByte discards the outcome of its Read,
	// on a coin flip, so the failure would be lost inside the standard library)
	if len(p) == 1 && (e.FailAt != 0 || e.Once) {
		p[0] = 0x5a
		return 1, nil
	}
	if len(p) == 0 {
		return 0, nil
	}
	n := len(p)
	if e.Short > 0 && n > e.Short {
		n = e.Short
		e.Fired = true
	}
	if e.FailAt >= 0 {
		if e.n >= e.FailAt {
			e.Fired = true
			if e.Once {
				e.FailAt = -1
			}
			return 0, injected(ErrEntropy)
		}
		if e.n+n > e.FailAt {
			n = e.FailAt - e.n
			if e.Partial {
				e.fill(p[:n])
				e.Fired = true
				if e.Once {
					e.FailAt = -1
				}
				return n, injected(ErrEntropy)
			}
		}
	}
	e.fill(p[:n])
	return n, nil
}

func (e *Entropy) fill(p []byte) {
	n := len(p)
	for i := 0; i < n; i++ {
		if (e.n+i)%8 == 0 {
			e.state = tape.SplitMix64(e.state)
		}
		p[i] = byte(e.state >> (8 * uint((e.n+i)%8)))
	}
	e.n += n
}

// ---------------------------------------------------------------------------
// cose.Signer / cose.Verifier seam

// SpyCall is one call seen at the Signer or Verifier seam.
type SpyCall struct {
	Content   []byte
	Signature []byte // verifier only
}

// ErrSigner and ErrVerifier are the injected seam failures.
var (
	ErrSigner   = errors.New("verif: injected signer failure")
	ErrVerifier = errors.New("verif: injected verifier failure")
	// ErrSeamPanic is what a world sees when a panic raised by a seam
	// (application-supplied signer or verifier) propagated out of go-cose.
	ErrSeamPanic = errors.New("verif: seam panicked and the panic propagated")
)

// SeamPanic is the value a misbehaving seam panics with (a device driver
// that crashes, a key object that was torn down).
type SeamPanic struct{ Who string }

// SpySigner wraps a signer, records what it is asked to sign, and can be told
// to misbehave.
type SpySigner struct {
	Inner cose.Signer
	Alg   cose.Algorithm
	// Fault: "" (delegate), "err", "empty" ([]byte{}, nil), "nil" (nil, nil),
	// "bytes+err" (a real signature together with an error).
	Fault string
	Calls []SpyCall
	// DigestCalls: digests handed to SignDigest (DigestSpySigner only)
	DigestCalls [][]byte
	// Log, when set, receives every call in order (shared across signers
	// to observe global call order).
	Log *[]string
	Tag string
	// OwnRand, when set, replaces the entropy source handed in by the caller
	// (per-signer entropy faults inside a multi-signer call).
	OwnRand io.Reader
}

func (s *SpySigner) Algorithm() cose.Algorithm { return s.Alg }

func (s *SpySigner) Sign(rand io.Reader, content []byte) ([]byte, error) {
	s.Calls = append(s.Calls, SpyCall{Content: append([]byte{}, content...)})
	seamInterlude("signer "+s.Tag, content, s.Calls[len(s.Calls)-1].Content)
	if s.Log != nil {
		*s.Log = append(*s.Log, "sign:"+s.Tag)
	}
	if s.OwnRand != nil {
		rand = s.OwnRand
	}
	switch s.Fault {
	case "panic":
		panic(SeamPanic{"signer " + s.Tag})
	case "err":
		return nil, injected(ErrSigner)
	case "empty":
		return []byte{}, nil
	case "nil":
		return nil, nil
	case "bytes+err":
		sig, _ := s.Inner.Sign(rand, content)
		if len(sig) == 0 {
			sig = []byte{1, 2, 3}
		}
		return sig, injected(ErrSigner)
	}
	return s.Inner.Sign(rand, content)
}

// DigestSpySigner is a SpySigner that also offers cose.DigestSigner, as the
// built-in ECDSA and RSA signers do.  go-cose hands every signer the complete
// structure to be signed; should it ever hand over a digest instead, that
// digest must be the hash of the very same structure.
type DigestSpySigner struct{ *SpySigner }

func (s DigestSpySigner) SignDigest(rand io.Reader, digest []byte) ([]byte, error) {
	s.SpySigner.DigestCalls = append(s.SpySigner.DigestCalls, append([]byte{}, digest...))
	if s.Log != nil {
		*s.Log = append(*s.Log, "signdigest:"+s.Tag)
	}
	if ds, ok := s.Inner.(cose.DigestSigner); ok && s.Fault == "" {
		return ds.SignDigest(rand, digest)
	}
	return nil, injected(ErrSigner)
}

// DigestSpyVerifier is the verifier-side counterpart.
type DigestSpyVerifier struct{ *SpyVerifier }

func (v DigestSpyVerifier) VerifyDigest(digest, signature []byte) error {
	v.SpyVerifier.DigestCalls = append(v.SpyVerifier.DigestCalls, SpyCall{Content: append([]byte{}, digest...), Signature: append([]byte{}, signature...)})
	if v.Log != nil {
		*v.Log = append(*v.Log, "verify:"+v.Tag)
	}
	switch v.Fault {
	case "accept":
		return nil
	case "err":
		return injected(ErrVerifier)
	case "reject":
		return cose.ErrVerification
	}
	if dv, ok := v.Inner.(cose.DigestVerifier); ok {
		return dv.VerifyDigest(digest, signature)
	}
	return cose.ErrVerification
}

// SpyVerifier wraps a verifier and records what it is offered.
type SpyVerifier struct {
	Inner cose.Verifier
	Alg   cose.Algorithm
	Fault string // "" (delegate), "err" (injected failure), "accept" (return nil without looking: lets a spy see every call)
	Calls []SpyCall
	// DigestCalls: what VerifyDigest was offered (DigestSpyVerifier only)
	DigestCalls []SpyCall
	Log         *[]string
	Tag         string
}

func (v *SpyVerifier) Algorithm() cose.Algorithm { return v.Alg }

func (v *SpyVerifier) Verify(content, signature []byte) error {
	v.Calls = append(v.Calls, SpyCall{Content: append([]byte{}, content...), Signature: append([]byte{}, signature...)})
	seamInterlude("verifier "+v.Tag, content, v.Calls[len(v.Calls)-1].Content)
	if v.Log != nil {
		*v.Log = append(*v.Log, "verify:"+v.Tag)
	}
	switch v.Fault {
	case "panic":
		panic(SeamPanic{"verifier " + v.Tag})
	case "err":
		return injected(ErrVerifier)
	case "accept":
		return nil
	case "reject":
		return cose.ErrVerification
	}
	return v.Inner.Verify(content, signature)
}

// ---------------------------------------------------------------------------
// re-entrant seams: an application's Signer or Verifier may do COSE work of
// its own before it looks at the bytes it was handed (check an endorsement of
// the key, log a signed audit record).  Whatever go-cose handed it must still
// be the same bytes afterwards.

// SeamInterludes switches the interlude on (set per run by the worker for the
// properties whose worlds are single-task; never inside C18's concurrent
// blocks, where package-level state of the harness would race).
var SeamInterludes bool

var (
	seamDepth   int
	seamChanged string
	interludeM1 *cose.Sign1Message
	interludeMS *cose.SignMessage
	interludeCS *cose.Countersignature
)

type acceptAll struct{ alg cose.Algorithm }

func (a acceptAll) Algorithm() cose.Algorithm        { return a.alg }
func (a acceptAll) Verify(content, sig []byte) error { return nil }

func seamInterlude(who string, content, snapshot []byte) {
	if !SeamInterludes || seamDepth > 0 {
		return
	}
	seamDepth++
	defer func() { seamDepth--; recover() }()
	if interludeM1 == nil {
		big := bytes.Repeat([]byte{0xee}, 700)
		hdr := func() cose.Headers {
			return cose.Headers{Protected: cose.ProtectedHeader{cose.HeaderLabelAlgorithm: cose.AlgorithmES256}, Unprotected: cose.UnprotectedHeader{}}
		}
		interludeM1 = &cose.Sign1Message{Headers: hdr(), Payload: big, Signature: []byte{0xee}}
		interludeMS = &cose.SignMessage{Headers: cose.Headers{Protected: cose.ProtectedHeader{}, Unprotected: cose.UnprotectedHeader{}}, Payload: big,
			Signatures: []*cose.Signature{{Headers: hdr(), Signature: []byte{0xee}}}}
		interludeCS = &cose.Countersignature{Headers: hdr(), Signature: []byte{0xee}}
	}
	v := acceptAll{cose.AlgorithmES256}
	// one structure of each kind is built: Sig_structure of a COSE_Sign1, of a
	// COSE_Signature, and a Countersign_structure; plus one encoding
	interludeM1.Verify(nil, v)
	interludeMS.Verify(nil, v)
	interludeCS.Verify(v, interludeM1, nil)
	interludeM1.MarshalCBOR()
	if !bytes.Equal(content, snapshot) && seamChanged == "" {
		seamChanged = fmt.Sprintf("%s: handed %x..., which read %x... after the seam had verified another message of its own before looking at it", who, head(snapshot, 48), head(content, 48))
	}
}

func head(b []byte, n int) []byte {
	if len(b) > n {
		return b[:n]
	}
	return b
}

// ---------------------------------------------------------------------------
// crypto.Signer seam (HSM / KMS stub)

// ErrHSM is the injected HSM failure.
var ErrHSM = errors.New("verif: injected HSM failure")

// HSM stands for a remote key: a real key behind a crypto.Signer whose
// return value can be failed, mangled, or chosen.
type HSM struct {
	Key crypto.Signer
	// Calls, when non-nil, counts Sign calls (only set where the stub is not
	// shared between tasks).
	Calls *int
	Mode  string // "", "err", "empty", "bytes+err", "badDER", "trailing", "negative", "oversize", "chosen"
	R, S  *big.Int
}

func (h *HSM) Public() crypto.PublicKey { return h.Key.Public() }

type rs struct{ R, S *big.Int }

func (h *HSM) Sign(rand io.Reader, digest []byte, opts crypto.SignerOpts) ([]byte, error) {
	if h.Calls != nil {
		*h.Calls++
	}
	switch h.Mode {
	case "err":
		return nil, injected(ErrHSM)
	case "chosen":
		return asn1.Marshal(rs{h.R, h.S})
	case "empty":
		// a device that reports success and hands back nothing
		return []byte{}, nil
	}
	sig, err := h.Key.Sign(rand, digest, opts)
	if err != nil {
		return nil, err
	}
	switch h.Mode {
	case "bytes+err":
		// a device client that fills the caller's buffer (here even with a
		// genuine signature) and reports a failure all the same
		return sig, injected(ErrHSM)
	case "badDER":
		out := append([]byte{}, sig...)
		out[0] ^= 0x21
		return out, nil
	case "trailing":
		return append(append([]byte{}, sig...), 0x00), nil
	case "negative":
		var v rs
		if _, err := asn1.Unmarshal(sig, &v); err == nil {
			v.R.Neg(v.R)
			return asn1.Marshal(v)
		}
	case "oversize":
		var v rs
		if _, err := asn1.Unmarshal(sig, &v); err == nil {
			v.S.Lsh(v.S, 600)
			return asn1.Marshal(v)
		}
	}
	return sig, nil
}

// libSigner builds the library's built-in signer for a key pair.
func libSigner(k *KeyPair) (cose.Signer, error) {
	return cose.NewSigner(cose.Algorithm(k.Alg), k.Priv)
}

// libVerifier builds the library's built-in verifier for a key pair.
func libVerifier(k *KeyPair) (cose.Verifier, error) {
	return cose.NewVerifier(cose.Algorithm(k.Alg), k.Pub)
}
