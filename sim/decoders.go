package sim

import (
	cose "github.com/veraison/go-cose"

	"verif/refcose"
)

// Decoder is one decoding entry point of go-cose.
type Decoder struct {
	Name string
	// Kind is the wire shape for the five message/signature decoders, -1
	// otherwise.
	Kind refcose.Kind
	// New returns a fresh destination; Into decodes into a destination.
	New  func() any
	Into func(dst any, b []byte) error
	// Encode marshals a destination again.
	Encode func(dst any) ([]byte, error)
	// WellFormed is the reference acceptance predicate (nil: none, e.g. keys
	// have their own in C15).
	WellFormed func(b []byte) error
}

const noKind = refcose.Kind(-1)

// Decoders lists the message, signature, countersignature, header-bucket and
// key decoders (hash-envelope verification is driven separately because it
// needs a verifier).
var Decoders = []Decoder{
	{Name: "Sign1Message", Kind: refcose.KSign1Tagged,
		New:        func() any { return new(cose.Sign1Message) },
		Into:       func(d any, b []byte) error { return d.(*cose.Sign1Message).UnmarshalCBOR(b) },
		Encode:     func(d any) ([]byte, error) { return d.(*cose.Sign1Message).MarshalCBOR() },
		WellFormed: func(b []byte) error { return refcose.WellFormed(refcose.KSign1Tagged, b) }},
	{Name: "UntaggedSign1Message", Kind: refcose.KSign1Untagged,
		New:        func() any { return new(cose.UntaggedSign1Message) },
		Into:       func(d any, b []byte) error { return d.(*cose.UntaggedSign1Message).UnmarshalCBOR(b) },
		Encode:     func(d any) ([]byte, error) { return d.(*cose.UntaggedSign1Message).MarshalCBOR() },
		WellFormed: func(b []byte) error { return refcose.WellFormed(refcose.KSign1Untagged, b) }},
	{Name: "SignMessage", Kind: refcose.KSignTagged,
		New:        func() any { return new(cose.SignMessage) },
		Into:       func(d any, b []byte) error { return d.(*cose.SignMessage).UnmarshalCBOR(b) },
		Encode:     func(d any) ([]byte, error) { return d.(*cose.SignMessage).MarshalCBOR() },
		WellFormed: func(b []byte) error { return refcose.WellFormed(refcose.KSignTagged, b) }},
	{Name: "Signature", Kind: refcose.KSignature,
		New:        func() any { return new(cose.Signature) },
		Into:       func(d any, b []byte) error { return d.(*cose.Signature).UnmarshalCBOR(b) },
		Encode:     func(d any) ([]byte, error) { return d.(*cose.Signature).MarshalCBOR() },
		WellFormed: func(b []byte) error { return refcose.WellFormed(refcose.KSignature, b) }},
	{Name: "Countersignature", Kind: refcose.KSignature,
		New:        func() any { return new(cose.Countersignature) },
		Into:       func(d any, b []byte) error { return d.(*cose.Countersignature).UnmarshalCBOR(b) },
		Encode:     func(d any) ([]byte, error) { return d.(*cose.Countersignature).MarshalCBOR() },
		WellFormed: func(b []byte) error { return refcose.WellFormed(refcose.KSignature, b) }},
	{Name: "ProtectedHeader", Kind: noKind,
		New:        func() any { return new(cose.ProtectedHeader) },
		Into:       func(d any, b []byte) error { return d.(*cose.ProtectedHeader).UnmarshalCBOR(b) },
		Encode:     func(d any) ([]byte, error) { return d.(*cose.ProtectedHeader).MarshalCBOR() },
		WellFormed: refcose.WellFormedProtected},
	{Name: "UnprotectedHeader", Kind: noKind,
		New:        func() any { return new(cose.UnprotectedHeader) },
		Into:       func(d any, b []byte) error { return d.(*cose.UnprotectedHeader).UnmarshalCBOR(b) },
		Encode:     func(d any) ([]byte, error) { return d.(*cose.UnprotectedHeader).MarshalCBOR() },
		WellFormed: refcose.WellFormedUnprotected},
	{Name: "Key", Kind: noKind,
		New:    func() any { return new(cose.Key) },
		Into:   func(d any, b []byte) error { return d.(*cose.Key).UnmarshalCBOR(b) },
		Encode: func(d any) ([]byte, error) { return d.(*cose.Key).MarshalCBOR() }},
}

// MessageDecoders are the first five entries (message, signature and
// countersignature decoders); HeaderDecoders the two bucket decoders.
var (
	MessageDecoders = Decoders[:5]
	WireDecoders    = Decoders[:7]
)

// decoderForKind returns the decoder responsible for a message kind.
func decoderForKind(k refcose.Kind) *Decoder {
	for i := range Decoders {
		if Decoders[i].Kind == k {
			return &Decoders[i]
		}
	}
	panic("no decoder for kind")
}
