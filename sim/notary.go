package sim

import (
	"fmt"

	cose "github.com/veraison/go-cose"

	"verif/refcose"
	"verif/tape"
)

// Parent is something a countersignature can be made over, together with the
// headers it will be attached to.
type Parent struct {
	Kind    refcose.ParentKind
	Arg     any           // what is handed to go-cose (pointer or value form)
	Headers *cose.Headers // where the countersignature is attached
	Desc    string
}

func parentOfSign1(t *tape.Tape, m *cose.Sign1Message) Parent {
	p := Parent{Kind: refcose.PSign1, Headers: &m.Headers, Desc: "Sign1"}
	if t.Bool(1, 2, "parent.byvalue") {
		p.Arg = *m
		p.Desc += "(value)"
	} else {
		p.Arg = m
	}
	return p
}

func parentOfSign(t *tape.Tape, m *cose.SignMessage) Parent {
	p := Parent{Kind: refcose.PSign, Headers: &m.Headers, Desc: "Sign"}
	if t.Bool(1, 2, "parent.byvalue") {
		p.Arg = *m
		p.Desc += "(value)"
	} else {
		p.Arg = m
	}
	return p
}

func parentOfSignature(t *tape.Tape, s *cose.Signature) Parent {
	p := Parent{Kind: refcose.PSignature, Headers: &s.Headers, Desc: "Signature"}
	if t.Bool(1, 2, "parent.byvalue") {
		p.Arg = *s
		p.Desc += "(value)"
	} else {
		p.Arg = s
	}
	return p
}

func parentOfCountersignature(t *tape.Tape, s *cose.Countersignature) Parent {
	p := Parent{Kind: refcose.PCountersignature, Headers: &s.Headers, Desc: "Countersignature"}
	if t.Bool(1, 2, "parent.byvalue") {
		p.Arg = *s
		p.Desc += "(value)"
	} else {
		p.Arg = s
	}
	return p
}

// pickParent chooses what to countersign in a message.
func pickParent(t *tape.Tape, m1 *cose.Sign1Message, ms *cose.SignMessage) Parent {
	if m1 != nil {
		return parentOfSign1(t, m1)
	}
	if len(ms.Signatures) > 0 && t.Bool(1, 2, "parent.signature") {
		i := t.Choose(len(ms.Signatures), "parent.sigidx")
		p := parentOfSignature(t, ms.Signatures[i])
		p.Desc = fmt.Sprintf("Signature[%d]%s", i, p.Desc[len("Signature"):])
		return p
	}
	return parentOfSign(t, ms)
}

// Countersigned is one countersignature made by the notary.
type Countersigned struct {
	Key      *KeyPair
	External []byte
	Full     *cose.Countersignature // full form
	Abbrev   []byte                 // abbreviated form
	Label    int64                  // label it is attached under
}

// attach places the countersignature into the parent's unprotected bucket
// (single value, or appended to a list when one is already there) and drops
// the parent's retained raw unprotected bytes so that it is emitted.
//
// fromDecoder: the parent came out of a decoder and therefore retains raw
// bytes the application has to clear; a parent built in memory has none, and
// an application has no reason to touch the field - whatever the library may
// have put there on an earlier MarshalCBOR stays.
func (c *Countersigned) attach(h *cose.Headers, asList, fromDecoder bool) {
	if h.Unprotected == nil {
		h.Unprotected = cose.UnprotectedHeader{}
	}
	if fromDecoder {
		h.RawUnprotected = nil
	}
	if c.Full == nil {
		h.Unprotected[c.Label] = c.Abbrev
		return
	}
	switch old := h.Unprotected[c.Label].(type) {
	case *cose.Countersignature:
		h.Unprotected[c.Label] = []*cose.Countersignature{old, c.Full}
	case []*cose.Countersignature:
		h.Unprotected[c.Label] = append(old, c.Full)
	default:
		if asList {
			h.Unprotected[c.Label] = []*cose.Countersignature{c.Full}
		} else {
			h.Unprotected[c.Label] = c.Full
		}
	}
}

// findCountersignature fetches a full countersignature back from decoded
// headers (position idx in a list).
func findCountersignature(h *cose.Headers, label int64, idx int) *cose.Countersignature {
	switch v := h.Unprotected[label].(type) {
	case *cose.Countersignature:
		if idx == 0 {
			return v
		}
	case []*cose.Countersignature:
		if idx < len(v) {
			return v[idx]
		}
	}
	return nil
}

func countOf(h *cose.Headers, label int64) int {
	switch v := h.Unprotected[label].(type) {
	case *cose.Countersignature:
		return 1
	case []*cose.Countersignature:
		return len(v)
	}
	return 0
}

func csigLabel(t *tape.Tape, pk refcose.ParentKind, abbreviated bool) int64 {
	v2 := pk == refcose.PSign1 || t.Bool(1, 2, "csig.v2label")
	switch {
	case abbreviated && v2:
		return cose.HeaderLabelCounterSignature0V2
	case abbreviated:
		return cose.HeaderLabelCounterSignature0
	case v2:
		return cose.HeaderLabelCounterSignatureV2
	}
	return cose.HeaderLabelCounterSignature
}
