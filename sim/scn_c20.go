package sim

import (
	"bytes"
	"context"
	"crypto/ecdsa"
	"crypto/ed25519"
	"errors"
	"fmt"
	"io"
	"runtime"

	cose "github.com/veraison/go-cose"

	"verif/refcbor"
	"verif/refcose"
	"verif/tape"
)

// Fault kinds assignable to one signer call / one verifier call.
var (
	c20SignKinds   = []string{"ok", "signer.err", "signer.empty", "signer.nil", "signer.bytes+err", "signer.panic", "hsm.err", "hsm.badDER", "hsm.empty", "hsm.bytes+err", "entropy.err@k", "entropy.short"}
	c20VerifyKinds = []string{"ok", "verifier.err", "verifier.panic"}
)

type c20Entry struct {
	name   string
	verify bool
	multi  bool
}

var c20Entries = []c20Entry{
	{name: "Sign1()"}, {name: "Sign1Untagged()"}, {name: "Sign1Message.Sign"}, {name: "Signature.Sign"},
	{name: "Countersignature.Sign"}, {name: "Countersign0()"}, {name: "SignHashEnvelope()"},
	{name: "SignMessage.Sign", multi: true},
	{name: "Sign1Message.Verify", verify: true}, {name: "Signature.Verify", verify: true}, {name: "Countersignature.Verify", verify: true},
	{name: "VerifyCountersign0()", verify: true}, {name: "VerifyHashEnvelope()", verify: true},
	{name: "SignMessage.Verify", verify: true, multi: true},
}

const c20MaxN = 4

// c20Vectors enumerates every (entry point, n, fault vector): the forced tape
// prefixes [entry, n-1, f0, f1, f2, f3].
func c20Vectors() [][]uint32 {
	var out [][]uint32
	for ei, e := range c20Entries {
		kinds := len(c20SignKinds)
		if e.verify {
			kinds = len(c20VerifyKinds)
		}
		maxN := 1
		if e.multi {
			maxN = c20MaxN
		}
		for n := 1; n <= maxN; n++ {
			total := 1
			for i := 0; i < n; i++ {
				total *= kinds
			}
			for v := 0; v < total; v++ {
				p := []uint32{uint32(ei), uint32(n - 1), 0, 0, 0, 0}
				x := v
				for i := 0; i < n; i++ {
					p[2+i] = uint32(x % kinds)
					x /= kinds
				}
				out = append(out, p)
			}
		}
	}
	return out
}

var c20AllVectors = c20Vectors()

// C20ContextsPerVector is how many tape-drawn contexts the thorough tier runs
// for each enumerated fault vector.
const C20ContextsPerVector = 300

func init() {
	Scenarios["C20"] = scenarioC20
	Prefixes["C20"] = func(tier string, run int) []uint32 {
		if tier != "thorough" {
			return nil
		}
		if run < len(c20AllVectors)*C20ContextsPerVector {
			return c20AllVectors[run%len(c20AllVectors)]
		}
		return nil
	}
	Infos["C20"] = ScenarioInfo{
		Level: "fault_enumeration",
		Rule: fmt.Sprintf("one run = one signing or verifying entry point (Sign1, Sign1Untagged, Sign1Message.Sign, Signature.Sign, Countersignature.Sign, Countersign0, SignHashEnvelope, SignMessage.Sign with n <= %d signers; Sign1Message.Verify, Signature.Verify, Countersignature.Verify, VerifyCountersign0, VerifyHashEnvelope, SignMessage.Verify with n <= %d verifiers) "+
			"driven under one fault vector: each signer call is assigned one of {ok, signer.err, signer.empty, signer.nil, signer.bytes+err, signer.panic (the seam panics; go-cose may pass the panic on, which counts as the error, but must not turn it into success), hsm.err, hsm.badDER, hsm.empty, hsm.bytes+err (the device returns signature bytes together with an error), entropy.err@k, entropy.short}, each verifier call one of {ok, verifier.err, verifier.panic}. "+
			"The thorough tier enumerates ALL %d (entry point, n, vector) combinations, each under %d tape-drawn contexts (headers, payload, keys/algorithms, external data, k); the quick tier samples vectors from the tape. "+
			"Oracle: any error kind => the call returns a non-nil error that wraps the injected one, returns no bytes, leaves the failing slot's signature empty, MarshalCBOR of the message errors, and no later signer/verifier was called; an empty-returning signer must surface as an error by MarshalCBOR at the latest and no helper returns bytes; entropy.short => success and the signature verifies; an ECDSA or PSS signature produced without the caller's entropy source having been read is reported (the injected failure could not surface); "+
			"verifier.err at any position is returned, never nil, and later verifiers are not consulted; the reference parser finds no zero-length signature in anything emitted. "+
			"A third of failing-verifier runs first let the same verifier objects accept the same message object. "+
			"Non-trivial = every run (a vector was executed and judged); distinct = distinct (entry point, n, fault vector as fired, outcome).", c20MaxN, c20MaxN, len(c20AllVectors), C20ContextsPerVector),
		Assumptions: []string{"exhaustive over the fault dimension (vectors), sampled over contexts", "an entropy fault that the algorithm never reads far enough to meet (Ed25519, k beyond what is read) counts as ok for that call"},
		Real:        []string{"github.com/veraison/go-cose (all Sign/Verify entry points, encoders)", "github.com/fxamacker/cbor/v2", "Go crypto"},
		Stubs:       []string{"cose.Signer / cose.Verifier with injected failures", "HSM behind crypto.Signer (error, bad DER)", "entropy source (error at byte k, short reads)"},
		QuickRuns:   300000, ThoroughRuns: len(c20AllVectors)*C20ContextsPerVector + 200000,
		EnumSpace: len(c20AllVectors), EnumRepeat: C20ContextsPerVector, EnumWhat: "fault vectors (entry point x n x per-call fault kind)",
	}
}

// c20Signer builds the signer for one call under one fault kind.
type c20Call struct {
	kind   string
	key    *KeyPair
	bare   cose.Signer // when set, the built-in signer is handed to go-cose unwrapped (it then also implements DigestSigner)
	hsmN   int         // calls seen by the HSM stub underneath
	hsm    *HSM        // the device stub, when the key sits behind one
	signed cose.Signer // the go-cose signer object built over it
	spy    *SpySigner
	ent    *Entropy
	isErr  func() bool // the call (if made) fails
	inject error       // the error identity expected (nil: none to check)
}

func (r *Run) c20Signer(t *tape.Tape, kind string, log *[]string, tag string) *c20Call {
	c := &c20Call{kind: kind}
	switch kind {
	case "hsm.err", "hsm.badDER", "hsm.empty", "hsm.bytes+err":
		c.key = poolEC[t.Choose(6, "c20.key.ec")] // P-256 / P-384
		if kind != "hsm.badDER" {
			// (a damaged RSA or Ed25519 signature is still "a signature" for the
			// library: only ECDSA output has a format to break)
			switch t.Pick([]int{2, 1, 1}, "c20.key.hsm.family") {
			case 1:
				c.key = poolRSA[t.Choose(2, "c20.key.rsa")]
			case 2:
				c.key = poolEd[t.Choose(3, "c20.key.ed")]
			}
		}
		_, isECKey := c.key.Pub.(*ecdsa.PublicKey)
		isRSAKey := !isECKey // "hands back whatever the device returned": RSA and Ed25519
		hsm := &HSM{Key: c.key.Priv, Mode: kind[4:], Calls: &c.hsmN}
		var inner cose.Signer
		var err error
		r.Lib(func() { inner, err = cose.NewSigner(cose.Algorithm(c.key.Alg), hsm) })
		if err != nil {
			r.Skip("NewSigner over the HSM stub failed: " + err.Error())
		}
		c.spy = &SpySigner{Inner: inner, Alg: inner.Algorithm(), Log: log, Tag: tag}
		c.hsm, c.signed = hsm, inner
		if t.Bool(1, 2, "c20.bare") {
			// no wrapper: go-cose sees its own signer type (the fault sits
			// underneath, in the crypto.Signer)
			c.bare = inner
		}
		// a device that returns nothing: an RSA one yields an empty signature,
		// an ECDSA one unparsable ASN.1, i.e. an error
		c.isErr = func() bool { return kind != "hsm.empty" || !isRSAKey }
		if kind == "hsm.err" || kind == "hsm.bytes+err" {
			c.inject = injected(ErrHSM)
		}
	case "entropy.err@k", "entropy.short":
		// an algorithm that reads entropy most of the time; Ed25519 sometimes
		// (where the fault cannot fire)
		switch t.Pick([]int{6, 1, 1}, "c20.key.entropy") {
		case 0:
			c.key = poolEC[t.Choose(6, "c20.key.ec")]
		case 1:
			c.key = poolRSA[t.Choose(2, "c20.key.rsa")]
		default:
			c.key = poolEd[t.Choose(3, "c20.key.ed")]
		}
		c.ent = NewEntropy(uint64(t.U32("c20.entropy.seed")))
		if kind == "entropy.short" {
			c.ent.Short = 1 + t.Choose(7, "c20.entropy.short")
		} else {
			c.ent.FailAt = []int{0, 1, 7, 8, 16, 31}[t.Choose(6, "c20.entropy.k")]
			// the failing Read may hand out its last bytes together with the
			// error, and the source may be healthy again afterwards: one error
			// from the entropy source is a failed signing call all the same
			switch t.Choose(4, "c20.entropy.shape") {
			case 1:
				c.ent.Partial = true
			case 2:
				c.ent.Partial, c.ent.Once = true, true
				r.Fired("entropy.partial+err-once")
			case 3:
				c.ent.Once = true
			}
		}
		inner := r.signerFor(c.key, false)
		c.spy = &SpySigner{Inner: inner, Alg: inner.Algorithm(), Log: log, Tag: tag, OwnRand: c.ent}
		ent := c.ent
		c.isErr = func() bool { return kind == "entropy.err@k" && ent.Fired }
		if kind == "entropy.err@k" {
			c.inject = injected(ErrEntropy)
		}
	default:
		c.key = pickCheapKey(t)
		inner := r.signerFor(c.key, false)
		c.spy = &SpySigner{Inner: inner, Alg: inner.Algorithm(), Log: log, Tag: tag}
		switch kind {
		case "signer.err":
			c.spy.Fault, c.inject = "err", injected(ErrSigner)
		case "signer.bytes+err":
			c.spy.Fault, c.inject = "bytes+err", injected(ErrSigner)
		case "signer.panic":
			c.spy.Fault, c.inject = "panic", ErrSeamPanic
		case "signer.empty":
			c.spy.Fault = "empty"
		case "signer.nil":
			c.spy.Fault = "nil"
		}
		c.isErr = func() bool { return kind == "signer.err" || kind == "signer.bytes+err" || kind == "signer.panic" }
	}
	return c
}

func (c *c20Call) isEmptyKind() bool {
	if c.kind == "hsm.empty" {
		_, isEC := c.key.Pub.(*ecdsa.PublicKey)
		return !isEC
	}
	return c.kind == "signer.empty" || c.kind == "signer.nil"
}

// signer is what is handed to go-cose.
func (c *c20Call) signer() cose.Signer {
	if c.bare != nil {
		return c.bare
	}
	return c.spy
}

// made reports whether the call reached the seam.
func (c *c20Call) made() bool {
	if c.bare != nil {
		return c.hsmN > 0
	}
	return len(c.spy.Calls) > 0
}

// noEmptySignature checks emitted bytes with the reference parser: no
// signature field of any layer (message, COSE_Signature entries,
// countersignatures under labels 7/11 at any depth) is zero-length and a
// COSE_Sign carries at least one signature.  Only structural positions are
// looked at: a header VALUE that happens to look like [h”, {}, h”] is
// application data.
func (r *Run) noEmptySignature(what string, b []byte) {
	it, err := refcbor.ParseOne(b)
	if err != nil {
		return
	}
	for it.Major == refcbor.MTag {
		it = it.Elems[0]
	}
	bad := ""
	var sigObj func(o *refcbor.Item, where string, depth int)
	unprot := func(u *refcbor.Item, where string, depth int) {
		if u == nil || u.Major != refcbor.MMap || depth > 32 {
			return
		}
		for _, label := range []int64{refcose.LCsig, refcose.LCsigV2} {
			v := refcose.Lookup(u, label)
			if v == nil || v.Major != refcbor.MArray {
				continue
			}
			objs := v.Elems
			if len(v.Elems) == 3 && v.Elems[0].Major == refcbor.MBstr {
				objs = []*refcbor.Item{v}
			}
			for _, o := range objs {
				sigObj(o, where+"/countersignature", depth+1)
			}
		}
	}
	sigObj = func(o *refcbor.Item, where string, depth int) {
		if o.Major != refcbor.MArray || len(o.Elems) != 3 {
			return
		}
		if s := o.Elems[2]; s.Major == refcbor.MBstr && len(s.Data) == 0 {
			bad = where
		}
		unprot(o.Elems[1], where, depth)
	}
	switch {
	case it.Major == refcbor.MArray && len(it.Elems) == 4 && it.Elems[3].Major == refcbor.MArray:
		if len(it.Elems[3].Elems) == 0 {
			bad = "COSE_Sign without signatures"
		}
		unprot(it.Elems[1], "body", 0)
		for _, s := range it.Elems[3].Elems {
			sigObj(s, "COSE_Signature", 0)
		}
	case it.Major == refcbor.MArray && len(it.Elems) == 4:
		if s := it.Elems[3]; s.Major == refcbor.MBstr && len(s.Data) == 0 {
			bad = "COSE_Sign1 signature"
		}
		unprot(it.Elems[1], "body", 0)
	default:
		sigObj(it, "signature object", 0)
	}
	r.Check()
	if bad != "" {
		r.Fail("empty-signature-emitted/"+what, "%s emitted a message that carries a zero-length signature (%s): %s", what, bad, hexShort(b))
	}
}

func scenarioC20(r *Run) {
	t := r.T
	// fixed tape layout (an exhaustive enumeration forces exactly these)
	ei := t.Choose(len(c20Entries), "c20.entry")
	n := 1 + t.Choose(c20MaxN, "c20.n")
	e := c20Entries[ei]
	kindsN := len(c20SignKinds)
	if e.verify {
		kindsN = len(c20VerifyKinds)
	}
	var vec [c20MaxN]int
	for i := 0; i < c20MaxN; i++ {
		vec[i] = t.Choose(kindsN, "c20.fault")
	}
	// which error VALUE the failing seams of this run report
	InjectedAs = nil
	switch t.Pick([]int{6, 2, 1, 1, 1}, "c20.errvalue") {
	case 1:
		InjectedAs = io.EOF
	case 2:
		InjectedAs = io.ErrUnexpectedEOF
	case 3:
		InjectedAs = context.DeadlineExceeded
	case 4:
		InjectedAs = cose.ErrVerification // a seam may even fail with one of the library's own sentinels
	}
	defer func() { InjectedAs = nil }()
	if InjectedAs != nil {
		r.Probe("seams-fail-with-" + InjectedAs.Error())
	}
	if !e.multi {
		n = 1
	}
	if e.verify {
		c20Verify(r, t, e, n, vec[:n])
		return
	}
	c20Sign(r, t, e, n, vec[:n])
}

func c20Sign(r *Run, t *tape.Tape, e c20Entry, n int, vec []int) {
	var log []string
	calls := make([]*c20Call, n)
	// liveness once the fault is gone: the device recovers, and the very same
	// go-cose signer object is asked again - it answers (a signer that stays
	// wedged after one device failure never returns; the watchdog reports it)
	defer func() {
		if r.Viol != nil {
			return
		}
		for i, c := range calls {
			if c == nil || c.hsm == nil || c.signed == nil || c.kind == "ok" {
				continue
			}
			c.hsm.Mode = ""
			var sig []byte
			var err error
			r.Lib(func() { sig, err = c.signed.Sign(NewEntropy(21), []byte("after the device recovered")) })
			r.Fired("device.recovers")
			r.Check()
			if err != nil || len(sig) == 0 {
				r.Fail("signer-unusable-after-device-recovered/"+c.kind, "signer %d (key %s): the device failed once (%s) and works again, but the same Signer object now returns (%d bytes, %v)", i, c.key.Name, c.kind, len(sig), err)
			}
		}
	}()
	names := make([]string, n)
	for i := 0; i < n; i++ {
		names[i] = c20SignKinds[vec[i]]
		calls[i] = r.c20Signer(t, names[i], &log, itoa(i))
	}
	ent := NewEntropy(uint64(t.U32("entropy.seed")))
	if c0 := calls[0]; e.multi && c0.ent != nil && t.Bool(1, 2, "c20.entropy.callers") {
		// the failing source is the ONE reader the caller hands to
		// SignMessage.Sign (not a per-signer one): signer 0 - an algorithm that
		// draws entropy - meets the fault unless the library read the
		// source dry or bypassed it beforehand
		if _, isEd := c0.key.Pub.(ed25519.PublicKey); !isEd {
			if c0.ent.FailAt > 8 {
				c0.ent.FailAt = 8
			}
			c0.spy.OwnRand = nil
			ent = c0.ent
			r.Probe("entropy-fault-in-the-callers-reader")
		}
	}
	external := genExternal(t)
	payload := genPayload(t, false)
	hdr := func(k *KeyPair) cose.Headers {
		lo := LayerOpts{MaxExtra: 2}
		if len(external) == 0 || t.Bool(1, 2, "c20.alg") {
			a := k.Alg
			lo.Alg = &a
		}
		return libHeaders(genLayer(t, lo), Spelling{T: t}, true)
	}
	var (
		err       error
		out       []byte // bytes returned by a helper
		isHelper  bool
		slots     func() [][]byte // signature slots after the call
		marshal   func() ([]byte, error)
		verifyAll func() error
		plainSig  bool // Countersign0: returns a bare signature
	)
	c0 := calls[0]
	switch e.name {
	case "Sign1()":
		isHelper = true
		h := hdr(c0.key)
		r.Lib(func() { out, err = cose.Sign1(ent, c0.signer(), h, payload, external) })
	case "Sign1Untagged()":
		isHelper = true
		h := hdr(c0.key)
		r.Lib(func() { out, err = cose.Sign1Untagged(ent, c0.signer(), h, payload, external) })
	case "SignHashEnvelope()":
		isHelper = true
		external = nil
		a := c0.key.Alg
		h := libHeaders(envelopeSafe(genLayer(t, LayerOpts{MaxExtra: 2, Alg: &a})), Spelling{T: t}, true)
		p := cose.HashEnvelopePayload{HashAlgorithm: cose.AlgorithmSHA256, HashValue: t.Bytes(32, "c20.digest")}
		r.Lib(func() { out, err = cose.SignHashEnvelope(ent, c0.signer(), h, p) })
	case "Sign1Message.Sign":
		m := &cose.Sign1Message{Headers: hdr(c0.key), Payload: payload}
		r.Lib(func() { err = m.Sign(ent, external, c0.signer()) })
		slots = func() [][]byte { return [][]byte{m.Signature} }
		marshal = m.MarshalCBOR
		verifyAll = func() error { return m.Verify(external, r.verifierFor(c0.key, false)) }
	case "Signature.Sign":
		s := &cose.Signature{Headers: hdr(c0.key)}
		body := []byte{0x40}
		r.Lib(func() { err = s.Sign(ent, c0.signer(), body, payload, external) })
		slots = func() [][]byte { return [][]byte{s.Signature} }
		marshal = s.MarshalCBOR
		verifyAll = func() error { return s.Verify(r.verifierFor(c0.key, false), body, payload, external) }
	case "Countersignature.Sign":
		parent := c04Parent(r, ent)
		cs := &cose.Countersignature{Headers: hdr(c0.key)}
		r.Lib(func() { err = cs.Sign(ent, c0.signer(), parent, external) })
		slots = func() [][]byte { return [][]byte{cs.Signature} }
		marshal = cs.MarshalCBOR
		verifyAll = func() error { return cs.Verify(r.verifierFor(c0.key, false), parent, external) }
	case "Countersign0()":
		parent := c04Parent(r, ent)
		plainSig = true
		r.Lib(func() { out, err = cose.Countersign0(ent, c0.signer(), parent, external) })
		verifyAll = func() error { return cose.VerifyCountersign0(r.verifierFor(c0.key, false), parent, external, out) }
	case "SignMessage.Sign":
		m := &cose.SignMessage{Headers: libHeaders(genLayer(t, LayerOpts{MaxExtra: 2}), Spelling{T: t}, false), Payload: payload}
		signers := make([]cose.Signer, n)
		for i, c := range calls {
			m.Signatures = append(m.Signatures, &cose.Signature{Headers: hdr(c.key)})
			signers[i] = c.signer()
		}
		if n >= 2 && t.Bool(1, 4, "c20.slowfirst") {
			// a slow first device (it yields the processor a number of times
			// before answering): whatever else the library has going on in the
			// meantime gets to run first
			signers[0] = &slowSigner{inner: signers[0], yields: 1 + t.Choose(200, "c20.slowfirst.n")}
			r.Fired("signer.slow")
		}
		if t.Bool(1, 4, "c20.relayed") {
			// the message object comes out of a decoder (a relay that signs a
			// received COSE_Sign anew): healthy signing, wire, decode, slots
			// emptied - the holders retain raw header bytes
			healthy := make([]cose.Signer, n)
			for i, c := range calls {
				healthy[i] = r.signerFor(c.key, false)
			}
			var e0 error
			var wire []byte
			r.Lib(func() {
				if e0 = m.Sign(NewEntropy(13), external, healthy...); e0 == nil {
					wire, e0 = m.MarshalCBOR()
				}
			})
			adopted := false
			if e0 == nil {
				m2 := &cose.SignMessage{}
				r.Lib(func() { e0 = m2.UnmarshalCBOR(wire) })
				if e0 == nil && len(m2.Signatures) == n {
					for _, sg := range m2.Signatures {
						sg.Signature = nil
					}
					m, adopted = m2, true
					r.Probe("message-object-from-decoder")
				}
			}
			if !adopted {
				for _, sg := range m.Signatures {
					sg.Signature = nil
				}
			}
		} else if t.Bool(1, 5, "c20.presigned") {
			// the message was completely signed before (by healthy signers
			// of the same keys), its payload was edited, and it is signed
			// again under the fault vector.  Whatever a library thinks of
			// signing twice: a call that fails must not leave a message that
			// serialises with some slots renewed and others not.
			healthy := make([]cose.Signer, n)
			for i, c := range calls {
				healthy[i] = r.signerFor(c.key, false)
			}
			var e0 error
			r.Lib(func() { e0 = m.Sign(NewEntropy(11), external, healthy...) })
			if e0 == nil {
				before := make([][]byte, n)
				for i, sg := range m.Signatures {
					before[i] = append([]byte{}, sg.Signature...)
				}
				m.Payload = append(append([]byte{}, payload...), 0x21)
				var e1 error
				r.Lib(func() { e1 = m.Sign(ent, external, signers...) })
				e1 = r.TakeSeamPanic(e1)
				r.Op("SIGN", "SignMessage.Sign again on a completely signed message (payload edited), vector %v -> %s", names, errTag(e1))
				r.Outcome(fmt.Sprintf("SignMessage.Sign/presigned/n=%d/%s", n, errTag(e1)))
				r.Fired("sign.again-on-signed-message")
				r.Check()
				if e1 != nil {
					changed := false
					for i, sg := range m.Signatures {
						if !bytes.Equal(sg.Signature, before[i]) {
							changed = true
						}
					}
					var b []byte
					var merr error
					r.Lib(func() { b, merr = m.MarshalCBOR() })
					if changed && merr == nil {
						r.Fail("failed-sign-leaves-serialisable-half-signed-message/SignMessage.Sign", "Sign on an already signed COSE_Sign failed (%v) after renewing some signatures and not others, and the message still serialises: %s", e1, hexShort(b))
					}
				}
				return
			}
		}
		r.Lib(func() { err = m.Sign(ent, external, signers...) })
		slots = func() [][]byte {
			out := make([][]byte, len(m.Signatures))
			for i, s := range m.Signatures {
				out[i] = s.Signature
			}
			return out
		}
		marshal = m.MarshalCBOR
		verifyAll = func() error {
			vs := make([]cose.Verifier, n)
			for i, c := range calls {
				vs[i] = r.verifierFor(c.key, false)
			}
			return m.Verify(external, vs...)
		}
	}
	if perr := r.TakeSeamPanic(nil); perr != nil {
		// go-cose passed the seam's panic on to the caller: nothing was
		// returned, which the oracle below treats as the error
		err, out = perr, nil
	}
	// what fired
	firstErr, firstEmpty := -1, -1
	fired := make([]string, n)
	for i, c := range calls {
		fired[i] = c.kind
		made := c.made()
		switch {
		case c.kind == "ok":
		case c.kind == "entropy.err@k" || c.kind == "entropy.short":
			if c.ent.Fired {
				r.Fired(c.kind)
			} else {
				fired[i] = c.kind + "(not-met)"
				// ECDSA and RSASSA-PSS cannot sign without drawing from the
				// entropy source they are given: if the call was made and the
				// caller's reader was never asked for more than the single
				// probe byte, the library signed with some other source and
				// the injected failure could not be reported
				_, isEd := c.key.Pub.(ed25519.PublicKey)
				if made && !isEd && c.ent.n == 0 {
					r.Check()
					r.Fail("caller-entropy-source-bypassed/"+e.name, "signer %d (%s, key %s) was called and produced a signature, but the entropy source handed to %s was never read: its failure (%s) could not surface", i, c.kind, c.key.Name, e.name, c.kind)
					return
				}
				// ... and none of them can sign with fewer than 16 bytes of it
				// (ECDSA draws at least half the curve size, PSS a salt of the
				// hash length): a source that can deliver only k < 16 bytes
				// and was never asked for the next one was not what the
				// signature was made from
				if made && !isEd && c.kind == "entropy.err@k" && c.ent.FailAt < 16 {
					r.Check()
					r.Fail("caller-entropy-source-bypassed/"+e.name+"/short-of-entropy", "signer %d (key %s) produced a signature although the entropy source handed to %s can deliver only %d bytes and its failure was never met (%d bytes were drawn from it)", i, c.key.Name, e.name, c.ent.FailAt, c.ent.n)
					return
				}
			}
		case made:
			r.Fired(c.kind)
		}
		if firstErr < 0 && c.isErr() {
			firstErr = i
		}
		if firstEmpty < 0 && c.isEmptyKind() {
			firstEmpty = i
		}
	}
	r.Op("SIGN", "%s n=%d vector=%v -> %s", e.name, n, fired, errTag(err))
	r.Outcome(fmt.Sprintf("%s/n=%d/%v/%s", e.name, n, fired, errTag(err)))
	r.Check()
	sig := "/" + e.name
	if firstErr >= 0 && (firstEmpty < 0 || firstErr < firstEmpty || !e.multi) {
		c := calls[firstErr]
		// the failing call was reached unless an earlier empty-returning
		// signer... (an empty signer does not stop the loop), so it was reached
		if err == nil {
			r.Fail("sign-error-swallowed"+sig+"/"+c.kind, "call %d failed (%s) but %s returned nil", firstErr, c.kind, e.name)
			return
		}
		// (an entropy reader that ends with io.EOF after some bytes is reported
		// as io.ErrUnexpectedEOF by io.ReadFull inside Go's crypto packages)
		eofOK := c.inject == io.EOF && c.ent != nil && errors.Is(err, io.ErrUnexpectedEOF)
		if c.inject != nil && !errors.Is(err, c.inject) && !eofOK {
			r.Fail("sign-error-replaced"+sig+"/"+c.kind, "call %d failed with the injected error %v, %s returned %v", firstErr, c.inject, e.name, err)
		}
		if len(out) > 0 {
			r.Fail("bytes-returned-with-error"+sig+"/"+c.kind, "%s returned %d bytes together with %v", e.name, len(out), err)
		}
		for _, l := range log {
			var idx int
			fmt.Sscanf(l, "sign:%d", &idx)
			if idx > firstErr {
				r.Fail("signing-continues-after-failure"+sig, "signer %d was called although signer %d had failed", idx, firstErr)
			}
		}
		for i, oc := range calls {
			if i > firstErr && oc.bare != nil && oc.hsmN > 0 {
				r.Fail("signing-continues-after-failure"+sig, "the key of signer %d was used although signer %d had failed", i, firstErr)
			}
		}
		if slots != nil {
			ss := slots()
			if len(ss[firstErr]) != 0 {
				r.Fail("signature-stored-for-failing-slot"+sig+"/"+c.kind, "slot %d holds %d signature bytes although its signer failed (%s)", firstErr, len(ss[firstErr]), c.kind)
			}
			var b []byte
			var merr error
			r.Lib(func() { b, merr = marshal() })
			if merr == nil {
				r.Fail("half-signed-message-serialisable"+sig+"/"+c.kind, "after a failed signing call (%s at %d) MarshalCBOR succeeded: %s", c.kind, firstErr, hexShort(b))
				r.noEmptySignature(e.name, b)
			}
		}
		return
	}
	if firstEmpty >= 0 && (firstErr < 0 || firstEmpty < firstErr) {
		// a signer returned an empty signature without an error: nothing
		// usable may come out
		c := calls[firstEmpty]
		if isHelper && len(out) > 0 {
			r.Fail("helper-returns-message-with-empty-signature"+sig+"/"+c.kind, "%s returned %d bytes although the signer returned an empty signature", e.name, len(out))
			r.noEmptySignature(e.name, out)
			return
		}
		if isHelper && err == nil {
			r.Fail("helper-ok-with-empty-signature"+sig+"/"+c.kind, "%s returned (nil bytes, nil error) for an empty signature", e.name)
		}
		if slots != nil {
			var b []byte
			var merr error
			r.Lib(func() { b, merr = marshal() })
			if merr == nil {
				r.Fail("message-with-empty-signature-serialisable"+sig+"/"+c.kind, "slot %d got an empty signature and MarshalCBOR still succeeded: %s", firstEmpty, hexShort(b))
				r.noEmptySignature(e.name, b)
			}
		}
		return
	}
	// every call ok (or a legal short read / an unmet entropy fault)
	if err != nil {
		r.Fail("signing-fails-without-fault"+sig, "no call failed (vector %v) but %s returned %v", fired, e.name, err)
		return
	}
	switch {
	case isHelper:
		if len(out) == 0 {
			r.Fail("helper-returns-nothing"+sig, "%s returned no bytes and no error", e.name)
			return
		}
		r.noEmptySignature(e.name, out)
		// helpers' outputs verify
		var verr error
		switch e.name {
		case "Sign1()":
			var m cose.Sign1Message
			r.Lib(func() {
				if verr = m.UnmarshalCBOR(out); verr == nil {
					verr = m.Verify(external, r.verifierFor(c0.key, false))
				}
			})
		case "Sign1Untagged()":
			var m cose.UntaggedSign1Message
			r.Lib(func() {
				if verr = m.UnmarshalCBOR(out); verr == nil {
					verr = m.Verify(external, r.verifierFor(c0.key, false))
				}
			})
		case "SignHashEnvelope()":
			r.Lib(func() { _, verr = cose.VerifyHashEnvelope(r.verifierFor(c0.key, false), out) })
		}
		if verr != nil {
			r.Fail("signed-under-legal-entropy-does-not-verify"+sig, "vector %v: output does not verify: %v", fired, verr)
		}
	case plainSig:
		if len(out) == 0 {
			r.Fail("helper-returns-nothing"+sig, "Countersign0 returned no bytes and no error")
			return
		}
		var verr error
		r.Lib(func() { verr = verifyAll() })
		if verr != nil {
			r.Fail("signed-under-legal-entropy-does-not-verify"+sig, "vector %v: %v", fired, verr)
		}
	default:
		for i, s := range slots() {
			if len(s) == 0 {
				r.Fail("slot-empty-after-successful-sign"+sig, "Sign returned nil but slot %d is empty (vector %v)", i, fired)
				return
			}
		}
		var b []byte
		var merr error
		r.Lib(func() { b, merr = marshal() })
		if merr != nil {
			r.Fail("signed-message-not-serialisable"+sig, "every slot signed, MarshalCBOR returned %v", merr)
			return
		}
		r.noEmptySignature(e.name, b)
		var verr error
		r.Lib(func() { verr = verifyAll() })
		if verr != nil {
			r.Fail("signed-under-legal-entropy-does-not-verify"+sig, "vector %v: %v", fired, verr)
		}
	}
}

func c20Verify(r *Run, t *tape.Tape, e c20Entry, n int, vec []int) {
	ent := NewEntropy(uint64(t.U32("entropy.seed")))
	external := genExternal(t)
	payload := genPayload(t, false)
	keys := make([]*KeyPair, n)
	for i := range keys {
		keys[i] = pickCheapKey(t)
	}
	hdr := func(k *KeyPair) cose.Headers {
		a := k.Alg
		return libHeaders(genLayer(t, LayerOpts{MaxExtra: 2, Alg: &a}), Spelling{T: t}, true)
	}
	var log []string
	spies := make([]*SpyVerifier, n)
	fired := make([]string, n)
	firstErr := -1
	for i := range spies {
		kind := c20VerifyKinds[vec[i]]
		fired[i] = kind
		spies[i] = &SpyVerifier{Inner: r.verifierFor(keys[i], false), Alg: cose.Algorithm(keys[i].Alg), Log: &log, Tag: itoa(i)}
		if kind == "verifier.err" || kind == "verifier.panic" {
			spies[i].Fault = kind[len("verifier."):]
			if firstErr < 0 {
				firstErr = i
			}
		}
	}
	var err error
	var envMsg *cose.Sign1Message
	var verifyCall func()
	k0 := keys[0]
	s0 := r.signerFor(k0, false)
	// a validly signed object first
	switch e.name {
	case "Sign1Message.Verify":
		m := &cose.Sign1Message{Headers: hdr(k0), Payload: payload}
		r.Lib(func() { err = m.Sign(ent, external, s0) })
		if err != nil {
			r.Skip("could not prepare a signed message: " + err.Error())
		}
		verifyCall = func() { err = m.Verify(external, spies[0]) }
	case "Signature.Verify":
		s := &cose.Signature{Headers: hdr(k0)}
		body := []byte{0x40}
		r.Lib(func() { err = s.Sign(ent, s0, body, payload, external) })
		if err != nil {
			r.Skip("could not prepare a signature: " + err.Error())
		}
		verifyCall = func() { err = s.Verify(spies[0], body, payload, external) }
	case "Countersignature.Verify":
		parent := c04Parent(r, ent)
		cs := &cose.Countersignature{Headers: hdr(k0)}
		r.Lib(func() { err = cs.Sign(ent, s0, parent, external) })
		if err != nil {
			r.Skip("could not prepare a countersignature: " + err.Error())
		}
		verifyCall = func() { err = cs.Verify(spies[0], parent, external) }
	case "VerifyCountersign0()":
		parent := c04Parent(r, ent)
		var sig []byte
		r.Lib(func() { sig, err = cose.Countersign0(ent, s0, parent, external) })
		if err != nil {
			r.Skip("could not prepare an abbreviated countersignature: " + err.Error())
		}
		verifyCall = func() { err = cose.VerifyCountersign0(spies[0], parent, external, sig) }
	case "VerifyHashEnvelope()":
		a := k0.Alg
		h := libHeaders(envelopeSafe(genLayer(t, LayerOpts{MaxExtra: 2, Alg: &a})), Spelling{T: t}, true)
		var env []byte
		r.Lib(func() {
			env, err = cose.SignHashEnvelope(ent, s0, h, cose.HashEnvelopePayload{HashAlgorithm: cose.AlgorithmSHA256, HashValue: t.Bytes(32, "c20.digest")})
		})
		if err != nil {
			r.Skip("could not prepare an envelope: " + err.Error())
		}
		verifyCall = func() { envMsg, err = cose.VerifyHashEnvelope(spies[0], env) }
	case "SignMessage.Verify":
		m := &cose.SignMessage{Headers: libHeaders(genLayer(t, LayerOpts{MaxExtra: 2}), Spelling{T: t}, false), Payload: payload}
		signers := make([]cose.Signer, n)
		vs := make([]cose.Verifier, n)
		for i, k := range keys {
			m.Signatures = append(m.Signatures, &cose.Signature{Headers: hdr(k)})
			signers[i] = r.signerFor(k, false)
			vs[i] = spies[i]
		}
		r.Lib(func() { err = m.Sign(ent, external, signers...) })
		if err != nil {
			r.Skip("could not prepare a signed COSE_Sign: " + err.Error())
		}
		verifyCall = func() { err = m.Verify(external, vs...) }
	}
	if firstErr >= 0 && verifyCall != nil && t.Bool(1, 3, "c20.verify.worked-before") {
		// the verifying devices worked a moment ago - the very same objects,
		// the very same message object and bytes were accepted - and fail from
		// now on: what was accepted then proves nothing now
		saved := make([]string, n)
		for i := range spies {
			saved[i], spies[i].Fault = spies[i].Fault, ""
		}
		r.Lib(verifyCall)
		if e0 := r.TakeSeamPanic(err); e0 != nil {
			r.Check()
			r.Fail("verification-fails-without-fault/"+e.name, "no verifier failed but %s returned %v", e.name, e0)
			return
		}
		for i := range spies {
			spies[i].Fault, spies[i].Calls = saved[i], nil
		}
		log, err, envMsg = nil, nil, nil
		r.Fired("verifier.worked-before-failing")
	}
	if verifyCall != nil {
		r.Lib(verifyCall)
	}
	err = r.TakeSeamPanic(err)
	for i := range spies {
		if spies[i].Fault != "" && len(spies[i].Calls) > 0 {
			r.Fired("verifier." + spies[i].Fault)
		}
	}
	r.Op("VERIFY", "%s n=%d vector=%v -> %s", e.name, n, fired, errTag(err))
	r.Outcome(fmt.Sprintf("%s/n=%d/%v/%s", e.name, n, fired, errTag(err)))
	r.Check()
	sig := "/" + e.name
	if firstErr >= 0 {
		if err == nil {
			r.Fail("verifier-error-turned-into-success"+sig, "verifier %d returned an error and %s returned nil (vector %v)", firstErr, e.name, fired)
			return
		}
		if !errors.Is(err, injected(ErrVerifier)) && !errors.Is(err, ErrSeamPanic) {
			r.Fail("verifier-error-replaced"+sig, "verifier %d returned the injected error, %s returned %v", firstErr, e.name, err)
		}
		if envMsg != nil {
			r.Fail("message-returned-with-verifier-error"+sig, "VerifyHashEnvelope returned a message together with an error")
		}
		for _, l := range log {
			var idx int
			fmt.Sscanf(l, "verify:%d", &idx)
			if idx > firstErr {
				r.Fail("verification-continues-after-verifier-error"+sig, "verifier %d was consulted although verifier %d had returned an error", idx, firstErr)
			}
		}
		return
	}
	if err != nil {
		r.Fail("verification-fails-without-fault"+sig, "no verifier failed but %s returned %v", e.name, err)
	}
}

var _ = refcose.KSign1Tagged

// slowSigner answers after yielding the processor a number of times.
type slowSigner struct {
	inner  cose.Signer
	yields int
}

func (s *slowSigner) Algorithm() cose.Algorithm { return s.inner.Algorithm() }
func (s *slowSigner) Sign(rand io.Reader, content []byte) ([]byte, error) {
	for i := 0; i < s.yields; i++ {
		runtime.Gosched()
	}
	return s.inner.Sign(rand, content)
}
