// Package sim is the deterministic simulator: roles (issuer, notary, relay,
// verifier, foreign peer, key directory), seams (spy signer/verifier, HSM stub,
// entropy reader, corrupting channel/store), monitors and per-property
// scenarios.  Every choice comes from one tape (package tape); nothing here
// reads a clock, a global RNG, or ranges over a Go map where order could reach
// the tape or the log.
package sim

import (
	"fmt"
	"sort"
	"strings"
	"sync/atomic"
	"time"

	cose "github.com/veraison/go-cose"

	"verif/tape"
)

// Violation is one monitor report.
type Violation struct {
	Signature string `json:"signature"` // monitor / invariant / discriminating facts; no seeds, no lengths
	Detail    string `json:"detail"`    // human-readable: the failing input, call or history
}

type violationPanic struct{ v *Violation }

// skipRun is panicked to abandon a run that left the explored space (for
// example a library panic met while exploring a property other than C06).
type skipRun struct{ why string }

// Run is the state of one simulated run.
type Run struct {
	T    *tape.Tape
	Prop string
	Tier string
	// Known lists violation signatures that are recorded and do not stop
	// the run (known findings); the run continues past them.
	Known map[string]bool

	Faults map[string]int // fault kind -> times it fired (was applied and changed something)
	Probes map[string]int // "this rare thing happened" counters
	Ops    int            // operations executed
	Steps  int            // logical steps (library calls, scheduler steps)
	Checks int            // invariant evaluations on a non-default path

	KnownHits map[string]string // known signature -> first detail
	Viol      *Violation

	seamPanic bool
	// RecycledSigCap > 0: LibIssue hands go-cose message objects whose signature
	// slots are empty slices with that much capacity (world.go)
	RecycledSigCap int
	// LeaveAlgToLibrary: where a message is signed without external data,
	// LibIssue takes the alg parameter out of the protected maps it built (the
	// library writes the signer's algorithm there itself when signing), and
	// may state it in the unprotected bucket as a hint instead.
	LeaveAlgToLibrary bool
	signers           map[string]cose.Signer // long-lived Signer objects of this run (world.go)
	mapPerms          int                    // non-identity permutations handed to map ranges of go-cose (instrumented builds)
	shape             []string
	sched             []uint64 // schedule hashes of the concurrent blocks of this run
	trace             []string // rendered operations (kept short)
	Logged            *strings.Builder
}

// NewRun prepares a run.
func NewRun(t *tape.Tape, prop, tier string, known map[string]bool) *Run {
	// re-entrant seams (seams.go) in every single-task world
	SeamInterludes, seamChanged, seamDepth = prop != "C18", "", 0
	return &Run{T: t, Prop: prop, Tier: tier, Known: known,
		Faults: map[string]int{}, Probes: map[string]int{}, KnownHits: map[string]string{}}
}

// Thorough reports whether the run belongs to the thorough tier.
func (r *Run) Thorough() bool { return r.Tier == "thorough" }

// Fired records that a fault kind was applied and changed something.
func (r *Run) Fired(kind string) {
	r.Faults[kind]++
	r.shapeAdd("f:" + kind)
}

// Probe counts a rare condition.
func (r *Run) Probe(name string) { r.Probes[name]++ }

// Op records an operation (for the trace, the log and the run's shape).
func (r *Run) Op(kind string, format string, args ...any) {
	r.Ops++
	r.T.Mark()
	r.shapeAdd(kind)
	line := kind
	if format != "" {
		line += " " + fmt.Sprintf(format, args...)
	}
	if len(r.trace) < 64 {
		if len(line) > 300 {
			line = line[:300] + "..."
		}
		r.trace = append(r.trace, line)
	}
	if r.Logged != nil {
		r.Logged.WriteString(line)
		r.Logged.WriteByte('\n')
	}
}

// Logf writes to the event log only (determinism self-test).
func (r *Run) Logf(format string, args ...any) {
	if r.Logged != nil {
		fmt.Fprintf(r.Logged, format, args...)
		r.Logged.WriteByte('\n')
	}
}

// Outcome adds an outcome class to the run's shape.
func (r *Run) Outcome(class string) { r.shapeAdd("o:" + class) }

func (r *Run) shapeAdd(s string) {
	if len(r.shape) < 96 {
		r.shape = append(r.shape, s)
	}
}

// Shape is the run's abstraction used to count distinct runs: the sequence
// of operation kinds, fault kinds fired and outcome classes.
func (r *Run) Shape() string { return strings.Join(r.shape, " ") }

// Trace returns the rendered operations.
func (r *Run) Trace() []string { return r.trace }

// Check counts an invariant evaluation.
func (r *Run) Check() { r.Checks++ }

// Fail reports a violation.  If its signature is a known finding the run
// goes on; otherwise the run stops here.
func (r *Run) Fail(signature, format string, args ...any) {
	detail := fmt.Sprintf(format, args...)
	if len(detail) > 1500 {
		detail = detail[:1500] + "..."
	}
	full := r.Prop + "/" + signature
	if r.Known[full] {
		if _, ok := r.KnownHits[full]; !ok {
			r.KnownHits[full] = detail
		}
		r.Outcome("known")
		return
	}
	panic(violationPanic{&Violation{Signature: full, Detail: detail}})
}

// Skip abandons the run.
func (r *Run) Skip(why string) { panic(skipRun{why}) }

// Scenario is the body of one simulated run for a property.
type Scenario func(r *Run)

// Scenarios maps property ids to their scenario.
var Scenarios = map[string]Scenario{}

// ScenarioInfo carries the constant descriptions used in evidence files.
type ScenarioInfo struct {
	Rule         string   // how runs are generated and what makes one non-trivial/distinct
	Assumptions  []string // trusted base / assumptions
	Real         []string // components that ran real code
	Stubs        []string // components that are simulator stubs
	QuickRuns    int
	ThoroughRuns int
	Level        string // evidence level
	NeedsInstr   bool   // runs against the instrumented scratch copy
	// EnumSpace, when non-zero, is the size of the finite dimension the
	// thorough tier enumerates completely (C20: fault vectors); EnumRepeat is
	// how many sampled contexts run per enumerated element.
	EnumSpace  int
	EnumRepeat int
	EnumWhat   string
}

// Infos maps property ids to their evidence descriptions.
var Infos = map[string]ScenarioInfo{}

// Execute runs the scenario once, converting panics into a result.
// skipped is non-empty when the run was abandoned.
func Execute(r *Run, sc Scenario) (skipped string) {
	defer func() {
		if x := recover(); x != nil {
			switch p := x.(type) {
			case violationPanic:
				// The signature already carries the property prefix only
				// once: known matching happens on the part after it.
				r.Viol = p.v
			case skipRun:
				skipped = p.why
			default:
				panic(x) // harness bug: crash loudly (driver turns this into exit 2)
			}
		}
	}()
	if HaveInstr {
		// every range-over-map loop inside go-cose follows a permutation drawn
		// from the tape: behaviour that depends on map iteration order is a
		// replayable function of the tape instead of a runtime coin
		SetPermHook(func(n int) []int {
			p := r.T.Perm(n, "maporder")
			for i, v := range p {
				if i != v {
					r.mapPerms++
					break
				}
			}
			return p
		})
		// the wall clock of the library is the simulator's: an instant far in
		// the past, around today or far in the future, advancing by a step
		// (none ... decades) at every read - clock skew and jumps as one
		// tape-drawn configuration.  The pinned go-cose never reads it; a
		// verdict or an encoding that starts to depend on it shows up as a
		// difference to the clock-less reference model.
		bases := []int64{0, 1_000_000_000, 1_790_000_000, 1<<31 + 100, 4_102_444_800, 253_402_300_799}
		steps := []int64{0, 1, 3600, 400 * 86400, 80 * 365 * 86400}
		// ... and so is its process environment: per run every variable is
		// unset, or every variable the library asks for has a value that
		// depends on its name and the run ("1", "0", "true", "off", empty)
		envModes := 4
		ci := r.T.Choose(len(bases)*len(steps)*envModes, "clock+env")
		envMode := ci / (len(bases) * len(steps))
		ci %= len(bases) * len(steps)
		base, step := bases[ci%len(bases)], steps[ci/len(bases)]
		envReads0 := EnvReads()
		SetEnvHook(func(name string) (string, bool) {
			if envMode == 0 {
				return "", false
			}
			h := uint64(envMode) * 0x9e3779b97f4a7c15
			for i := 0; i < len(name); i++ {
				h = (h ^ uint64(name[i])) * 1099511628211
			}
			vals := []string{"1", "0", "true", "off", "", "2"}
			if envMode == 1 {
				return "1", true
			}
			if h>>40&3 == 0 {
				return "", false
			}
			return vals[(h>>20)%uint64(len(vals))], true
		})
		reads0 := ClockReads()
		var nreads atomic.Int64
		SetNowHook(func() time.Time {
			n := nreads.Add(1) - 1
			return time.Unix(base+n*step, 0).UTC()
		})
		defer func() {
			SetPermHook(nil)
			SetNowHook(nil)
			SetEnvHook(nil)
			if n := EnvReads() - envReads0; n > 0 {
				r.Faults["env.read-by-library"] += int(n)
			}
			if r.mapPerms > 0 {
				r.Faults["maporder"] += r.mapPerms
			}
			if n := ClockReads() - reads0; n > 0 {
				r.Faults["clock.read-by-library"] += int(n)
				if step > 0 {
					r.Faults["clock.jump"] += int(n)
				}
			}
		}()
	}
	sc(r)
	return ""
}

// SortedKeys returns the keys of a string-keyed map in order (maps are never
// ranged over directly where order could matter).
func SortedKeys[V any](m map[string]V) []string {
	ks := make([]string, 0, len(m))
	for k := range m {
		ks = append(ks, k)
	}
	sort.Strings(ks)
	return ks
}

// LibPanic describes a panic raised inside a go-cose call.
type LibPanic struct {
	Value any
	Frame string // innermost go-cose function on the stack
	Class string
}

// call runs f (a single library call) and reports a panic raised inside it.
func call(f func()) (lp *LibPanic) {
	defer func() {
		if x := recover(); x != nil {
			if _, ok := x.(violationPanic); ok {
				panic(x)
			}
			if _, ok := x.(skipRun); ok {
				panic(x)
			}
			if sp, ok := x.(SeamPanic); ok {
				lp = &LibPanic{Value: sp, Class: "seam-panic", Frame: "seam"}
				return
			}
			lp = describePanic(x)
		}
	}()
	f()
	return nil
}

// Lib runs one library call.  A panic inside it abandons the run unless the
// property under exploration is C06 (which handles panics itself via call).
func (r *Run) Lib(f func()) {
	r.Steps++
	lp := call(f)
	if seamChanged != "" {
		d := seamChanged
		seamChanged = ""
		r.Check()
		r.Fail("content-changes-while-the-seam-holds-it", "the bytes go-cose handed to a Signer/Verifier changed during the call: %s", d)
	}
	if lp != nil {
		if lp.Class == "seam-panic" {
			// raised by a stub on purpose and passed on by go-cose: the world
			// asks with TakeSeamPanic
			r.seamPanic = true
			return
		}
		if panicIsViolation[r.Prop] && lp.Frame != "?" {
			// these properties promise a result (a message that verifies, bytes,
			// an error value) for the calls their worlds make; a panic is none
			r.Check()
			r.Fail("library-panic/"+lp.Class+"/"+lp.Frame, "a call made by the %s world panicked inside go-cose: %v (in %s)\nlast operations:\n  %s", r.Prop, lp.Value, lp.Frame, strings.Join(lastN(r.trace, 6), "\n  "))
		}
		r.Probe("lib-panic-abandoned")
		r.Skip("library panic: " + lp.Class + " in " + lp.Frame)
	}
}

// TakeSeamPanic reports (once) whether the last library call ended with a
// panic of a seam propagating out of go-cose, as an error value.
func (r *Run) TakeSeamPanic(err error) error {
	if r.seamPanic {
		r.seamPanic = false
		return fmt.Errorf("panic propagated to the caller: %w", ErrSeamPanic)
	}
	return err
}

// panicIsViolation lists the properties whose statement promises an outcome
// for every call their world makes (round trips succeed, conforming messages
// are accepted, encoders return bytes, failures come back as error values).
// In the other worlds (damaged inputs, hostile seams) a panic is C06's
// business: the run is abandoned and counted.
var panicIsViolation = map[string]bool{"C01": true, "C07": true, "C08": true, "C09": true, "C10": true, "C12": true, "C14": true, "C20": true}

func lastN(s []string, n int) []string {
	if len(s) > n {
		return s[len(s)-n:]
	}
	return s
}

// errTag is what the event log records of an error: whether there was one.
// The text of go-cose's validation errors depends on Go's map iteration
// order when several rules are broken at once (DESIGN 1.2), so it never
// enters the log, a shape or a signature.
func errTag(err error) string {
	if err == nil {
		return "ok"
	}
	return "error"
}
