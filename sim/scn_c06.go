package sim

import (
	"fmt"

	cose "github.com/veraison/go-cose"

	"verif/refcbor"
	"verif/refcose"
	"verif/tape"
)

func init() {
	Scenarios["C06"] = scenarioC06
	Infos["C06"] = ScenarioInfo{
		Level: "exploration",
		Rule: "one run = one input offered to all nine decoding entry points (Sign1Message, UntaggedSign1Message, SignMessage, Signature, Countersignature, ProtectedHeader, UnprotectedHeader, Key, VerifyHashEnvelope): " +
			"valid messages, stand-alone signature objects, header buckets, hash envelopes and COSE_Keys (EC2/OKP/symmetric/custom, written by the reference encoder) after 1..3 faults from the byte-level and structural catalogue " +
			"(or splices between messages), plus raw random bytes and truncations; every value a decoder returns without error is then pushed through the follow-up operations the property lists " +
			"(re-encode with and without raw bytes, Verify with every verifier kind, countersign as parent in both forms, header accessors, Key.PublicKey/PrivateKey/Signer/Verifier/AlgorithmOrDefault/parameter accessors, signing with the resulting signer). " +
			"Oracle: no call panics (recover around each call; signature = panic class + innermost go-cose function) and every run returns before the watchdog (40 s, re-run alone before being reported). " +
			"Non-trivial = at least one decoder accepted the input and follow-ups ran; distinct = distinct (input kind, fault kinds, accepting decoders) sequence.",
		Assumptions: []string{"the watchdog is the only real-clock read; it influences no choice", "panics inside the Go runtime that are not recoverable (stack exhaustion, out of memory) end the worker and are attributed to the run in progress by the driver"},
		Real:        []string{"github.com/veraison/go-cose (all decoders and follow-up operations)", "github.com/fxamacker/cbor/v2", "Go crypto"},
		Stubs:       []string{"wire / key store with fault injection", "foreign peer and key writer (reference encoder)", "entropy source"},
		QuickRuns:   400000, ThoroughRuns: 6000000,
	}
}

func (r *Run) c06Call(name string, input []byte, f func()) {
	r.Steps++
	before := LibSteps()
	defer func() {
		if r.Viol == nil {
			r.c06Work(name, input, LibSteps()-before)
		}
	}()
	if lp := call(f); lp != nil {
		r.Check()
		r.Fail("panic/"+lp.Class+"/"+lp.Frame, "%s panicked: %v\ninnermost go-cose frame: %s\ninput: %s", name, lp.Value, lp.Frame, hexShort(input))
	}
}

// Work budget of one decoding call, in go-cose statements executed (counted by
// the instrumented copy; deterministic and independent of machine load):
// linear in the input size with a generous constant.  On the unchanged tree
// the largest ratio observed over millions of inputs is below 30 statements
// per input byte (probe "max-steps-per-byte"); the budget allows 40 times
// that, so it only trips on super-linear behaviour on large inputs.
const (
	c06StepsPerByte = 1200
	c06StepsBase    = 400000
)

func (r *Run) c06Work(name string, input []byte, steps uint64) {
	if steps == 0 {
		return
	}
	if ratio := int(steps) / (len(input) + 1); ratio > r.Probes["max-steps-per-byte"] {
		r.Probes["max-steps-per-byte"] = ratio
	}
	if steps > uint64(c06StepsPerByte*len(input)+c06StepsBase) {
		r.Check()
		r.Fail("superlinear-work/"+name, "%s executed %d go-cose statements for a %d-byte input (budget %d): the work grows faster than the input\ninput: %s", name, steps, len(input), c06StepsPerByte*len(input)+c06StepsBase, hexShort(input))
	}
}

func scenarioC06(r *Run) {
	t := r.T
	fm := GenFaultMix(t)
	ent := NewEntropy(uint64(t.U32("entropy.seed")))
	var input []byte
	var forcedKey *KeyPair
	kind := ""
	switch t.Pick([]int{240, 200, 40, 80, 12}, "c06.inputkind") {
	case 0:
		to := TrafficOpts{Spec: SpecOpts{MaxExtra: 3, MaxSigner: 3, Cheap: true}, CsigDepth: 2, Abbrev: true, ForeignPct: 40, Detach: true}
		b, victim := r.damagedInput(t, fm, ent, to, 3)
		if victim == nil {
			r.Outcome("no-traffic")
			return
		}
		input, kind = b, "msg:"+victim.Dec
	case 1:
		ks := genKeySpec(t)
		input = ks.Bytes()
		r.Op("KEY_PUT", "%s", ks.Desc)
		for i, nf := 0, t.Choose(4, "c06.key.nfaults"); i < nf; i++ {
			if out, k := fm.WireFault(t, input); k != "" {
				input = out
				r.Fired(k)
			}
		}
		r.Op("KEY_CORRUPT", "%s", hexShort(input))
		kind = "key"
	case 2:
		input = t.Bytes(t.Choose(64, "c06.random.n"), "c06.random")
		if t.Bool(1, 2, "c06.random.prefix") {
			pre := [][]byte{{0xd2, 0x84}, {0x84}, {0xd8, 0x62, 0x84}, {0x83}, {0xa2, 0x01}, {0x40}, {0xa1}}
			input = append(append([]byte{}, pre[t.Choose(len(pre), "c06.random.pre")]...), input...)
		}
		r.Op("RANDOM", "%s", hexShort(input))
		kind = "random"
	case 4:
		// a large but perfectly legal header: thousands of private labels (a
		// 64 KiB message is nothing unusual).  Prompt termination is judged
		// by counting go-cose statements, not by the clock.
		n := []int{600, 1500, 4000}[t.Choose(3, "c06.large.n")]
		var kv []*refcbor.Item
		for i := 0; i < n; i++ {
			kv = append(kv, refcbor.Int(int64(100000+i)), refcbor.Int(int64(i)))
		}
		big := refcbor.Map(kv...)
		switch t.Choose(3, "c06.large.where") {
		case 0:
			input = refcbor.Encode(big)
			kind = "large:UnprotectedHeader"
		case 1:
			input = refcbor.Encode(refcbor.Bstr(refcbor.Encode(big)))
			kind = "large:ProtectedHeader"
		default:
			input = refcbor.Encode(refcbor.Tag(18, refcbor.Array(refcbor.Bstr(refcbor.Encode(refcbor.Map(refcbor.Int(1), refcbor.Int(-7)))), big, refcbor.Bstr([]byte("p")), refcbor.Bstr(make([]byte, 64)))))
			kind = "large:Sign1Message"
		}
		r.Op("LARGE", "%d header labels, %d bytes", n, len(input))
		r.Probe("large-header-map")
	default:
		// hash envelope
		k := pickCheapKey(t)
		p := cose.HashEnvelopePayload{HashAlgorithm: cose.AlgorithmSHA256, HashValue: t.Bytes(32, "env.digest")}
		if t.Bool(1, 2, "env.ct") {
			p.PreimageContentType = "a/b"
		}
		signer := r.signerFor(k, false)
		var env []byte
		var err error
		r.Lib(func() {
			env, err = cose.SignHashEnvelope(ent, signer, libHeaders(envelopeSafe(genLayer(t, LayerOpts{MaxExtra: 2})), Spelling{T: t}, true), p)
		})
		if err != nil {
			r.Outcome("envelope-refused")
			return
		}
		input = env
		r.Op("ENVELOPE", "key=%s", k.Name)
		if t.Bool(1, 3, "c06.env.byzantine") {
			// an envelope from a byzantine issuer: validly signed, verified below
			// with the right key, so that everything VerifyHashEnvelope does
			// AFTER the signature check is reached - with a hash algorithm at
			// the far ends of the integer range, an odd digest length
			a := k.Alg
			layer := envelopeSafe(genLayer(t, LayerOpts{MaxExtra: 2, Alg: &a}))
			has := []int64{-1 << 63, 1<<63 - 1, -1<<63 + 1, -1 << 31, -1<<31 - 1, -1 << 32, 1 << 32, -16, -43, -44, -45, 0, -1, -256, -257, -65536, -65537, 24, -24, -25}
			layer.Prot = append(removeLabel(layer.Prot, 258), KV{refcbor.Int(258), refcbor.Int(has[t.Choose(len(has), "c06.env.byz.hash")])})
			if t.Bool(1, 3, "c06.env.byz.ct") {
				layer.Prot = append(removeLabel(layer.Prot, 259), KV{refcbor.Int(259), genContentType(t)})
			}
			spec := &MsgSpec{Kind: refcose.KSign1Tagged, Layer: dedupLayer(layer), Payload: t.Bytes([]int{0, 1, 20, 32, 48, 64, 65}[t.Choose(7, "c06.env.byz.len")], "c06.env.byz.digest"), Key: k}
			input = r.ForeignWire(t, spec, genKnobs(t), ent, false, 0, false).B
			forcedKey = k
			r.Fired("issuer.byzantine-envelope-validly-signed")
		} else {
			for i, nf := 0, 1+t.Choose(3, "c06.env.nfaults"); i < nf; i++ {
				if out, kd := fm.WireFault(t, input); kd != "" {
					input = out
					r.Fired(kd)
				}
			}
		}
		kind = "envelope"
	}
	r.Outcome("input:" + kind)
	r.Logf("input %x", input)

	vk := pickCheapKey(t)
	if forcedKey != nil {
		vk = forcedKey
	}
	verifier := r.verifierFor(vk, false)
	signer := r.signerFor(vk, false)
	accepted := 0
	for i := range Decoders {
		dec := &Decoders[i]
		dst := dec.New()
		var err error
		r.c06Call(dec.Name+".UnmarshalCBOR", input, func() { err = dec.Into(dst, input) })
		r.Logf("%s: %s", dec.Name, errTag(err))
		if err != nil {
			// what every caller does next with a refusal: read it
			r.c06Call(dec.Name+".UnmarshalCBOR: Error() of the returned error", input, func() { _ = err.Error() })
			continue
		}
		accepted++
		r.Outcome("accepted-by:" + dec.Name)
		r.Check()
		c06FollowUps(r, t, dec.Name, dst, input, verifier, signer, ent)
	}
	var env *cose.Sign1Message
	var eerr error
	r.c06Call("VerifyHashEnvelope", input, func() { env, eerr = cose.VerifyHashEnvelope(verifier, input) })
	if eerr != nil {
		r.c06Call("VerifyHashEnvelope: Error() of the returned error", input, func() { _ = eerr.Error() })
	}
	if eerr == nil && env != nil {
		r.Outcome("accepted-by:VerifyHashEnvelope")
		r.Check()
		c06FollowUps(r, t, "Sign1Message", env, input, verifier, signer, ent)
	}
	// a verifier whose algorithm follows the header, so that the verify path
	// goes past the algorithm check
	if accepted > 0 {
		r.Probe("follow-ups-ran")
	}
}

// anyAlgVerifier / anyAlgSigner adopt whatever algorithm a header names so
// that Verify / Sign get past the algorithm check into ToBeSigned.
func algOfHeaders(h *cose.Headers, fallback cose.Algorithm) cose.Algorithm {
	var a cose.Algorithm
	var err error
	if lp := call(func() { a, err = h.Protected.Algorithm() }); lp == nil && err == nil {
		return a
	}
	return fallback
}

func c06FollowUps(r *Run, t *tape.Tape, decName string, dst any, input []byte, verifier cose.Verifier, signer cose.Signer, ent *Entropy) {
	ext := []byte("x")
	spyV := func(h *cose.Headers) cose.Verifier {
		return &SpyVerifier{Alg: algOfHeaders(h, verifier.Algorithm()), Fault: "accept"}
	}
	headerOps := func(name string, h *cose.Headers) {
		r.c06Call(name+".Protected.Algorithm", input, func() { h.Protected.Algorithm() })
		r.c06Call(name+".Protected.Critical", input, func() { h.Protected.Critical() })
		r.c06Call(name+".Protected.PayloadHashAlgorithm", input, func() { h.Protected.PayloadHashAlgorithm() })
		r.c06Call(name+".MarshalProtected", input, func() { h.MarshalProtected() })
		r.c06Call(name+".MarshalUnprotected", input, func() { h.MarshalUnprotected() })
		r.c06Call(name+".UnmarshalFromRaw", input, func() {
			c := cose.Headers{RawProtected: h.RawProtected, RawUnprotected: h.RawUnprotected}
			c.UnmarshalFromRaw()
		})
	}
	countersign := func(name string, parent any) {
		r.c06Call("Countersign0("+name+")", input, func() {
			if sig, err := cose.Countersign0(ent, signer, parent, nil); err == nil {
				cose.VerifyCountersign0(verifier, parent, nil, sig)
			}
		})
		r.c06Call("Countersignature.Sign("+name+")", input, func() {
			cs := cose.NewCountersignature()
			if err := cs.Sign(ent, signer, parent, nil); err == nil {
				cs.Verify(verifier, parent, nil)
				cs.MarshalCBOR()
			}
		})
	}
	var nested func(name string, h *cose.Headers, parent any, depth int)
	nested = func(name string, h *cose.Headers, parent any, depth int) {
		if depth > 6 {
			return
		}
		for _, label := range []int64{7, 11} {
			var list []*cose.Countersignature
			switch v := h.Unprotected[label].(type) {
			case *cose.Countersignature:
				list = []*cose.Countersignature{v}
			case []*cose.Countersignature:
				list = v
			}
			for i, cs := range list {
				n := fmt.Sprintf("%s.csig[%d][%d]", name, label, i)
				r.c06Call(n+".Verify", input, func() { cs.Verify(verifier, parent, nil) })
				r.c06Call(n+".Verify(alg-following)", input, func() {
					if cs != nil {
						cs.Verify(spyV(&cs.Headers), parent, ext)
					}
				})
				r.c06Call(n+".MarshalCBOR", input, func() { cs.MarshalCBOR() })
				if cs != nil {
					headerOps(n, &cs.Headers)
					countersign(n, cs)
					nested(n, &cs.Headers, cs, depth+1)
				}
			}
		}
		for _, label := range []int64{9, 12} {
			if sig, ok := h.Unprotected[label].([]byte); ok {
				r.c06Call(fmt.Sprintf("VerifyCountersign0(%s)[%d]", name, label), input, func() { cose.VerifyCountersign0(verifier, parent, nil, sig) })
			}
		}
	}
	sign1 := func(name string, m *cose.Sign1Message) {
		r.c06Call(name+".MarshalCBOR", input, func() { m.MarshalCBOR() })
		r.c06Call(name+".MarshalCBOR(untagged)", input, func() { (*cose.UntaggedSign1Message)(m).MarshalCBOR() })
		r.c06Call(name+".Verify", input, func() { m.Verify(nil, verifier) })
		r.c06Call(name+".Verify(alg-following)", input, func() { m.Verify(ext, spyV(&m.Headers)) })
		r.c06Call(name+".Sign(again)", input, func() { m.Sign(ent, nil, signer) })
		headerOps(name, &m.Headers)
		countersign(name, m)
		countersign(name+"(value)", *m)
		nested(name, &m.Headers, m, 0)
		r.c06Call(name+".MarshalCBOR(no raw)", input, func() {
			c := *m
			c.Headers.RawProtected, c.Headers.RawUnprotected = nil, nil
			c.MarshalCBOR()
		})
		r.c06Call(name+".Verify(no raw)", input, func() {
			c := *m
			c.Headers.RawProtected = nil
			c.Verify(ext, spyV(&c.Headers))
		})
	}
	sigOps := func(name string, s *cose.Signature) {
		r.c06Call(name+".MarshalCBOR", input, func() { s.MarshalCBOR() })
		r.c06Call(name+".Verify", input, func() { s.Verify(verifier, []byte{0x40}, []byte("p"), nil) })
		r.c06Call(name+".Verify(alg-following)", input, func() { s.Verify(spyV(&s.Headers), []byte{0x41, 0xa0}, []byte("p"), ext) })
		r.c06Call(name+".Verify(bad body)", input, func() { s.Verify(spyV(&s.Headers), []byte{0x58}, []byte("p"), ext) })
		headerOps(name, &s.Headers)
		countersign(name, s)
		nested(name, &s.Headers, s, 0)
	}
	switch v := dst.(type) {
	case *cose.Sign1Message:
		sign1(decName, v)
	case *cose.UntaggedSign1Message:
		sign1(decName, (*cose.Sign1Message)(v))
		// the untagged type itself handed over as a countersignature parent
		// (not one of the documented parent types: an error is expected)
		countersign(decName+"(as UntaggedSign1Message)", v)
		countersign(decName+"(as UntaggedSign1Message value)", *v)
	case *cose.SignMessage:
		r.c06Call("SignMessage.MarshalCBOR", input, func() { v.MarshalCBOR() })
		vs := make([]cose.Verifier, len(v.Signatures))
		vs2 := make([]cose.Verifier, len(v.Signatures))
		for i := range vs {
			vs[i] = verifier
			if v.Signatures[i] != nil {
				vs2[i] = spyV(&v.Signatures[i].Headers)
			} else {
				vs2[i] = verifier
			}
		}
		r.c06Call("SignMessage.Verify", input, func() { v.Verify(nil, vs...) })
		r.c06Call("SignMessage.Verify(alg-following)", input, func() { v.Verify(ext, vs2...) })
		r.c06Call("SignMessage.Verify(one verifier)", input, func() { v.Verify(nil, verifier) })
		r.c06Call("SignMessage.Sign(again)", input, func() {
			ss := make([]cose.Signer, len(v.Signatures))
			for i := range ss {
				ss[i] = signer
			}
			v.Sign(ent, nil, ss...)
		})
		headerOps("SignMessage", &v.Headers)
		countersign("SignMessage", v)
		countersign("SignMessage(value)", *v)
		nested("SignMessage", &v.Headers, v, 0)
		for i, s := range v.Signatures {
			if s != nil {
				sigOps(fmt.Sprintf("SignMessage.Signatures[%d]", i), s)
			}
		}
		r.c06Call("SignMessage.MarshalCBOR(no raw)", input, func() {
			c := *v
			c.Headers.RawProtected, c.Headers.RawUnprotected = nil, nil
			c.MarshalCBOR()
		})
	case *cose.Signature:
		sigOps("Signature", v)
	case *cose.Countersignature:
		sigOps("Countersignature", (*cose.Signature)(v))
		r.c06Call("Countersignature.MarshalCBOR", input, func() { v.MarshalCBOR() })
		parent := &cose.Sign1Message{Payload: []byte("p"), Signature: []byte{1}}
		r.c06Call("Countersignature.Verify", input, func() { v.Verify(verifier, parent, nil) })
		r.c06Call("Countersignature.Verify(alg-following)", input, func() { v.Verify(spyV(&v.Headers), parent, ext) })
		r.c06Call("Countersignature.Verify(unsupported parent)", input, func() { v.Verify(spyV(&v.Headers), 42, ext) })
	case *cose.ProtectedHeader:
		r.c06Call("ProtectedHeader.MarshalCBOR", input, func() { v.MarshalCBOR() })
		r.c06Call("ProtectedHeader.Algorithm", input, func() { v.Algorithm() })
		r.c06Call("ProtectedHeader.Critical", input, func() { v.Critical() })
		r.c06Call("ProtectedHeader.PayloadHashAlgorithm", input, func() { v.PayloadHashAlgorithm() })
		r.c06Call("ProtectedHeader as message header", input, func() {
			m := &cose.Sign1Message{Headers: cose.Headers{Protected: *v}, Payload: []byte("p")}
			if err := m.Sign(ent, ext, &SpySigner{Inner: signer, Alg: algOfHeaders(&m.Headers, signer.Algorithm())}); err == nil {
				m.MarshalCBOR()
			}
		})
	case *cose.UnprotectedHeader:
		r.c06Call("UnprotectedHeader.MarshalCBOR", input, func() { v.MarshalCBOR() })
		h := &cose.Headers{Unprotected: *v}
		nested("UnprotectedHeader", h, &cose.Sign1Message{Payload: []byte("p"), Signature: []byte{1}}, 0)
		r.c06Call("UnprotectedHeader as message header", input, func() {
			m := &cose.Sign1Message{Headers: cose.Headers{Unprotected: *v}, Payload: []byte("p")}
			if err := m.Sign(ent, nil, signer); err == nil {
				m.MarshalCBOR()
			}
		})
	case *cose.Key:
		c06KeyFollowUps(r, v, input, ent)
	}
}

func c06KeyFollowUps(r *Run, k *cose.Key, input []byte, ent *Entropy) {
	r.c06Call("Key.MarshalCBOR", input, func() { k.MarshalCBOR() })
	r.c06Call("Key.PublicKey", input, func() { k.PublicKey() })
	r.c06Call("Key.PrivateKey", input, func() { k.PrivateKey() })
	r.c06Call("Key.AlgorithmOrDefault", input, func() { k.AlgorithmOrDefault() })
	r.c06Call("Key.EC2", input, func() { k.EC2() })
	r.c06Call("Key.OKP", input, func() { k.OKP() })
	r.c06Call("Key.Symmetric", input, func() { k.Symmetric() })
	for _, l := range []any{int64(-1), int64(-2), int64(-3), int64(-4), int64(-70000), "note"} {
		r.c06Call("Key.Param*", input, func() {
			k.ParamBytes(l)
			k.ParamInt(l)
			k.ParamUint(l)
			k.ParamString(l)
			k.ParamBool(l)
		})
	}
	var s cose.Signer
	var v cose.Verifier
	r.c06Call("Key.Signer", input, func() { s, _ = k.Signer() })
	r.c06Call("Key.Verifier", input, func() { v, _ = k.Verifier() })
	var sig []byte
	if s != nil {
		r.c06Call("Key.Signer().Sign", input, func() { sig, _ = s.Sign(ent, []byte("content")) })
		r.Probe("key-signer-obtained")
	}
	if v != nil {
		r.c06Call("Key.Verifier().Verify", input, func() { v.Verify([]byte("content"), sig) })
		r.c06Call("Key.Verifier().Verify(garbage)", input, func() { v.Verify([]byte("content"), []byte{1, 2, 3}) })
		r.Probe("key-verifier-obtained")
	}
}
