package sim

import (
	"bytes"
	"fmt"

	cose "github.com/veraison/go-cose"

	"verif/refcbor"
	"verif/refcose"
	"verif/tape"
)

func init() {
	Scenarios["C10"] = scenarioC10
	Infos["C10"] = ScenarioInfo{
		Level: "exploration",
		Rule: "one run = a notary countersigns one parent through a recording signer: parent kind in {Sign1Message, SignMessage, Signature, Countersignature} x pointer/value x full/abbreviated x constructed in memory / decoded from wire bytes " +
			"(go-cose's own or the foreign peer's non-deterministic encoding, so that raw protected bytes differ from any re-encoding). Structure: the recorded ToBeSigned must equal the reference Countersign_structure " +
			"[context, parent protected bytes, countersigner protected bytes, external, payload(, [parent signature])] with the context the statement gives per parent kind and form. Binding: the countersignature verifies against its exact parent; " +
			"then the parent crosses a faulty channel (one fault from the byte/structural catalogue, a splice, a benign unprotected edit) or the external data changes, and the verdict must equal the reference verdict over the received parent " +
			"(unchanged signed fields => still verifies, changed => error); it is offered as a message signature and as the other countersignature form (must fail); unsigned and payload-less parents must be refused by Sign and Verify without a call at the seam. " +
			"Full countersignatures that ARRIVED with a decoded message are verified through a spy: bytes at the verifier's seam == reference structure over the wire bytes, verdict acceptance. " +
			"Non-trivial = a countersignature was made and judged; distinct = distinct (parent kind, form, constructed/decoded, fault kinds, outcomes) sequence.",
		Assumptions: []string{"for the abbreviated forms the statement fixes contexts and parent fields only: the reference accepts the countersigner-protected slot being h'' or omitted (RFC 9338 section 3.3 vs go-cose; DESIGN section 5)", "Go crypto primitives are correct"},
		Real:        []string{"github.com/veraison/go-cose (countersign.go, decoders, built-in signers/verifiers)", "github.com/fxamacker/cbor/v2", "Go crypto"},
		Stubs:       []string{"cose.Signer recording wrapper", "wire between issuer and notary with fault injection", "foreign peer (reference model)", "entropy source"},
		QuickRuns:   200000, ThoroughRuns: 2500000,
	}
}

// refParent is what the reference model reads of a parent from wire bytes.
type refParent struct {
	Kind    refcose.ParentKind
	Prot    []byte // content of the parent's protected bstr
	Payload []byte // payload (messages) or signature (signature objects)
	Sig     []byte // Sign1: parent signature
	Signed  bool   // parent has a (non-empty) signature / at least one signature
	HasPay  bool   // message parents: payload present
}

// parentPath names a parent inside a message: the message itself
// (SigIdx < 0, Csig == nil), COSE_Signature SigIdx, or a full
// countersignature attached to one of those.
type parentPath struct {
	SigIdx int
	Csig   *CsigNode
}

func (p parentPath) String() string {
	s := "message"
	if p.SigIdx >= 0 {
		s = fmt.Sprintf("Signature[%d]", p.SigIdx)
	}
	if p.Csig != nil {
		s += fmt.Sprintf(".countersignature[%d][%d]", p.Csig.Label, p.Csig.Index)
	}
	return s
}

// refParentAt navigates the wire bytes.
func refParentAt(kind refcose.Kind, wire []byte, p parentPath) (*refParent, error) {
	m, err := refcose.ParseMsg(kind, wire)
	if err != nil {
		return nil, err
	}
	layer := m.Layer
	rp := &refParent{}
	if p.SigIdx >= 0 {
		if p.SigIdx >= len(m.Sigs) {
			return nil, fmt.Errorf("signature %d absent", p.SigIdx)
		}
		s := m.Sigs[p.SigIdx]
		layer = s.Layer
		rp.Kind, rp.Prot, rp.Payload, rp.Signed, rp.HasPay = refcose.PSignature, s.ProtBstr.Data, s.Signature.Data, len(s.Signature.Data) > 0, true
	} else if kind == refcose.KSignTagged {
		rp.Kind, rp.Prot, rp.Signed = refcose.PSign, m.ProtBstr.Data, len(m.Sigs) > 0
		if m.Payload.Major == refcbor.MBstr {
			rp.Payload, rp.HasPay = m.Payload.Data, true
		}
	} else {
		rp.Kind, rp.Prot, rp.Sig, rp.Signed = refcose.PSign1, m.ProtBstr.Data, m.Signature.Data, len(m.Signature.Data) > 0
		if m.Payload.Major == refcbor.MBstr {
			rp.Payload, rp.HasPay = m.Payload.Data, true
		}
	}
	if p.Csig != nil {
		v := refcose.Lookup(layer.Unprot, p.Csig.Label)
		if v == nil || v.Major != refcbor.MArray {
			return nil, fmt.Errorf("countersignature label %d absent", p.Csig.Label)
		}
		obj := v
		if !(len(v.Elems) == 3 && v.Elems[0].Major == refcbor.MBstr) {
			if p.Csig.Index >= len(v.Elems) {
				return nil, fmt.Errorf("countersignature index %d absent", p.Csig.Index)
			}
			obj = v.Elems[p.Csig.Index]
		} else if p.Csig.Index != 0 {
			return nil, fmt.Errorf("countersignature index %d absent", p.Csig.Index)
		}
		s, err := refcose.ParseSig(obj)
		if err != nil {
			return nil, err
		}
		rp = &refParent{Kind: refcose.PCountersignature, Prot: s.ProtBstr.Data, Payload: s.Signature.Data, Signed: len(s.Signature.Data) > 0, HasPay: true}
	}
	return rp, nil
}

// libParentAt navigates go-cose values the same way.
func libParentAt(m1 *cose.Sign1Message, ms *cose.SignMessage, p parentPath) (any, *cose.Headers) {
	var arg any
	var h *cose.Headers
	switch {
	case p.SigIdx >= 0:
		if ms == nil || p.SigIdx >= len(ms.Signatures) || ms.Signatures[p.SigIdx] == nil {
			return nil, nil
		}
		arg, h = ms.Signatures[p.SigIdx], &ms.Signatures[p.SigIdx].Headers
	case ms != nil:
		arg, h = ms, &ms.Headers
	case m1 != nil:
		arg, h = m1, &m1.Headers
	default:
		return nil, nil
	}
	if p.Csig != nil {
		cs := findCountersignature(h, p.Csig.Label, p.Csig.Index)
		if cs == nil {
			return nil, nil
		}
		return cs, &cs.Headers
	}
	return arg, h
}

func byValue(arg any) any {
	switch v := arg.(type) {
	case *cose.Sign1Message:
		return *v
	case *cose.SignMessage:
		return *v
	case *cose.Signature:
		return *v
	case *cose.Countersignature:
		return *v
	}
	return arg
}

func inSet(b []byte, set [][]byte) bool {
	for _, s := range set {
		if bytes.Equal(b, s) {
			return true
		}
	}
	return false
}

// c10Made is a countersignature the notary made, with what is needed to
// judge later verifications.
type c10Made struct {
	abbrev   bool
	full     *cose.Countersignature
	sig      []byte
	signProt []byte // content of the countersigner's protected bstr (full form)
	protAlg  *refcbor.Item
	key      *KeyPair
	external []byte
}

// refVerdict decides, from the reference reading of a parent, whether the
// countersignature must verify.
func (c *c10Made) refVerdict(rp *refParent, key *KeyPair, external []byte) (bool, string) {
	switch {
	case !rp.Signed:
		return false, "parent unsigned"
	case !rp.HasPay:
		return false, "payload missing"
	case len(c.sig) == 0:
		return false, "empty signature"
	}
	if !c.abbrev {
		if why := algRule(c.protAlg, key.Alg, external); why != "" {
			return false, why
		}
	}
	for _, tbs := range refcose.CountersignStructures(rp.Kind, c.abbrev, rp.Prot, c.signProt, external, rp.Payload, rp.Sig) {
		if refcose.ValidSignature(key.Alg, key.Pub, tbs, c.sig) {
			return true, ""
		}
	}
	return false, "signature cryptographically invalid"
}

func (c *c10Made) libVerify(r *Run, verifier cose.Verifier, parent any, external []byte) error {
	var err error
	if c.abbrev {
		r.Lib(func() { err = cose.VerifyCountersign0(verifier, parent, external, c.sig) })
	} else {
		r.Lib(func() { err = c.full.Verify(verifier, parent, external) })
	}
	return err
}

func scenarioC10(r *Run) {
	t := r.T
	if t.Bool(1, 8, "c10.refusals") {
		c10Refusals(r)
		return
	}
	ent := NewEntropy(uint64(t.U32("entropy.seed")))
	so := SpecOpts{MaxExtra: 4, MaxSigner: 3, Cheap: true, BigOK: bigOK(r, "c10.big")}
	foreign := t.Bool(2, 5, "c10.foreign")
	spec := genSpec(t, so)
	var w *Wire
	var is *Issued
	if foreign {
		w = r.ForeignWire(t, spec, genKnobs(t), ent, false, 1, false)
	} else {
		w, is = r.LibWire(t, spec, ent, false, 1, false)
		if w == nil {
			r.Outcome("no-traffic")
			return
		}
	}
	r.Op("ISSUE", "%s: %s", w.Desc, spec)
	constructed := !foreign && t.Bool(1, 2, "c10.constructed")
	var m1 *cose.Sign1Message
	var ms *cose.SignMessage
	if constructed {
		m1, ms = is.M1, is.MS
	} else {
		rc, err := r.Decode(spec.Kind, w.B)
		if err != nil {
			r.Outcome("parent-not-decodable") // C07's business
			return
		}
		m1, ms = rc.M1, rc.MS
	}
	// choose the parent
	path := parentPath{SigIdx: -1}
	if spec.Kind == refcose.KSignTagged && t.Bool(1, 2, "c10.parent.sig") {
		path.SigIdx = t.Choose(len(spec.Signers), "c10.parent.sigidx")
	}
	nodes := w.BodyCsigs
	if path.SigIdx >= 0 {
		nodes = w.SigCsigs[path.SigIdx]
	}
	var fulls []*CsigNode
	for _, n := range nodes {
		if !n.Abbrev {
			fulls = append(fulls, n)
		}
	}
	if len(fulls) > 0 && t.Bool(2, 3, "c10.parent.csig") {
		path.Csig = fulls[t.Choose(len(fulls), "c10.parent.csigidx")]
	}
	rp, err := refParentAt(spec.Kind, w.B, path)
	if err != nil {
		r.Skip("reference cannot navigate to the parent it issued: " + err.Error())
	}
	arg, _ := libParentAt(m1, ms, path)
	if arg == nil {
		r.Check()
		r.Fail("parent-lost-after-decode", "parent %s not found in the decoded message\nwire: %s", path, hexShort(w.B))
		return
	}
	valueForm := t.Bool(1, 2, "c10.byvalue")
	if valueForm {
		arg = byValue(arg)
	}
	abbrev := t.Bool(2, 5, "c10.abbrev")
	key := pickCheapKey(t)
	external := genExternal(t)
	inner := r.signerFor(key, false)
	spy := &SpySigner{Inner: inner, Alg: inner.Algorithm()}
	made := &c10Made{abbrev: abbrev, key: key, external: external}
	pkName := parentKindName(rp.Kind)
	form := "full"
	if abbrev {
		form = "abbreviated"
	}
	origin := "decoded"
	if constructed {
		origin = "constructed"
	}
	r.Op("COUNTERSIGN", "parent=%s (%s, %s, value=%v) form=%s key=%s external=%s", path, pkName, origin, valueForm, form, key.Name, extClass(external))
	r.Outcome(pkName + "/" + form + "/" + origin)
	var serr error
	if abbrev {
		r.Lib(func() { made.sig, serr = cose.Countersign0(ent, spy, arg, external) })
	} else {
		cs := cose.NewCountersignature()
		lo := LayerOpts{MaxExtra: 3}
		if len(external) == 0 || t.Bool(2, 3, "c10.alg") {
			a := key.Alg
			lo.Alg = &a
		}
		cs.Headers = libHeaders(genLayer(t, lo), Spelling{T: t, Labels: true, Values: true}, t.Bool(1, 2, "c10.typed"))
		r.Lib(func() { serr = cs.Sign(ent, spy, arg, external) })
		made.full, made.sig = cs, cs.Signature
		if serr == nil {
			var pb []byte
			var perr error
			r.Lib(func() { pb, perr = cs.Headers.MarshalProtected() })
			if perr != nil {
				r.Outcome("countersigner-protected-unencodable")
				return
			}
			alg, content, e := protAlgOnWire(pb)
			if e != nil {
				r.Outcome("countersigner-protected-unparsable")
				return
			}
			made.signProt, made.protAlg = content, alg
		}
	}
	r.Check()
	if serr != nil {
		r.Fail("countersign-refused/"+pkName+"/"+form+"/"+origin, "countersigning a signed parent with payload was refused: %v\nparent %s of %s", serr, path, hexShort(w.B))
		return
	}
	// structure at the seam
	if len(spy.Calls) != 1 {
		r.Fail("signer-call-count/"+form, "signer called %d times for one countersignature", len(spy.Calls))
		return
	}
	want := refcose.CountersignStructures(rp.Kind, abbrev, rp.Prot, made.signProt, external, rp.Payload, rp.Sig)
	if !inSet(spy.Calls[0].Content, want) {
		r.Fail("countersign-content-differs/"+pkName+"/"+form+"/"+origin,
			"ToBeSigned of the countersignature differs from the RFC 9338 Countersign_structure over the parent's wire bytes\n got: %s\nwant: %s\nparent %s of %s", hexShort(spy.Calls[0].Content), hexShort(want[0]), path, hexShort(w.B))
		return
	}
	if rp.Kind == refcose.PSign1 {
		r.Probe("v2-context-with-other-fields")
	}
	if it, e := refcbor.ParseOne(append(refcbor.Encode(refcbor.Bstr(rp.Prot)), []byte{}...)); e == nil && len(it.Data) > 0 && refcbor.IsCanonicalBytes(rp.Prot) != "" {
		r.Probe("decoded-parent-noncanonical")
	}
	// the usual order at a receiver: the message itself is verified first,
	// then its countersignatures - asking about the message must not change
	// what the countersignature covers (the parent's signature bytes, in
	// particular)
	if t.Bool(1, 2, "c10.parent.first") {
		vs := r.verifiersFor(spec, false)
		if ms != nil {
			r.Lib(func() { ms.Verify(spec.External, vs...) })
		} else if m1 != nil && len(vs) > 0 {
			r.Lib(func() { m1.Verify(spec.External, vs[0]) })
		}
		r.Fired("receiver.verifies-message-first")
	}
	// binding 1: verifies against the exact parent
	verifier := r.verifierFor(key, false)
	r.Check()
	if e := made.libVerify(r, verifier, arg, external); e != nil {
		r.Fail("countersignature-does-not-verify/"+pkName+"/"+form+"/"+origin, "a countersignature just made does not verify against its parent: %v", e)
		return
	}
	if len(external) == 0 {
		other := []byte{}
		if external != nil {
			other = nil
		}
		if e := made.libVerify(r, verifier, arg, other); e != nil {
			r.Fail("nil-vs-empty-external-differ/"+form, "countersignature made with %s external does not verify with the other spelling: %v", extClass(external), e)
		}
	}
	// binding 1b: the SAME parent object, its signature (or payload) replaced
	// in memory by another value of the same length - a message re-signed in
	// place, a relay's buffer refilled: the countersignature covered the old
	// bytes and must not verify against the new ones; with the old value back
	// it verifies again
	if obj, _ := libParentAt(m1, ms, path); obj != nil && t.Bool(1, 2, "c10.inplace") {
		var field *[]byte
		what := "signature"
		switch p := obj.(type) {
		case *cose.Sign1Message:
			field = &p.Signature
			if t.Bool(1, 3, "c10.inplace.payload") && len(p.Payload) > 0 {
				field, what = &p.Payload, "payload"
			}
		case *cose.SignMessage:
			if len(p.Payload) > 0 {
				field, what = &p.Payload, "payload"
			}
		case *cose.Signature:
			field = &p.Signature
		case *cose.Countersignature:
			field = &p.Signature
		}
		if field != nil && len(*field) > 0 {
			old := *field
			repl := append([]byte{}, old...)
			repl[t.Choose(len(repl), "c10.inplace.pos")] ^= 1 << uint(t.Choose(8, "c10.inplace.bit"))
			*field = repl
			a2 := obj
			if valueForm {
				a2 = byValue(obj)
			}
			e := made.libVerify(r, verifier, a2, external)
			*field = old
			r.Check()
			if e == nil {
				r.Fail("countersignature-verifies-after-parent-changed-in-memory/"+pkName+"/"+form, "the parent object's %s was replaced by another value of the same length (one bit differs); the countersignature made over the old value still verifies", what)
				return
			}
			if e := made.libVerify(r, verifier, arg, external); e != nil {
				r.Fail("countersignature-does-not-verify/"+pkName+"/"+form+"/after-restoring-parent", "with the parent's %s put back, the countersignature no longer verifies: %v", what, e)
				return
			}
			r.Fired("app.parent-field-replaced-in-memory")
		}
	}
	// a COSE_Sign parent that is still collecting signatures: a holder whose
	// signer has not signed yet sits in the list.  The countersignature covers
	// the body, not the signer entries: it verifies (and can be made) all the
	// same, as long as the message carries at least one signature.
	if pms, ok := arg.(*cose.SignMessage); ok && len(pms.Signatures) > 0 {
		cp := *pms
		cp.Signatures = append(append([]*cose.Signature{}, pms.Signatures...), cose.NewSignature())
		r.Check()
		if e := made.libVerify(r, verifier, &cp, external); e != nil {
			r.Fail("countersignature-depends-on-unsigned-holder/"+form, "a COSE_Sign parent with one more, not yet signed, signature holder: the countersignature over the body no longer verifies: %v", e)
			return
		}
		cs2 := cose.NewCountersignature()
		cs2.Headers.Protected[cose.HeaderLabelAlgorithm] = cose.Algorithm(key.Alg)
		var e2 error
		r.Lib(func() { e2 = cs2.Sign(ent, inner, &cp, external) })
		if e2 != nil {
			r.Fail("countersignature-depends-on-unsigned-holder/"+form, "a COSE_Sign parent with one more, not yet signed, signature holder cannot be countersigned: %v", e2)
			return
		}
		r.Probe("parent-with-unsigned-holder")
	}
	// indifference to the parent's unprotected headers, in memory: whatever
	// sits in the parent's unprotected bucket at that moment (entries the
	// encoder would refuse, a not-yet-signed countersignature holder) must not
	// matter, because that bucket is not covered
	if _, ph := libParentAt(m1, ms, path); ph != nil && (constructed || len(ph.RawProtected) > 0) {
		saved := ph.Unprotected
		savedRaw := ph.RawUnprotected
		savedProt := ph.Protected
		if len(ph.RawProtected) > 0 && t.Bool(1, 2, "c10.junk.rawonly") {
			// a parent held as raw protected bytes only (a store that keeps
			// the covered bytes and rebuilds the rest)
			ph.Protected = nil
			r.Fired("app.parent-raw-only-protected")
		}
		defer func() { ph.Protected = savedProt }()
		junk := cose.UnprotectedHeader{}
		for k, v := range saved {
			junk[k] = v
		}
		switch t.Choose(4, "c10.junk") {
		case 0:
			junk[cose.HeaderLabelKeyID] = "a text kid is not encodable"
		case 1:
			junk[cose.HeaderLabelCritical] = []any{int64(4)}
		case 2:
			junk[cose.HeaderLabelCounterSignatureV2] = cose.NewCountersignature() // holder attached before it is signed
		default:
			junk[cose.HeaderLabelCounterSignature0] = 42
		}
		ph.Unprotected, ph.RawUnprotected = junk, nil
		r.Check()
		e := made.libVerify(r, verifier, arg, external)
		var e2 error
		if e == nil {
			cs2 := cose.NewCountersignature()
			a := key.Alg
			cs2.Headers.Protected[cose.HeaderLabelAlgorithm] = cose.Algorithm(a)
			r.Lib(func() { e2 = cs2.Sign(ent, inner, arg, external) })
		}
		ph.Unprotected, ph.RawUnprotected, ph.Protected = saved, savedRaw, savedProt
		if e != nil || e2 != nil {
			r.Fail("countersignature-depends-on-parent-unprotected/"+pkName+"/"+form, "with an unencodable entry in the parent's UNPROTECTED bucket: Verify of an existing countersignature %v, making a new one %v", e, e2)
			return
		}
		r.Probe("parent-unprotected-junk-ignored")
	}
	// the countersignatures the message ARRIVED with (decoded objects: made by
	// the foreign peer with wider-than-needed heads on their own protected
	// bucket, or by go-cose): what reaches the verifier's seam for each is the
	// deterministic structure over the wire bytes, and each verifies against
	// the parent it was made over
	if !constructed && path.Csig == nil && len(nodes) > 0 && t.Bool(2, 3, "c10.arrived") {
		for _, n := range nodes {
			if n.Abbrev {
				continue
			}
			np := parentPath{SigIdx: path.SigIdx, Csig: n}
			rcs, e1 := refParentAt(spec.Kind, w.B, np)
			obj, _ := libParentAt(m1, ms, np)
			lcs, _ := obj.(*cose.Countersignature)
			if e1 != nil || lcs == nil {
				continue // C07 reports countersignatures lost in decoding
			}
			sv := &SpyVerifier{Inner: r.verifierFor(n.Key, false), Alg: cose.Algorithm(n.Key.Alg)}
			var verr error
			parentArg := arg
			r.Lib(func() { verr = lcs.Verify(sv, parentArg, n.External) })
			r.Check()
			want := refcose.CountersignStructures(rp.Kind, false, rp.Prot, rcs.Prot, n.External, rp.Payload, rp.Sig)
			if len(sv.Calls) > 0 && !inSet(sv.Calls[0].Content, want) {
				r.Fail("countersign-content-differs/"+pkName+"/full/arrived", "verifying a countersignature that arrived with the message (label %d index %d): the bytes handed to the verifier differ from the RFC 9338 Countersign_structure over the wire bytes\n got: %s\nwant: %s\nwire: %s", n.Label, n.Index, hexShort(sv.Calls[0].Content), hexShort(want[0]), hexShort(w.B))
				return
			}
			if verr != nil {
				r.Fail("arrived-countersignature-does-not-verify/"+pkName, "a countersignature that arrived with the message (label %d index %d, issued by %s) does not verify against the parent it was made over: %v\nwire: %s", n.Label, n.Index, w.Desc, verr, hexShort(w.B))
				return
			}
			r.Probe("arrived-countersignature-structure-compared")
		}
	}
	// binding 2: the parent crosses a faulty channel
	for round, rounds := 0, 1+t.Choose(3, "c10.rounds"); round < rounds; round++ {
		c10Mutation(r, t, w, spec, path, made, verifier, ent)
	}
	// binding 3: replay as a message signature / as the other form
	c10Replays(r, t, made, arg, rp, verifier)
}

// c10Mutation sends the parent's wire form through one fault, decodes it,
// and compares go-cose's verdict with the reference verdict.
func c10Mutation(r *Run, t *tape.Tape, w *Wire, spec *MsgSpec, path parentPath, made *c10Made, verifier cose.Verifier, ent *Entropy) {
	wire := w.B
	kind := ""
	switch t.Pick([]int{5, 2, 2, 1}, "c10.mut.class") {
	case 0:
		fm := GenFaultMix(t)
		wire, kind = fm.WireFault(t, wire)
	case 1:
		if out, k, ok := StructFault(t, wire, "unprot-edit"); ok {
			wire, kind = out, k
		}
	case 2:
		donor := r.GenWire(t, TrafficOpts{Spec: SpecOpts{MaxExtra: 2, MaxSigner: 2, Cheap: true}, CsigDepth: 1, ForeignPct: 40}, ent)
		if donor != nil {
			if out, what, ok := Splice(t, wire, donor.B); ok {
				wire, kind = out, what
			}
		}
	default:
	}
	if kind != "" {
		r.Fired(kind)
	}
	external := made.external
	key := made.key
	if t.Bool(1, 5, "c10.mut.ext") {
		external = genExternal(t)
		if !bytes.Equal(external, made.external) {
			r.Fired("verifier.external-changed")
		}
	}
	v := verifier
	if t.Bool(1, 8, "c10.mut.key") {
		if o := otherKey(t, made.key, true); o != nil {
			key = o
			v = r.verifierFor(o, false)
			r.Fired("verifier.key-substituted")
		}
	}
	rc, err := r.Decode(spec.Kind, wire)
	if err != nil {
		r.Outcome("mutated-parent-not-decodable")
		return
	}
	arg, _ := libParentAt(rc.M1, rc.MS, path)
	rp, perr := refParentAt(spec.Kind, wire, path)
	if arg == nil || perr != nil {
		r.Outcome("mutated-parent-lost")
		return
	}
	if t.Bool(1, 2, "c10.byvalue") {
		arg = byValue(arg)
	}
	lib := made.libVerify(r, v, arg, external)
	want, why := made.refVerdict(rp, key, external)
	r.Op("VERIFY", "countersignature against parent after %q: %s", kind, errTag(lib))
	r.Check()
	form := "full"
	if made.abbrev {
		form = "abbreviated"
	}
	if (lib == nil) != want {
		if lib == nil {
			r.Fail("countersignature-verifies-against-changed-parent/"+parentKindName(rp.Kind)+"/"+form+"/"+whyClass(why),
				"verification returned nil although the countersignature is not valid over the received parent and external data (%s)\nfault: %s\nreceived: %s\noriginal: %s", why, kind, hexShort(wire), hexShort(w.B))
		} else {
			r.Fail("countersignature-rejected-after-benign-change/"+parentKindName(rp.Kind)+"/"+form,
				"verification returned %v although protected bytes, payload, signature and external data of the parent are as signed\nfault: %s\nreceived: %s\noriginal: %s", lib, kind, hexShort(wire), hexShort(w.B))
		}
		return
	}
	if lib == nil {
		r.Outcome("still-verifies")
		if !bytes.Equal(wire, w.B) {
			r.Probe("parent-benign-change-verifies")
		}
	} else {
		r.Outcome("refused:" + whyClass(why))
		r.Probe("parent-change-refused")
	}
}

// c10Replays offers the countersignature bytes where they must not work.
func c10Replays(r *Run, t *tape.Tape, made *c10Made, parent any, rp *refParent, verifier cose.Verifier) {
	r.Check()
	// as the other countersignature form
	var err error
	if made.abbrev {
		cs := &cose.Countersignature{Signature: made.sig}
		ext := made.external
		if len(ext) == 0 {
			// a full countersignature without alg needs external data to get
			// past the algorithm rule; use the protected alg instead
			cs.Headers.Protected = cose.ProtectedHeader{cose.HeaderLabelAlgorithm: cose.Algorithm(made.key.Alg)}
		}
		r.Lib(func() { err = cs.Verify(verifier, parent, ext) })
		if err == nil {
			r.Fail("abbreviated-countersignature-accepted-as-full", "an abbreviated countersignature verified as a full countersignature")
		}
	} else {
		r.Lib(func() { err = cose.VerifyCountersign0(verifier, parent, made.external, made.sig) })
		if err == nil {
			r.Fail("full-countersignature-accepted-as-abbreviated", "a full countersignature's signature verified as an abbreviated countersignature")
		}
	}
	// a countersignature made the pre-RFC 9338 way over a COSE_Sign1 (context
	// "CounterSignature", no other_fields: the parent's signature is not
	// covered) by the genuine countersigner must not be taken for one that
	// covers the parent's signature
	if rp.Kind == refcose.PSign1 && made.full != nil && rp.Signed && rp.HasPay {
		legacy := refcose.CountersignStructures(refcose.PSign, false, rp.Prot, made.signProt, made.external, rp.Payload, nil)[0]
		sig := foreignSign(made.key, legacy, NewEntropy(3))
		csL := &cose.Countersignature{Headers: made.full.Headers, Signature: sig}
		var lerr error
		r.Lib(func() { lerr = csL.Verify(verifier, parent, made.external) })
		if lerr == nil {
			r.Fail("legacy-structure-countersignature-accepted/Sign1", "a signature by the countersigner over the RFC 8152 structure (no other_fields, parent signature not covered) verified as an RFC 9338 countersignature of a COSE_Sign1")
			return
		}
		r.Probe("replay-legacy-structure")
	}
	// as a message signature over the same parent fields
	switch p := parent.(type) {
	case *cose.Sign1Message, cose.Sign1Message:
		var src cose.Sign1Message
		if pp, ok := p.(*cose.Sign1Message); ok {
			src = *pp
		} else {
			src = p.(cose.Sign1Message)
		}
		m := cose.Sign1Message{Headers: src.Headers, Payload: src.Payload, Signature: made.sig}
		r.Lib(func() {
			err = m.Verify(made.external, &SpyVerifier{Inner: verifier, Alg: algOfHeaders(&m.Headers, verifier.Algorithm())})
		})
		if err == nil {
			r.Fail("countersignature-accepted-as-message-signature/Sign1", "a countersignature's bytes verified as the COSE_Sign1 signature of its parent")
		}
		r.Probe("replay-as-sign1-signature")
	case *cose.SignMessage, cose.SignMessage:
		var src cose.SignMessage
		if pp, ok := p.(*cose.SignMessage); ok {
			src = *pp
		} else {
			src = p.(cose.SignMessage)
		}
		var bodyProt []byte
		var perr error
		r.Lib(func() { bodyProt, perr = src.Headers.MarshalProtected() })
		if perr == nil && made.full != nil {
			s := cose.Signature{Headers: made.full.Headers, Signature: made.sig}
			r.Lib(func() { err = s.Verify(verifier, bodyProt, src.Payload, made.external) })
			if err == nil {
				r.Fail("countersignature-accepted-as-message-signature/Sign", "a full countersignature over a COSE_Sign verified as one of its COSE_Signatures")
			}
			r.Probe("replay-as-cose-signature")
		}
	}
}

// c10Refusals: unsigned and payload-less parents are refused by Sign and
// Verify, and the seam sees no call.
func c10Refusals(r *Run) {
	t := r.T
	ent := NewEntropy(uint64(t.U32("entropy.seed")))
	key := pickCheapKey(t)
	a := key.Alg
	hdr := func() cose.Headers {
		return libHeaders(genLayer(t, LayerOpts{MaxExtra: 2, Alg: &a}), Spelling{T: t}, true)
	}
	type cand struct {
		name string
		arg  any
	}
	sig := []byte{1, 2, 3}
	emptySig := [][]byte{nil, {}}[t.Choose(2, "c10.ref.emptykind")]
	cands := []cand{
		{"Sign1-unsigned", &cose.Sign1Message{Headers: hdr(), Payload: []byte("p"), Signature: emptySig}},
		{"Sign1-payloadless", &cose.Sign1Message{Headers: hdr(), Payload: nil, Signature: sig}},
		{"Sign-no-signatures", &cose.SignMessage{Headers: hdr(), Payload: []byte("p")}},
		{"Sign-payloadless", &cose.SignMessage{Headers: hdr(), Payload: nil, Signatures: []*cose.Signature{{Headers: hdr(), Signature: sig}}}},
		{"Signature-unsigned", &cose.Signature{Headers: hdr(), Signature: emptySig}},
		{"Countersignature-unsigned", &cose.Countersignature{Headers: hdr(), Signature: emptySig}},
	}
	if t.Bool(1, 3, "c10.ref.failed-signing") {
		// parents whose signing FAILED: the application's signer answered with
		// bytes and an error (a device that reports a fault after it filled
		// the output buffer).  Sign said no, so the object is not signed - as
		// a parent it is refused like one that was never signed.
		failing := &SpySigner{Inner: r.signerFor(key, false), Alg: cose.Algorithm(key.Alg), Fault: "bytes+err", Tag: "parent"}
		parent := &cose.Sign1Message{Headers: hdr(), Payload: []byte("p"), Signature: sig}
		fm := &cose.Sign1Message{Headers: hdr(), Payload: []byte("p")}
		fs := &cose.Signature{Headers: hdr()}
		fc := &cose.Countersignature{Headers: hdr()}
		var e1, e2, e3 error
		r.Lib(func() { e1 = fm.Sign(ent, nil, failing) })
		r.Lib(func() { e2 = fs.Sign(ent, failing, []byte{0x40}, []byte("p"), nil) })
		r.Lib(func() { e3 = fc.Sign(ent, failing, parent, nil) })
		r.Fired("signer.bytes+err")
		if e1 != nil && e2 != nil && e3 != nil {
			cands = []cand{{"Sign1-signing-failed", fm}, {"Signature-signing-failed", fs}, {"Countersignature-signing-failed", fc}}
		}
	}
	c := cands[t.Choose(len(cands), "c10.ref.cand")]
	arg := c.arg
	if t.Bool(1, 2, "c10.byvalue") {
		arg = byValue(arg)
	}
	abbrev := t.Bool(1, 2, "c10.abbrev")
	external := genExternal(t)
	spy := &SpySigner{Inner: r.signerFor(key, false), Alg: cose.Algorithm(key.Alg)}
	spyV := &SpyVerifier{Alg: cose.Algorithm(key.Alg), Fault: "accept"}
	r.Op("COUNTERSIGN", "refusal candidate %s abbreviated=%v", c.name, abbrev)
	r.Outcome("refusal/" + c.name)
	var serr, verr error
	var out []byte
	if abbrev {
		r.Lib(func() { out, serr = cose.Countersign0(ent, spy, arg, external) })
		r.Lib(func() { verr = cose.VerifyCountersign0(spyV, arg, external, sig) })
	} else {
		cs := cose.NewCountersignature()
		cs.Headers = hdr()
		r.Lib(func() { serr = cs.Sign(ent, spy, arg, external) })
		out = cs.Signature
		vcs := &cose.Countersignature{Headers: hdr(), Signature: sig}
		r.Lib(func() { verr = vcs.Verify(spyV, arg, external) })
	}
	r.Check()
	if serr == nil || len(spy.Calls) > 0 || len(out) > 0 {
		r.Fail("unsigned-or-payloadless-parent-countersigned/"+c.name, "countersigning %s: err=%v, signer calls=%d, signature bytes=%d", c.name, serr, len(spy.Calls), len(out))
	}
	if verr == nil || len(spyV.Calls) > 0 {
		r.Fail("unsigned-or-payloadless-parent-verified/"+c.name, "verifying a countersignature against %s: err=%v, verifier calls=%d", c.name, verr, len(spyV.Calls))
	}
}
