package sim

import (
	"fmt"
	"strings"

	"verif/refcbor"
	"verif/refcose"
	"verif/tape"
)

func init() {
	Scenarios["C05"] = scenarioC05
	Infos["C05"] = ScenarioInfo{
		Level: "exploration",
		Rule: "one run = valid traffic of every kind (Sign1 tagged/untagged, Sign, stand-alone COSE_Signature / countersignature objects, header buckets; issued by go-cose or by the foreign peer in non-deterministic encodings; " +
			"countersignatures single/list/abbreviated nested up to two levels) is hit by 1..2 faults from a per-run random subset of the byte-level and structural catalogue (at any position of the CBOR tree, inside protected headers and " +
			"nested countersignatures included) or by a splice from a second message, and the result is offered to all seven message/signature/countersignature/bucket decoders, not only the one of its own kind; " +
			"whenever a decoder returns nil the bytes must satisfy the reference well-formedness predicate of that decoder (property statement, clause by clause). " +
			"Non-trivial = at least one decoder accepted a damaged input; distinct = distinct (victim kind, fault kinds, accepting decoders) sequence.",
		Assumptions: []string{"reference predicate refcose.WellFormed* transcribes the property statement (RFC 9052 section 3.1 rules, nested countersignatures)", "only the direction accepted => well-formed is judged here (the converse is C07)"},
		Real:        []string{"github.com/veraison/go-cose decoders", "github.com/fxamacker/cbor/v2"},
		Stubs:       []string{"wire with fault injection and replay between messages", "foreign peer (reference model)", "entropy source"},
		QuickRuns:   600000, ThoroughRuns: 10000000,
	}
}

// errClass reduces a reference explanation to a stable class (no offsets).
func errClass(err error) string {
	s := err.Error()
	var b strings.Builder
	for _, c := range s {
		switch {
		case c >= '0' && c <= '9':
		case c == ' ' || c == ':' || c == '/' || c == '\'':
			if b.Len() > 0 && !strings.HasSuffix(b.String(), "-") {
				b.WriteByte('-')
			}
		default:
			b.WriteRune(c)
		}
		if b.Len() >= 70 {
			break
		}
	}
	return strings.TrimSuffix(b.String(), "-")
}

// damagedInput produces one damaged wire input from valid traffic.  It
// returns the bytes, the victim, and whether anything changed.
func (r *Run) damagedInput(t *tape.Tape, fm FaultMix, ent *Entropy, to TrafficOpts, maxFaults int) ([]byte, *Wire) {
	w := r.GenWire(t, to, ent)
	if w == nil {
		return nil, nil
	}
	victim := w
	if t.Bool(1, 2, "damage.object") {
		if objs := Objects(w); len(objs) > 0 {
			victim = objs[t.Choose(len(objs), "damage.which")]
		}
	}
	r.Op("ISSUE", "%s", victim.Desc)
	b := victim.B
	var donor *Wire
	nf := 1 + t.Choose(maxFaults, "damage.nfaults")
	for i := 0; i < nf; i++ {
		if fm.Splice && t.Bool(1, 5, "damage.splice") {
			if donor == nil {
				donor = r.GenWire(t, TrafficOpts{Spec: SpecOpts{MaxExtra: 2, MaxSigner: 2, Cheap: true}, CsigDepth: 1, ForeignPct: 40}, ent)
			}
			if donor != nil {
				if out, what, ok := Splice(t, b, donor.B); ok {
					b = out
					r.Fired(what)
					continue
				}
			}
		}
		if out, kind := fm.WireFault(t, b); kind != "" {
			b = out
			r.Fired(kind)
		}
	}
	r.Op("CORRUPT", "%s", hexShort(b))
	return b, victim
}

func scenarioC05(r *Run) {
	t := r.T
	fm := GenFaultMix(t)
	ent := NewEntropy(uint64(t.U32("entropy.seed")))
	to := TrafficOpts{Spec: SpecOpts{MaxExtra: 4, MaxSigner: 3, Cheap: true}, CsigDepth: 2, Abbrev: true, ForeignPct: 40, Detach: true}
	var b []byte
	var victim *Wire
	if t.Bool(1, 15, "c05.twins") {
		b, victim = r.c05Twins(t, ent)
	} else if t.Bool(1, 20, "c05.many") {
		b, victim = r.c05ManySigners(t, fm, ent)
	} else if t.Bool(1, 25, "c05.neartwin") {
		// history: a conforming message is decoded by every decoder first, then
		// its near twin (twins.go) is judged like any other input
		tw := genTwins(t)
		for i := range WireDecoders {
			dec := &WireDecoders[i]
			r.Lib(func() { dec.Into(dec.New(), append([]byte{}, tw.a...)) })
		}
		b, victim = tw.b, &Wire{Kind: refcose.KSign1Tagged, Dec: "Sign1Message", B: tw.b, Desc: "near twin (" + tw.how + ") of a message decoded just before"}
		r.Fired("history.near-twin/" + tw.how)
	} else if t.Bool(1, 10, "c05.deep") {
		// long chains of nested countersignatures (a countersignature on a
		// countersignature on ...): the rules hold in every layer however deep
		// the damage lands
		deep := to
		deep.CsigDepth, deep.ForeignPct = []int{7, 11, 14}[t.Choose(3, "c05.deep.depth")], 70 // 14 levels stay inside the CBOR nesting limit when no level uses the list form
		b, victim = r.damagedInput(t, fm, ent, deep, 2)
		r.Probe("damage-in-deep-countersignature-chain")
	} else {
		b, victim = r.damagedInput(t, fm, ent, to, 2)
	}
	if victim == nil {
		r.Outcome("no-traffic")
		return
	}
	r.Outcome("victim:" + victim.Dec)
	for i := range WireDecoders {
		dec := &WireDecoders[i]
		var err error
		r.Lib(func() { err = dec.Into(dec.New(), b) })
		r.Logf("%s: %s", dec.Name, errTag(err))
		if err != nil {
			continue
		}
		r.Check()
		r.Outcome("accepted-by:" + dec.Name)
		if dec.Name != victim.Dec && !(dec.Kind == victim.Kind && dec.Kind != noKind) {
			r.Probe("accepted-by-foreign-decoder")
		}
		if werr := dec.WellFormed(b); werr != nil {
			// root-cause discrimination: the CBOR library treats tag 55799
			// (self-described CBOR) as transparent wherever it decodes into an
			// interface value, so a header value wrapped in it passes the typed
			// parameter rules.  If removing those wrappers makes the input
			// well-formed, that is the (single) cause.
			if stripped, n := strip55799(b); n > 0 && dec.WellFormed(stripped) == nil {
				r.Fail("accepts-malformed/tag55799-transparent-in-header-value",
					"%s.UnmarshalCBOR accepted a header value wrapped in CBOR tag 55799 where the parameter rules demand a typed value: %v\ninput: %s", dec.Name, werr, hexShort(b))
				continue
			}
			r.Fail("accepts-malformed/"+dec.Name+"/"+errClass(werr),
				"%s.UnmarshalCBOR accepted bytes that are not a well-formed item of its type: %v\ninput: %s\nvictim: %s\nfaults: %v", dec.Name, werr, hexShort(b), victim.Desc, SortedKeys(r.Faults))
		}
	}
}

// strip55799 removes every tag-55799 wrapper (also inside protected headers)
// and reports how many were removed.
func strip55799(b []byte) ([]byte, int) {
	// a stand-alone protected bucket: the map sits inside the byte string
	if it, err := refcbor.ParseOne(b); err == nil && it.Major == refcbor.MBstr && !it.Indef && len(it.Data) > 0 {
		if inner, n := strip55799(it.Data); n > 0 {
			return refcbor.Encode(refcbor.Bstr(inner)), n
		}
		return b, 0
	}
	m, err := OpenTree(b)
	if err != nil {
		return b, 0
	}
	n := 0
	for pass := 0; pass < 8; pass++ {
		changed := false
		for _, s := range m.Sites() {
			if s.It.Major == 6 && s.It.Arg == 55799 && len(s.It.Elems) == 1 {
				m.replace(s, s.It.Elems[0])
				n++
				changed = true
				break
			}
		}
		if !changed {
			break
		}
	}
	if n == 0 {
		return b, 0
	}
	return m.Bytes(), n
}

// c05Twins: a COSE_Sign whose signers share byte-identical protected buckets
// (same algorithm, no kid - common in practice), one of which breaks a
// cross-bucket rule with its UNPROTECTED side only: IV in the shared protected
// bucket and Partial IV in its own unprotected one (or the other way round).
// Whatever a decoder re-uses between siblings, each layer is judged whole.
func (r *Run) c05Twins(t *tape.Tape, ent *Entropy) ([]byte, *Wire) {
	n := 2 + t.Choose(3, "c05.twins.n")
	k := pickCheapKey(t)
	first, second := int64(refcose.LIV), int64(refcose.LPartialIV)
	if t.Bool(1, 2, "c05.twins.swap") {
		first, second = second, first
	}
	shared := Bucket{{refcbor.Uint(refcose.LAlg), refcbor.Int(k.Alg)}, {refcbor.Int(first), refcbor.Bstr(t.Bytes(1+t.Choose(12, "c05.twins.ivn"), "c05.twins.iv"))}}
	spec := &MsgSpec{Kind: refcose.KSignTagged, Payload: genPayload(t, false), External: nil}
	spec.Layer = genLayer(t, LayerOpts{MaxExtra: 1})
	bad := t.Choose(n, "c05.twins.bad")
	for i := 0; i < n; i++ {
		sg := &SignerSpec{Key: k}
		sg.Layer.Prot = shared.clone()
		if t.Bool(1, 2, "c05.twins.kid") {
			sg.Layer.Unprot = append(sg.Layer.Unprot, KV{refcbor.Uint(refcose.LKid), refcbor.Bstr([]byte{byte(i)})})
		}
		if i == bad {
			sg.Layer.Unprot = append(sg.Layer.Unprot, KV{refcbor.Int(second), refcbor.Bstr(t.Bytes(1+t.Choose(6, "c05.twins.pn"), "c05.twins.p"))})
		}
		spec.Signers = append(spec.Signers, sg)
	}
	w := r.ForeignWire(t, spec, Knobs{}, ent, false, 0, false)
	if w == nil {
		return nil, nil
	}
	w.Desc = fmt.Sprintf("COSE_Sign with %d signers sharing one protected bucket; signer %d adds label %d to its unprotected bucket", n, bad, second)
	r.Op("ISSUE", "%s", w.Desc)
	r.Fired("peer.sibling-cross-bucket-conflict")
	return w.B, w
}

// c05ManySigners: a COSE_Sign with 17..40 signatures (a document signed by a
// whole board), damaged somewhere: every entry is judged, wherever it sits.
func (r *Run) c05ManySigners(t *tape.Tape, fm FaultMix, ent *Entropy) ([]byte, *Wire) {
	n := 17 + t.Choose(24, "c05.many.n")
	spec := &MsgSpec{Kind: refcose.KSignTagged, Payload: genPayload(t, false)}
	spec.Layer = genLayer(t, LayerOpts{MaxExtra: 1})
	for i := 0; i < n; i++ {
		k := poolEd[t.Choose(len(poolEd), "c05.many.key")]
		a := k.Alg
		spec.Signers = append(spec.Signers, &SignerSpec{Layer: genLayer(t, LayerOpts{MaxExtra: 1, Alg: &a}), Key: k})
	}
	w := r.ForeignWire(t, spec, genKnobs(t), ent, false, 0, false)
	if w == nil {
		return nil, nil
	}
	w.Desc = fmt.Sprintf("COSE_Sign with %d signers", n)
	r.Op("ISSUE", "%s", w.Desc)
	b := w.B
	for i, nf := 0, 1+t.Choose(2, "c05.many.nfaults"); i < nf; i++ {
		// damage a COSE_Signature entry in the back half of the list
		if out, kind, ok := damageSignerEntry(t, b, n/2+t.Choose(n-n/2, "c05.many.which")); ok {
			b = out
			r.Fired(kind)
		} else if out, kind := fm.WireFault(t, b); kind != "" {
			b = out
			r.Fired(kind)
		}
	}
	r.Op("CORRUPT", "%s", hexShort(b))
	return b, w
}

// damageSignerEntry breaks entry idx of the signatures array of a COSE_Sign in
// one of a few structural ways.
func damageSignerEntry(t *tape.Tape, b []byte, idx int) ([]byte, string, bool) {
	it, err := refcbor.ParseOne(b)
	if err != nil {
		return nil, "", false
	}
	root := it
	for root.Major == refcbor.MTag {
		root = root.Elems[0]
	}
	if root.Major != refcbor.MArray || len(root.Elems) != 4 || root.Elems[3].Major != refcbor.MArray || idx >= len(root.Elems[3].Elems) {
		return nil, "", false
	}
	sigs := root.Elems[3]
	e := sigs.Elems[idx]
	kind := ""
	switch t.Choose(5, "c05.many.damage") {
	case 0:
		sigs.Elems[idx], kind = refcbor.Int(7), "signer-entry.not-an-array"
	case 1:
		if e.Major == refcbor.MArray && len(e.Elems) == 3 {
			e.Elems[2] = refcbor.Bstr(nil)
		}
		kind = "signer-entry.empty-signature"
	case 2:
		if e.Major == refcbor.MArray && len(e.Elems) == 3 && e.Elems[1].Major == refcbor.MMap {
			e.Elems[1].Elems = append(e.Elems[1].Elems, refcbor.Uint(refcose.LCrit), refcbor.Array(refcbor.Int(1)))
		}
		kind = "signer-entry.crit-in-unprotected"
	case 3:
		if e.Major == refcbor.MArray && len(e.Elems) == 3 && e.Elems[1].Major == refcbor.MMap {
			e.Elems[1].Elems = append(e.Elems[1].Elems, refcbor.Uint(4), refcbor.Bstr([]byte{1}), &refcbor.Item{Major: refcbor.MUint, Arg: 4, Width: 1}, refcbor.Bstr([]byte{2}))
		}
		kind = "signer-entry.duplicate-label"
	default:
		if e.Major == refcbor.MArray && len(e.Elems) == 3 {
			e.Elems = e.Elems[:2]
		}
		kind = "signer-entry.arity"
	}
	return refcbor.Encode(it), kind, true
}
