package sim

import (
	"bytes"
	"crypto"
	"crypto/ecdsa"
	"crypto/ed25519"
	"crypto/elliptic"
	"fmt"
	"github.com/fxamacker/cbor/v2"
	"math"
	"math/big"
	"strings"

	cose "github.com/veraison/go-cose"

	"verif/refcbor"
	"verif/refcose"
	"verif/tape"
)

func init() {
	Scenarios["C14"] = scenarioC14
	Infos["C14"] = ScenarioInfo{
		Level: "exploration",
		Rule: "one run = one provisioning event of the key directory: a Go key (pool keys, tape-derived P-256/P-384/P-521 keys searched for leading zero bytes in x, y or d, the valid public points with x = 0, Ed25519 keys) is converted with NewKeyFromPrivate/NewKeyFromPublic, " +
			"decorated with kid / key_ops / base IV / extra parameters on a subset, serialised, stored, parsed back and converted to Go keys, signer and verifier; a second path starts from COSE_Key bytes written by the reference encoder (coordinates padded or trimmed); a third builds several keys with NewKeyOKP/NewKeyEC2 from sub-slices of one caller-owned record buffer, which conversions must leave unchanged; alg (optional) is cleared on a third of the keys. " +
			"Oracle: Go key equal after the chain (public and private halves); in the stored bytes the reference parser finds x and y of exactly the field size; a signature made by the signer from the stored private key verifies under the verifier from the stored public key and under the reference verifier. " +
			"Simulation contributes the habitat (every key of the world passes through the directory) - the rare inputs come from a biased key pool, which is input generation and is called that. Non-trivial = a chain was completed and compared; distinct = distinct (curve, leading-zero class, decorations, path, outcome).",
		Assumptions: []string{"Go crypto and math/big are correct"},
		Real:        []string{"github.com/veraison/go-cose (key.go, signer.go, verifier.go, ecdsa.go, ed25519.go)", "github.com/fxamacker/cbor/v2", "Go crypto"},
		Stubs:       []string{"key directory (COSE_Key bytes in memory)", "peer key writer (reference encoder)", "entropy source"},
		QuickRuns:   80000, ThoroughRuns: 1200000,
	}
	Scenarios["C15"] = scenarioC15
	Infos["C15"] = ScenarioInfo{
		Level: "exploration",
		Rule: "one run = a COSE_Key at rest (EC2 / OKP private or public, symmetric, unregistered type; alg, key_ops as integers or names incl. present-but-empty, kid, base IV, extra int/tstr parameters; written by the reference encoder) is hit by 0..3 storage faults " +
			"from the byte-level and structural catalogue (KEY_CORRUPT) and loaded (KEY_LOAD). Accepted => the reference key predicate holds on the stored bytes (kty non-reserved, unique int/tstr labels, curve valid for the key type, coordinates within size, alg matches curve) " +
			"and re-encoding is a canonical fixpoint (encode(decode(encode(k))) == encode(k), deterministic CBOR). Signer() returns nil error => private material present, key_ops absent or containing sign, kty EC2/OKP, and Algorithm() is the one fixed by the key; the same for Verifier() with the public point and verify; the Key variable may have held (and served) another key before, and the verifier/signer obtained is judged by behaviour too: it judges a signature of the generated pair exactly as the reference does with the public point read from the stored bytes (untagged keys whose halves agree). " +
			"Non-trivial = the decoder accepted the key; distinct = distinct (key kind, ops class, fault kinds, signer/verifier outcome).",
		Assumptions: []string{"reference key predicate transcribes the property statement; a coordinate parameter of a non-bstr type is not judged", "key_ops entries are read as RFC 9052 integers or RFC 7517 names"},
		Real:        []string{"github.com/veraison/go-cose (key.go)", "github.com/fxamacker/cbor/v2", "Go crypto"},
		Stubs:       []string{"key store with fault injection", "key writer (reference encoder)", "entropy source"},
		QuickRuns:   400000, ThoroughRuns: 6000000,
	}
}

// zeroXPoint returns the valid public point with x = 0 on the curve (y is a
// square root of b), or nil if there is none.
func zeroXPoint(c elliptic.Curve, odd bool) *ecdsa.PublicKey {
	p := c.Params().P
	b := c.Params().B
	e := new(big.Int).Add(p, big.NewInt(1))
	e.Rsh(e, 2)
	y := new(big.Int).Exp(b, e, p)
	if new(big.Int).Mod(new(big.Int).Mul(y, y), p).Cmp(new(big.Int).Mod(b, p)) != 0 {
		return nil
	}
	if (y.Bit(0) == 1) != odd {
		y.Sub(p, y)
	}
	if !c.IsOnCurve(new(big.Int), y) {
		return nil
	}
	return &ecdsa.PublicKey{Curve: c, X: new(big.Int), Y: y}
}

func sameECPub(a, b *ecdsa.PublicKey) bool {
	return a != nil && b != nil && a.Curve == b.Curve && a.X != nil && b.X != nil && a.X.Cmp(b.X) == 0 && a.Y.Cmp(b.Y) == 0
}

func scenarioC14(r *Run) {
	t := r.T
	ent := NewEntropy(uint64(t.U32("entropy.seed")))
	switch t.Pick([]int{6, 1, 2, 3, 2, 1}, "c14.path") {
	case 5:
		c14Rotate(r, t, ent)
	case 4:
		c14Records(r, t, ent)
	case 0: // EC key from Go
		kp := freshECKey(t)
		if t.Bool(1, 4, "c14.pool") {
			kp = poolEC[t.Choose(len(poolEC), "c14.pool.i")]
		}
		c14GoEC(r, t, kp.Priv.(*ecdsa.PrivateKey), ent)
	case 1: // the x = 0 points (public only)
		c := []elliptic.Curve{elliptic.P256(), elliptic.P384(), elliptic.P521()}[t.Choose(3, "c14.x0.curve")]
		pub := zeroXPoint(c, t.Bool(1, 2, "c14.x0.odd"))
		if pub == nil {
			r.Skip("no point with x = 0")
		}
		c14GoECPublic(r, t, pub, "x=0")
	case 2: // Ed25519
		kp := poolEd[t.Choose(len(poolEd), "c14.ed")]
		priv := kp.Priv.(ed25519.PrivateKey)
		if t.Bool(1, 2, "c14.ed.fresh") {
			priv = ed25519.NewKeyFromSeed(t.Bytes(32, "c14.ed.seed"))
		}
		c14GoEd(r, t, priv, ent)
	default: // keys written by a peer
		c14Peer(r, t, ent)
	}
}

func decorate(t *tape.Tape, k *cose.Key) string {
	d := ""
	if t.Bool(1, 3, "c14.noalg") {
		// alg is optional in a COSE_Key
		k.Algorithm = cose.AlgorithmReserved
		d += "+noalg"
	}
	if t.Bool(1, 3, "c14.kid") {
		k.ID = t.Bytes(genLen(t, 24), "c14.kid.v")
		if k.ID == nil {
			k.ID = []byte{}
		}
		d += "+kid"
	}
	if t.Bool(1, 3, "c14.ops") {
		// mostly both operations stay permitted; sometimes the key is
		// restricted (sign only, verify only, key agreement only, nothing):
		// the CONVERSIONS to Go keys must not care - that a restricted key
		// yields no signer / verifier is C15's business and is not demanded
		// or forbidden here
		sets := [][]cose.KeyOp{{cose.KeyOpSign, cose.KeyOpVerify}, {cose.KeyOpVerify, cose.KeyOpSign, cose.KeyOpDeriveBits}, {cose.KeyOpSign, cose.KeyOpVerify, cose.KeyOpEncrypt},
			{cose.KeyOpSign}, {cose.KeyOpVerify}, {cose.KeyOpDeriveKey, cose.KeyOpDeriveBits}, {}}
		i := t.Pick([]int{3, 3, 3, 1, 1, 1, 1}, "c14.ops.v")
		k.Ops = sets[i]
		d += "+ops"
		if i >= 3 {
			d += "(restricted)"
		}
	}
	if t.Bool(1, 4, "c14.baseiv") {
		k.BaseIV = t.Bytes(8, "c14.iv.v")
		d += "+iv"
	}
	if t.Bool(1, 4, "c14.extra") {
		if k.Params == nil {
			k.Params = map[any]any{}
		}
		k.Params[int64(-70001)] = "extra"
		k.Params["x-note"] = int64(7)
		d += "+extra"
		if t.Bool(1, 2, "c14.extra.tagged") {
			// an application parameter whose value carries a CBOR tag (a URI,
			// a UUID): legal, and written by the encoder like any other value
			k.Params[int64(-70002)] = cbor.Tag{Number: 32, Content: "https://example.test/keys/1"}
			k.Params[int64(-70003)] = cbor.Tag{Number: 37, Content: []byte{1, 2, 3, 4, 5, 6, 7, 8, 9, 10, 11, 12, 13, 14, 15, 16}}
			d += "+tagged"
		}
	}
	return d
}

// c14Store serialises a key into the directory and loads it back.  slot, when
// non-nil, is a long-lived variable of the directory that earlier loads of
// this run already decoded into (a server re-using its structs): the result
// must not depend on what it held before.
func (r *Run) c14Store(k *cose.Key, what string, slot *cose.Key) ([]byte, *cose.Key, bool) {
	var b []byte
	var err error
	r.Lib(func() { b, err = k.MarshalCBOR() })
	r.Check()
	if err != nil {
		r.Fail("key-marshal-fails/"+what, "MarshalCBOR of a key converted from a valid Go key failed: %v", err)
		return nil, nil, false
	}
	back := slot
	if back == nil {
		back = new(cose.Key)
	} else {
		r.Probe("directory-slot-reused")
	}
	r.Lib(func() { err = back.UnmarshalCBOR(b) })
	if err != nil {
		r.Fail("key-roundtrip-decode-fails/"+what, "own COSE_Key encoding refused: %v\nbytes: %x", err, b)
		return nil, nil, false
	}
	if slot != nil {
		// hand out a copy: the slot is decoded into again later
		var fresh cose.Key
		r.Lib(func() { err = fresh.UnmarshalCBOR(b) })
		if err == nil && Snapshot(&fresh) != Snapshot(back) {
			r.Check()
			r.Fail("key-decode-depends-on-destination-history/"+what, "decoding a stored key into a previously used Key variable gives another value than decoding it into a fresh one\n%s\nbytes: %x", diffSnapshot(Snapshot(&fresh), Snapshot(back)), b)
			return nil, nil, false
		}
		c := *back
		back = &c
	}
	return b, back, true
}

func c14CheckCoords(r *Run, b []byte, size int, what string) {
	v, err := refcose.ViewKey(b)
	r.Check()
	if err != nil {
		r.Fail("stored-key-unparsable", "reference parser cannot read the stored key: %v\n%x", err, b)
		return
	}
	for _, c := range []struct {
		n  string
		it *refcbor.Item
	}{{"x", v.X}, {"y", v.Y}} {
		if c.it == nil || c.it.Major != refcbor.MBstr || len(c.it.Data) != size {
			n := -1
			if c.it != nil {
				n = len(c.it.Data)
			}
			r.Fail("coordinate-not-full-length/"+c.n+"/"+what, "serialised EC2 %s has %d bytes, the field size is %d\n%x", c.n, n, size, b)
		}
	}
}

func c14GoEC(r *Run, t *tape.Tape, priv *ecdsa.PrivateKey, ent *Entropy) {
	size := (priv.Curve.Params().BitSize + 7) / 8
	lz := leadingZeroClass(priv)
	if lz == "" {
		lz = "none"
	} else {
		r.Probe("leading-zero-" + lz)
	}
	name := priv.Curve.Params().Name
	r.Op("KEY_PUT", "Go ECDSA key %s leading-zero=%s", name, lz)
	var ck, cpub *cose.Key
	var err error
	r.Lib(func() { ck, err = cose.NewKeyFromPrivate(priv) })
	r.Check()
	if err != nil {
		r.Fail("newkey-from-private-fails/"+name, "NewKeyFromPrivate refused a valid key: %v", err)
		return
	}
	r.Lib(func() { cpub, err = cose.NewKeyFromPublic(&priv.PublicKey) })
	if err != nil {
		r.Fail("newkey-from-public-fails/"+name, "NewKeyFromPublic refused a valid key: %v", err)
		return
	}
	if t.Bool(1, 4, "c14.literal") {
		// the same keys written as struct literals by the application: the
		// curve spelt with whatever Go integer type came to hand, the
		// coordinates as math/big hands them out (no leading zeros)
		respell := func(k *cose.Key) *cose.Key {
			out := &cose.Key{Type: k.Type, Algorithm: k.Algorithm, Params: map[any]any{}}
			for l, v := range k.Params {
				out.Params[l] = v
			}
			crv := int64(k.Params[cose.KeyLabelEC2Curve].(cose.Curve))
			out.Params[cose.KeyLabelEC2Curve] = []any{crv, int(crv), int8(crv), int16(crv), cose.Curve(crv), int32(crv)}[t.Choose(6, "c14.literal.crv")]
			if t.Bool(1, 2, "c14.literal.trim") {
				out.Params[cose.KeyLabelEC2X] = priv.X.Bytes()
				out.Params[cose.KeyLabelEC2Y] = priv.Y.Bytes()
			}
			if t.Bool(1, 3, "c14.literal.labels") {
				// ... and the labels of the coordinates written as untyped
				// constants or computed numbers (Go int, int32, ...): the
				// encoder takes labels of any integer type
				for _, l := range []int64{cose.KeyLabelEC2X, cose.KeyLabelEC2Y} {
					v := out.Params[l]
					delete(out.Params, l)
					out.Params[[]any{int(l), int32(l), int16(l), int8(l)}[t.Choose(4, "c14.literal.label.type")]] = v
				}
			}
			return out
		}
		ck, cpub = respell(ck), respell(cpub)
		r.Fired("app.key-struct-literal")
	}
	dec := decorate(t, ck) + decorate(t, cpub)
	r.Outcome("ec/" + name + "/lz=" + lz + dec)
	var slot *cose.Key
	if t.Bool(1, 2, "c14.slot") {
		slot = new(cose.Key)
	}
	b, back, ok := r.c14Store(ck, name, slot)
	if !ok {
		return
	}
	bp, backPub, ok := r.c14Store(cpub, name, slot)
	if !ok {
		return
	}
	c14CheckCoords(r, b, size, name)
	c14CheckCoords(r, bp, size, name)
	var gotPriv any
	r.Lib(func() { gotPriv, err = back.PrivateKey() })
	r.Check()
	gp, isEC := gotPriv.(*ecdsa.PrivateKey)
	if err != nil || !isEC || !sameECPub(&gp.PublicKey, &priv.PublicKey) || gp.D.Cmp(priv.D) != 0 {
		r.Fail("private-key-roundtrip-differs/"+name+"/lz="+lz, "PrivateKey() after the conversion chain: %v, equal=%v\nstored: %x", err, false, b)
		return
	}
	for _, src := range []*cose.Key{back, backPub} {
		var gotPub any
		r.Lib(func() { gotPub, err = src.PublicKey() })
		r.Check()
		pp, isPub := gotPub.(*ecdsa.PublicKey)
		if err != nil || !isPub || !sameECPub(pp, &priv.PublicKey) {
			r.Fail("public-key-roundtrip-differs/"+name+"/lz="+lz, "PublicKey() after the conversion chain: %v\nstored: %x", err, bp)
			return
		}
	}
	if !goOpsAllow(back, cose.KeyOpSign) || !goOpsAllow(backPub, cose.KeyOpVerify) {
		r.Outcome("chain-ok/conversions-only(restricted key_ops)")
		return
	}
	// signer from the stored private key, verifier from the stored public key
	var s cose.Signer
	var v cose.Verifier
	r.Lib(func() { s, err = back.Signer() })
	if err != nil {
		r.Fail("signer-from-stored-key-fails/"+name, "Signer() of a stored private key: %v", err)
		return
	}
	r.Lib(func() { v, err = backPub.Verifier() })
	if err != nil {
		r.Fail("verifier-from-stored-key-fails/"+name, "Verifier() of a stored public key: %v", err)
		return
	}
	content := t.Bytes(1+t.Choose(64, "c14.content.n"), "c14.content")
	var sig []byte
	r.Lib(func() { sig, err = s.Sign(ent, content) })
	r.Check()
	if err != nil {
		r.Fail("sign-with-stored-key-fails/"+name, "signing with the signer from a stored key: %v", err)
		return
	}
	r.Lib(func() { err = v.Verify(content, sig) })
	if err != nil || !refcose.ValidSignature(int64(s.Algorithm()), &priv.PublicKey, content, sig) {
		r.Fail("stored-key-signature-does-not-verify/"+name+"/lz="+lz, "signature by the signer from the stored private key: verifier from the stored public key says %v, reference says %v", err,
			refcose.ValidSignature(int64(s.Algorithm()), &priv.PublicKey, content, sig))
		return
	}
	r.Outcome("chain-ok")
}

func c14GoECPublic(r *Run, t *tape.Tape, pub *ecdsa.PublicKey, what string) {
	name := pub.Curve.Params().Name
	size := (pub.Curve.Params().BitSize + 7) / 8
	r.Op("KEY_PUT", "Go ECDSA public key %s (%s)", name, what)
	r.Outcome("ecpub/" + name + "/" + what)
	var ck *cose.Key
	var err error
	r.Lib(func() { ck, err = cose.NewKeyFromPublic(pub) })
	r.Check()
	if err != nil {
		r.Fail("newkey-from-public-fails/"+name+"/"+what, "NewKeyFromPublic refused a valid public key: %v", err)
		return
	}
	b, back, ok := r.c14Store(ck, name+"/"+what, nil)
	if !ok {
		return
	}
	c14CheckCoords(r, b, size, name+"/"+what)
	var got any
	r.Lib(func() { got, err = back.PublicKey() })
	r.Check()
	pp, isPub := got.(*ecdsa.PublicKey)
	if err != nil || !isPub || !sameECPub(pp, pub) {
		r.Fail("public-key-roundtrip-differs/"+name+"/"+what, "PublicKey() after the conversion chain: %v\nstored: %x", err, b)
		return
	}
	var v cose.Verifier
	r.Lib(func() { v, err = back.Verifier() })
	if err != nil || v == nil {
		r.Fail("verifier-from-stored-key-fails/"+name+"/"+what, "Verifier() of a stored valid public key: %v", err)
		return
	}
	r.Outcome("chain-ok")
}

func c14GoEd(r *Run, t *tape.Tape, priv ed25519.PrivateKey, ent *Entropy) {
	r.Op("KEY_PUT", "Go Ed25519 key")
	var ck, cpub *cose.Key
	var err error
	r.Lib(func() { ck, err = cose.NewKeyFromPrivate(priv) })
	r.Check()
	if err != nil {
		r.Fail("newkey-from-private-fails/Ed25519", "NewKeyFromPrivate refused a valid key: %v", err)
		return
	}
	r.Lib(func() { cpub, err = cose.NewKeyFromPublic(priv.Public()) })
	if err != nil {
		r.Fail("newkey-from-public-fails/Ed25519", "NewKeyFromPublic refused a valid key: %v", err)
		return
	}
	dec := decorate(t, ck) + decorate(t, cpub)
	r.Outcome("ed25519" + dec)
	var slot *cose.Key
	if t.Bool(1, 2, "c14.slot") {
		slot = new(cose.Key)
	}
	_, back, ok := r.c14Store(ck, "Ed25519", slot)
	if !ok {
		return
	}
	_, backPub, ok := r.c14Store(cpub, "Ed25519", slot)
	if !ok {
		return
	}
	var gotPriv, gotPub any
	r.Lib(func() { gotPriv, err = back.PrivateKey() })
	r.Check()
	if gp, isEd := gotPriv.(ed25519.PrivateKey); err != nil || !isEd || !bytes.Equal(gp, priv) {
		r.Fail("private-key-roundtrip-differs/Ed25519", "PrivateKey() after the conversion chain: %v", err)
		return
	}
	r.Lib(func() { gotPub, err = backPub.PublicKey() })
	if gp, isEd := gotPub.(ed25519.PublicKey); err != nil || !isEd || !bytes.Equal(gp, priv.Public().(ed25519.PublicKey)) {
		r.Fail("public-key-roundtrip-differs/Ed25519", "PublicKey() after the conversion chain: %v", err)
		return
	}
	// the public half of the stored PRIVATE key too
	r.Lib(func() { gotPub, err = back.PublicKey() })
	if gp, isEd := gotPub.(ed25519.PublicKey); err != nil || !isEd || !bytes.Equal(gp, priv.Public().(ed25519.PublicKey)) {
		r.Fail("public-key-roundtrip-differs/Ed25519/from-private", "PublicKey() of the stored private key: %v", err)
		return
	}
	if !goOpsAllow(back, cose.KeyOpSign) || !goOpsAllow(backPub, cose.KeyOpVerify) {
		r.Outcome("chain-ok/conversions-only(restricted key_ops)")
		return
	}
	var s cose.Signer
	var v cose.Verifier
	r.Lib(func() { s, err = back.Signer() })
	if err != nil {
		r.Fail("signer-from-stored-key-fails/Ed25519", "%v", err)
		return
	}
	r.Lib(func() { v, err = backPub.Verifier() })
	if err != nil {
		r.Fail("verifier-from-stored-key-fails/Ed25519", "%v", err)
		return
	}
	content := t.Bytes(1+t.Choose(64, "c14.content.n"), "c14.content")
	var sig []byte
	r.Lib(func() { sig, err = s.Sign(ent, content) })
	if err == nil {
		r.Lib(func() { err = v.Verify(content, sig) })
	}
	r.Check()
	if err != nil {
		r.Fail("stored-key-signature-does-not-verify/Ed25519", "%v", err)
		return
	}
	r.Outcome("chain-ok")
}

// c14Rotate: one Key object that the application keeps and loads with the
// next key pair when keys are rotated (the exported fields are assigned, the
// object stays).  Every conversion answers for what the object holds now.
func c14Rotate(r *Run, t *tape.Tape, ent *Entropy) {
	type gokey struct {
		priv crypto.Signer
		pub  crypto.PublicKey
		alg  int64
		name string
	}
	gen := func(ed bool) gokey {
		if ed {
			p := ed25519.NewKeyFromSeed(t.Bytes(32, "c14.rot.seed"))
			return gokey{p, p.Public(), int64(cose.AlgorithmEdDSA), "Ed25519"}
		}
		kp := freshECKey(t)
		return gokey{kp.Priv, kp.Pub, kp.Alg, kp.Curve.Params().Name}
	}
	ed := t.Bool(1, 3, "c14.rot.ed")
	a := gen(ed)
	b := gen(ed != t.Bool(1, 5, "c14.rot.otherkind"))
	r.Op("KEY_ROTATE", "one Key object: %s key, used, then loaded with a %s key", a.name, b.name)
	var held, next *cose.Key
	var err error
	r.Lib(func() { held, err = cose.NewKeyFromPrivate(a.priv) })
	if err != nil {
		r.Fail("newkey-from-private-fails/"+a.name, "NewKeyFromPrivate refused a valid key: %v", err)
		return
	}
	// the object is used while it holds the first key
	uses := 1 + t.Choose(15, "c14.rot.uses")
	r.Lib(func() {
		if uses&1 != 0 {
			held.PrivateKey()
		}
		if uses&2 != 0 {
			held.PublicKey()
		}
		if uses&4 != 0 {
			held.Signer()
		}
		if uses&8 != 0 {
			held.Verifier()
		}
	})
	r.Lib(func() { next, err = cose.NewKeyFromPrivate(b.priv) })
	if err != nil {
		r.Fail("newkey-from-private-fails/"+b.name, "NewKeyFromPrivate refused a valid key: %v", err)
		return
	}
	var want []byte
	r.Lib(func() { want, err = next.MarshalCBOR() })
	if err != nil {
		r.Skip("second key does not encode")
	}
	// rotation: field by field (a struct assignment would be another object state altogether)
	held.Type, held.Algorithm, held.Params = next.Type, next.Algorithm, next.Params
	r.Fired("app.rotates-key-object-in-place")
	var got []byte
	r.Lib(func() { got, err = held.MarshalCBOR() })
	r.Check()
	if err != nil || !bytes.Equal(got, want) {
		r.Fail("rotated-key-object-answers-for-old-key/MarshalCBOR", "a Key object loaded with another key pair encodes to %x (%v), the new key alone to %x", got, err, want)
		return
	}
	var gp, gpub any
	r.Lib(func() { gp, err = held.PrivateKey() })
	r.Check()
	if err != nil || !samePrivate(gp, b.priv) {
		r.Fail("rotated-key-object-answers-for-old-key/PrivateKey", "PrivateKey() of a Key object that was used (mask %d) and then loaded with another %s key pair does not give that key (%v)", uses, b.name, err)
		return
	}
	r.Lib(func() { gpub, err = held.PublicKey() })
	r.Check()
	if err != nil || !samePublic(gpub, b.pub) {
		r.Fail("rotated-key-object-answers-for-old-key/PublicKey", "PublicKey() of a Key object that was used (mask %d) and then loaded with another %s key pair does not give that key (%v)", uses, b.name, err)
		return
	}
	var sg cose.Signer
	var vf cose.Verifier
	r.Lib(func() { sg, err = held.Signer() })
	if err != nil {
		r.Fail("rotated-key-object-answers-for-old-key/Signer", "Signer() refused: %v", err)
		return
	}
	r.Lib(func() { vf, err = held.Verifier() })
	if err != nil {
		r.Fail("rotated-key-object-answers-for-old-key/Verifier", "Verifier() refused: %v", err)
		return
	}
	content := t.Bytes(1+t.Choose(64, "c14.content.n"), "c14.content")
	var sig []byte
	r.Lib(func() { sig, err = sg.Sign(ent, content) })
	r.Check()
	if err != nil || !refcose.ValidSignature(b.alg, b.pub, content, sig) {
		r.Fail("rotated-key-object-answers-for-old-key/Signer", "the signer obtained after the rotation does not sign for the key the object holds now (%v)", err)
		return
	}
	// a signature made with the new key by the standard library
	var rsig []byte
	if ek, ok := b.priv.(ed25519.PrivateKey); ok {
		rsig = ed25519.Sign(ek, content)
	} else {
		rsig = sig
	}
	r.Lib(func() { err = vf.Verify(content, rsig) })
	r.Check()
	if err != nil {
		r.Fail("rotated-key-object-answers-for-old-key/Verifier", "the verifier obtained after the rotation refuses a signature of the key the object holds now: %v", err)
		return
	}
	r.Outcome("rotated/" + a.name + "->" + b.name)
}

func samePrivate(got any, want crypto.Signer) bool {
	switch w := want.(type) {
	case ed25519.PrivateKey:
		g, ok := got.(ed25519.PrivateKey)
		return ok && bytes.Equal(g, w)
	case *ecdsa.PrivateKey:
		g, ok := got.(*ecdsa.PrivateKey)
		return ok && g.D.Cmp(w.D) == 0 && sameECPub(&g.PublicKey, &w.PublicKey)
	}
	return false
}

// c14Peer: a valid key written by a peer (reference encoder; coordinates full
// length, d possibly trimmed) converts to the Go key it was derived from.
func c14Peer(r *Run, t *tape.Tape, ent *Entropy) {
	var ks *KeySpec
	for i := 0; i < 8; i++ {
		ks = genKeySpec(t)
		if ks.Pair != nil {
			break
		}
	}
	if ks.Pair == nil {
		r.Skip("no asymmetric key drawn")
	}
	// ops that forbid the conversion are C15's business
	ks.Ops, ks.HasOps = nil, false
	if ks.Kty == refcose.KtyOKP && len(ks.D) > 32 {
		// (the generator's deliberately oversized d is C15's input, not a valid key)
		ks.D = ks.D[:32]
	}
	b := ks.Bytes()
	r.Op("KEY_PUT", "peer-written %s", ks.Desc)
	r.Outcome("peer/" + fmt.Sprint(ks.Kty) + fmt.Sprintf("/private=%v", ks.D != nil))
	var k cose.Key
	var err error
	r.Lib(func() { err = k.UnmarshalCBOR(b) })
	r.Check()
	if err != nil {
		r.Fail("peer-key-refused", "a valid COSE_Key written by a peer was refused: %v\n%x", err, b)
		return
	}
	if ks.X != nil || ks.Kty == refcose.KtyOKP && ks.D != nil {
		var pub any
		r.Lib(func() { pub, err = k.PublicKey() })
		r.Check()
		if ks.X != nil {
			switch want := ks.Pair.Pub.(type) {
			case *ecdsa.PublicKey:
				if pp, ok := pub.(*ecdsa.PublicKey); err != nil || !ok || !sameECPub(pp, want) {
					r.Fail("peer-public-key-differs/EC2", "PublicKey() of a peer-written key: %v\n%x", err, b)
					return
				}
			case ed25519.PublicKey:
				if pp, ok := pub.(ed25519.PublicKey); err != nil || !ok || !bytes.Equal(pp, want) {
					r.Fail("peer-public-key-differs/OKP", "PublicKey() of a peer-written key: %v\n%x", err, b)
					return
				}
			}
		}
	}
	if ks.D != nil {
		var priv any
		r.Lib(func() { priv, err = k.PrivateKey() })
		r.Check()
		switch want := ks.Pair.Priv.(type) {
		case *ecdsa.PrivateKey:
			if pp, ok := priv.(*ecdsa.PrivateKey); err != nil || !ok || pp.D.Cmp(want.D) != 0 || !sameECPub(&pp.PublicKey, &want.PublicKey) {
				r.Fail("peer-private-key-differs/EC2", "PrivateKey() of a peer-written key: %v\n%x", err, b)
				return
			}
		case ed25519.PrivateKey:
			if pp, ok := priv.(ed25519.PrivateKey); err != nil || !ok || !bytes.Equal(pp, want) {
				r.Fail("peer-private-key-differs/OKP", "PrivateKey() of a peer-written key (x present=%v): %v\n%x", ks.X != nil, err, b)
				return
			}
		}
		r.Outcome("peer-private-ok")
	}
}

// ---------------------------------------------------------------------------
// C15

func opsClass(ks *KeySpec) string {
	if !ks.HasOps {
		return "ops-absent"
	}
	if len(ks.Ops) == 0 {
		return "ops-empty"
	}
	return "ops-present"
}

func scenarioC15(r *Run) {
	t := r.T
	if t.Bool(1, 40, "c15.foreigncurve") {
		c15ForeignCurve(r, t)
		return
	}
	ks := genKeySpec(t)
	if t.Bool(1, 16, "c15.bignum") {
		// an application parameter holding a CBOR bignum
		ks.Extra = append(ks.Extra, KV{refcbor.Int(int64(-3000 - t.Choose(100, "c15.bignum.l"))), genBignum(t)})
	}
	if t.Bool(1, 16, "c15.sizesteer") {
		// a bulky application parameter (a certificate chain, say) that brings
		// the serialised key to a round size: where a size limit would sit
		target := []int{4096, 8192, 16384, 65536}[t.Choose(4, "c15.sizesteer.n")] + t.Choose(3, "c15.sizesteer.d") - 1
		fill := KV{refcbor.Int(-70100), refcbor.Bstr(make([]byte, 300))}
		ks.Extra = append(ks.Extra, fill)
		for i := 0; i < 4; i++ {
			n := len(ks.Bytes())
			if n == target {
				break
			}
			l := len(ks.Extra[len(ks.Extra)-1].V.Data) + target - n
			if l < 256 {
				break
			}
			ks.Extra[len(ks.Extra)-1].V = refcbor.Bstr(make([]byte, l))
		}
		if len(ks.Bytes()) == target {
			r.Probe("key-size-steered-to-a-round-number")
		}
	}
	stored := ks.Bytes()
	if t.Bool(1, 3, "c15.noncanonical") {
		// a peer need not write deterministically
		it := ks.Item()
		applyKnobs(genKnobs(t), it)
		stored = refcbor.Encode(it)
	}
	r.Op("KEY_PUT", "%s %s", ks.Desc, opsClass(ks))
	fm := GenFaultMix(t)
	for i, nf := 0, t.Pick([]int{3, 4, 2, 1}, "c15.nfaults"); i < nf; i++ {
		if out, k := fm.WireFault(t, stored); k != "" {
			stored = out
			r.Fired(k)
		}
	}
	r.Op("KEY_LOAD", "%s", hexShort(stored))
	r.Outcome(fmt.Sprintf("kty=%d/%s", ks.Kty, opsClass(ks)))
	var k cose.Key
	var err error
	var keptSigner cose.Signer
	var keptVerifier cose.Verifier
	var keptBytes []byte
	_ = keptVerifier
	if t.Bool(1, 3, "c15.slot") {
		// the directory re-uses its Key variable: it held another (valid,
		// private, unrestricted) key before
		prev := genKeySpec(t)
		prev.Ops, prev.HasOps = nil, false
		pb := prev.Bytes()
		r.Lib(func() { err = k.UnmarshalCBOR(pb) })
		if err == nil {
			r.Fired("dest.reuse.ok")
			r.Op("KEY_LOAD", "same variable, earlier: %s", prev.Desc)
			if t.Bool(2, 3, "c15.slot.used") {
				// ... and that key was used
				r.Lib(func() { k.Signer(); k.Verifier(); k.PublicKey(); k.PrivateKey() })
			}
			if t.Bool(1, 2, "c15.slot.keptsigner") {
				// ... and the signer / verifier taken from it then are still in
				// use after the variable has been loaded with the next key:
				// they stay those of the key they were taken from
				r.Lib(func() { keptSigner, _ = k.Signer() })
				r.Lib(func() { keptVerifier, _ = k.Verifier() })
				keptBytes = pb
			}
		}
	}
	defer func() {
		if keptBytes == nil || r.Viol != nil {
			return
		}
		pv, e := refcose.ViewKey(keptBytes)
		if e != nil {
			return
		}
		ppub := viewPublicFromD(pv)
		if ppub == nil {
			ppub = viewPublic(pv)
		}
		content := []byte("c15 kept signer")
		if keptSigner != nil && ppub != nil {
			var sig []byte
			var se error
			r.Lib(func() { sig, se = keptSigner.Sign(NewEntropy(77), content) })
			r.Check()
			if se != nil || int64(keptSigner.Algorithm()) != pv.FixedAlg() || !refcose.ValidSignature(pv.FixedAlg(), ppub, content, sig) {
				r.Fail("kept-signer-follows-the-key-variable", "a signer taken from a Key variable, used after another key was loaded into that variable: Sign returned %v, algorithm %d (key it was taken from: %d), signature valid under that key: %v\nfirst key:  %s\nsecond key: %s",
					se, int64(keptSigner.Algorithm()), pv.FixedAlg(), se == nil && refcose.ValidSignature(pv.FixedAlg(), ppub, content, sig), hexShort(keptBytes), hexShort(stored))
			}
			r.Probe("kept-signer-still-of-its-key")
		}
	}()
	r.Lib(func() { err = k.UnmarshalCBOR(stored) })
	if err != nil {
		r.Outcome("refused")
		return
	}
	r.Check()
	r.Outcome("accepted")
	if cerr := refcose.KeyConsistent(stored); cerr != nil {
		if stripped, n := strip55799(stored); n > 0 && refcose.KeyConsistent(stripped) == nil {
			r.Fail("accepts-inconsistent-key/tag55799-transparent", "Key.UnmarshalCBOR accepted a key with a parameter wrapped in CBOR tag 55799: %v\n%s", cerr, hexShort(stored))
		} else {
			r.Fail("accepts-inconsistent-key/"+errClass(cerr), "Key.UnmarshalCBOR accepted a key that is not consistent: %v\n%s", cerr, hexShort(stored))
		}
		return
	}
	view, verr := refcose.ViewKey(stored)
	if verr != nil {
		r.Fail("accepts-inconsistent-key/"+errClass(verr), "accepted key unreadable for the reference: %v\n%s", verr, hexShort(stored))
		return
	}
	// canonical fixpoint
	var enc1, enc2 []byte
	r.Lib(func() { enc1, err = k.MarshalCBOR() })
	if err != nil {
		r.Fail("accepted-key-cannot-be-encoded", "a decoded key cannot be re-encoded: %v\n%s", err, hexShort(stored))
		return
	}
	// root-cause discrimination for the re-encoding checks below: the CBOR
	// library decodes a map key tagged 0 or 1 (date/time) into time.Time and
	// encodes it back as a bare number, which can collide with an integer key
	// of the same nested map
	timeKey := hasTimeTaggedMapKey(stored)
	if why := refcbor.IsCanonicalBytes(enc1); why != "" {
		if timeKey {
			r.Fail("reencoding-breaks/time-tagged-map-key", "a nested map with a key tagged 0/1 (date/time) is re-encoded with that key as a bare number: %s\nstored: %s\nre-encoded: %x", why, hexShort(stored), enc1)
			return
		}
		r.Fail("key-encoding-not-canonical", "re-encoded key is not deterministic CBOR: %s\n%x", why, enc1)
		return
	}
	// re-encoding neither invents nor drops a parameter, and changes no value
	// except for the zero-padding of EC2 x and y.  Keys that carry a CBOR tag
	// anywhere are left out: the CBOR library maps date/time tags and bignums
	// to Go types that it writes back in another (equivalent or not) form,
	// which is the subject of the known findings and not of this comparison.
	if it0, perr := refcbor.ParseOne(stored); perr == nil && !hasAnyTag(it0) {
		{
			if why := keyParamsDiffer(stored, enc1, view); why != "" {
				r.Fail("reencoding-changes-key-parameters", "MarshalCBOR of an accepted key %s\nstored:     %s\nre-encoded: %x", why, hexShort(stored), enc1)
				return
			}
		}
	}
	var k2 cose.Key
	r.Lib(func() { err = k2.UnmarshalCBOR(enc1) })
	if err != nil {
		if it, perr := refcbor.ParseOne(stored); perr == nil && bignumBeyondInt64(it) && strings.Contains(err.Error(), "overflows Go's int64") {
			r.Fail("reencoding-breaks/bignum-beyond-int64", "a key parameter holds a bignum (tag 2/3) whose value needs more than int64 but fits 64 bits; it is re-encoded as a plain 8-byte integer, which the decoder refuses: %v\nstored: %s\nre-encoded: %x", err, hexShort(stored), enc1)
			return
		}
		if timeKey {
			r.Fail("reencoding-breaks/time-tagged-map-key", "the re-encoding of an accepted key with a date/time-tagged map key is refused: %v\nstored: %s\nre-encoded: %x", err, hexShort(stored), enc1)
			return
		}
		r.Fail("reencoded-key-refused", "the re-encoding of an accepted key is refused: %v\nstored: %s\nre-encoded: %x", err, hexShort(stored), enc1)
		return
	}
	r.Lib(func() { enc2, err = k2.MarshalCBOR() })
	if err != nil || !bytes.Equal(enc1, enc2) {
		r.Fail("key-reencoding-not-a-fixpoint", "encode(decode(encode(k))) differs from encode(k) (%v)\nfirst:  %x\nsecond: %x", err, enc1, enc2)
		return
	}
	// restrictions
	var s cose.Signer
	var v cose.Verifier
	var serr, verr2 error
	r.Lib(func() { s, serr = k.Signer() })
	r.Lib(func() { v, verr2 = k.Verifier() })
	r.Check()
	{
		// what an accepted key re-encodes to does not depend on whether it was
		// used in between (asked for its signer, verifier, Go keys, algorithm)
		r.Lib(func() { k.PublicKey(); k.PrivateKey(); k.AlgorithmOrDefault() })
		var enc3 []byte
		var err3 error
		r.Lib(func() { enc3, err3 = k.MarshalCBOR() })
		r.Check()
		if err3 != nil || !bytes.Equal(enc3, enc1) {
			r.Fail("reencoding-changes-once-the-key-was-used", "an accepted key re-encodes differently after Signer()/Verifier()/PublicKey()/PrivateKey()/AlgorithmOrDefault() were called on it (%v)\nbefore: %x\nafter:  %x", err3, enc1, enc3)
			return
		}
	}
	tagged := false
	if _, n := strip55799(stored); n > 0 {
		tagged = true
	}
	if serr == nil && s != nil {
		r.Outcome("signer")
		switch {
		case !view.MaySign() && tagged:
			r.Fail("accepts-inconsistent-key/tag55799-transparent", "Signer() obtained from a key whose parameters are wrapped in tag 55799\n%s", hexShort(stored))
		case view.Kty != refcose.KtyEC2 && view.Kty != refcose.KtyOKP:
			r.Fail("signer-from-unsupported-key-type", "Signer() succeeded for kty %d\n%s", view.Kty, hexShort(stored))
		case !nonEmpty(view.D):
			r.Fail("signer-without-private-material", "Signer() succeeded although d is absent or empty\n%s", hexShort(stored))
		case !view.OpsAllow(refcose.KeyOpSign):
			r.Fail("signer-despite-key-ops/"+opsShape(view), "Signer() succeeded although key_ops is present and does not contain sign\n%s", hexShort(stored))
		case int64(s.Algorithm()) != view.FixedAlg() || view.FixedAlg() == 0:
			r.Fail("signer-for-other-algorithm", "Signer().Algorithm() = %d, the key fixes %d\n%s", int64(s.Algorithm()), view.FixedAlg(), hexShort(stored))
		}
	}
	if verr2 == nil && v != nil {
		r.Outcome("verifier")
		switch {
		case !view.MayVerify() && tagged:
			r.Fail("accepts-inconsistent-key/tag55799-transparent", "Verifier() obtained from a key whose parameters are wrapped in tag 55799\n%s", hexShort(stored))
		case view.Kty != refcose.KtyEC2 && view.Kty != refcose.KtyOKP:
			r.Fail("verifier-from-unsupported-key-type", "Verifier() succeeded for kty %d\n%s", view.Kty, hexShort(stored))
		case !nonEmpty(view.X) || (view.Kty == refcose.KtyEC2 && !nonEmpty(view.Y)):
			r.Fail("verifier-without-public-point", "Verifier() succeeded although the public point is absent\n%s", hexShort(stored))
		case !view.OpsAllow(refcose.KeyOpVerify):
			r.Fail("verifier-despite-key-ops/"+opsShape(view), "Verifier() succeeded although key_ops is present and does not contain verify\n%s", hexShort(stored))
		case int64(v.Algorithm()) != view.FixedAlg() || view.FixedAlg() == 0:
			r.Fail("verifier-for-other-algorithm", "Verifier().Algorithm() = %d, the key fixes %d\n%s", int64(v.Algorithm()), view.FixedAlg(), hexShort(stored))
		}
	}
	if r.Viol != nil || ks.Pair == nil || tagged {
		// (tagged: the library reads through tag 55799, the reference does not -
		// that difference is the known finding and is reported above)
		return
	}
	// "for the key": what the stored bytes say, not what the variable held
	// before.  The verifier must judge a signature of the generated key pair
	// exactly as the reference does with the public point READ FROM THE BYTES,
	// and the signer must sign for that point when the bytes carry a d that
	// belongs to it.
	pub := viewPublic(view)
	content := []byte("c15 key use")
	ent := NewEntropy(uint64(t.U32("c15.ent")))
	if verr2 == nil && v != nil && pub != nil {
		sig := foreignSign(ks.Pair.withAlg(view.FixedAlg()), content, ent)
		want := refcose.ValidSignature(view.FixedAlg(), pub, content, sig)
		var e error
		r.Lib(func() { e = v.Verify(content, sig) })
		r.Check()
		if (e == nil) != want {
			r.Fail("verifier-not-for-the-stored-key", "Verifier() of the loaded key judges a signature of %s as %v, the public point in the stored bytes makes it %v\n%s", ks.Pair.Name, e == nil, want, hexShort(stored))
			return
		}
		r.Outcome(fmt.Sprintf("verifier-behaves/%v", want))
	}
	if serr == nil && s != nil {
		var sig []byte
		var e error
		r.Lib(func() { sig, e = s.Sign(ent, content) })
		r.Check()
		if e != nil {
			return
		}
		// the library derives the public half from d when it signs; compare
		// with the key d defines
		// (only where the stored x/y, if any, is the point d defines: the
		// property does not speak about keys whose halves disagree)
		dpub := viewPublicFromD(view)
		if dpub != nil && !samePublic(dpub, pub) {
			return
		}
		if dpub != nil && !refcose.ValidSignature(view.FixedAlg(), dpub, content, sig) {
			r.Fail("signer-not-for-the-stored-key", "Signer() of the loaded key produced a signature that the key defined by the stored d does not verify\n%s", hexShort(stored))
			return
		}
		r.Outcome("signer-behaves")
	}
}

// viewPublic builds the Go public key from the public point in the bytes.
func viewPublic(v *refcose.KeyView) crypto.PublicKey {
	if v.Crv == nil || v.Crv.Major > refcbor.MNint {
		return nil
	}
	crv, ok := v.Crv.Int64()
	if !ok {
		return nil
	}
	switch {
	case v.Kty == refcose.KtyOKP && crv == refcose.CrvEd25519 && nonEmpty(v.X) && len(v.X.Data) == ed25519.PublicKeySize:
		return ed25519.PublicKey(append([]byte{}, v.X.Data...))
	case v.Kty == refcose.KtyEC2 && nonEmpty(v.X) && nonEmpty(v.Y):
		c := curveOfCrv(crv)
		if c == nil {
			return nil
		}
		return &ecdsa.PublicKey{Curve: c, X: new(big.Int).SetBytes(v.X.Data), Y: new(big.Int).SetBytes(v.Y.Data)}
	}
	return nil
}

func viewPublicFromD(v *refcose.KeyView) crypto.PublicKey {
	if v.Crv == nil || !nonEmpty(v.D) {
		return nil
	}
	crv, ok := v.Crv.Int64()
	if !ok {
		return nil
	}
	switch {
	case v.Kty == refcose.KtyOKP && crv == refcose.CrvEd25519 && len(v.D.Data) == ed25519.SeedSize:
		return ed25519.NewKeyFromSeed(v.D.Data).Public()
	case v.Kty == refcose.KtyEC2:
		c := curveOfCrv(crv)
		d := new(big.Int).SetBytes(v.D.Data)
		if c == nil || d.Sign() == 0 || d.Cmp(c.Params().N) >= 0 {
			return nil
		}
		return &ecKeyFromScalar(c, d).PublicKey
	}
	return nil
}

func curveOfCrv(crv int64) elliptic.Curve {
	switch crv {
	case refcose.CrvP256:
		return elliptic.P256()
	case refcose.CrvP384:
		return elliptic.P384()
	case refcose.CrvP521:
		return elliptic.P521()
	}
	return nil
}

func nonEmpty(it *refcbor.Item) bool {
	return it != nil && it.Major == refcbor.MBstr && len(it.Data) > 0
}

func opsShape(v *refcose.KeyView) string {
	if len(v.Ops) == 0 {
		return "ops-empty"
	}
	return "ops-nonempty"
}

// hasTimeTaggedMapKey reports whether some map (at any depth) has a key
// wrapped in tag 0 or 1 (possibly under tag 55799 wrappers).
func hasTimeTaggedMapKey(b []byte) bool {
	it, err := refcbor.ParseOne(b)
	if err != nil {
		return false
	}
	found := false
	refcbor.Walk(it, func(x *refcbor.Item, _ int) {
		if x.Major != refcbor.MMap {
			return
		}
		for i := 0; i+1 < len(x.Elems); i += 2 {
			k := x.Elems[i]
			for k.Major == refcbor.MTag && k.Arg == 55799 && len(k.Elems) == 1 {
				k = k.Elems[0]
			}
			if k.Major == refcbor.MTag && (k.Arg == 0 || k.Arg == 1) {
				found = true
			}
		}
	})
	return found
}

// c14Records: a key store with fixed-size records: the key material of several
// keys sits in ONE caller-owned buffer and each COSE_Key is built from
// sub-slices of it (NewKeyOKP / NewKeyEC2).  Converting one key must neither
// change that buffer nor affect the next key.
func c14Records(r *Run, t *tape.Tape, ent *Entropy) {
	n := 2 + t.Choose(3, "c14.rec.n")
	if t.Bool(1, 2, "c14.rec.okp") {
		buf := make([]byte, 0, 32*n)
		var privs []ed25519.PrivateKey
		for i := 0; i < n; i++ {
			seed := t.Bytes(32, "c14.rec.seed")
			privs = append(privs, ed25519.NewKeyFromSeed(seed))
			buf = append(buf, seed...)
		}
		orig := append([]byte{}, buf...)
		r.Op("KEY_PUT", "%d Ed25519 seeds in one record buffer", n)
		r.Outcome(fmt.Sprintf("records/okp/n=%d", n))
		keys := make([]*cose.Key, n)
		for i := 0; i < n; i++ {
			var err error
			pub := privs[i].Public().(ed25519.PublicKey)
			x := append([]byte{}, pub...)
			if t.Bool(1, 3, "c14.rec.nox") {
				x = nil
			}
			r.Lib(func() { keys[i], err = cose.NewKeyOKP(cose.AlgorithmEdDSA, x, buf[32*i:32*i+32]) })
			if err != nil {
				r.Check()
				r.Fail("newkeyokp-fails", "NewKeyOKP refused a valid seed: %v", err)
				return
			}
		}
		for i := 0; i < n; i++ {
			var got any
			var err error
			r.Lib(func() { got, err = keys[i].PrivateKey() })
			r.Check()
			if gp, ok := got.(ed25519.PrivateKey); err != nil || !ok || !bytes.Equal(gp, privs[i]) {
				r.Fail("record-private-key-differs/OKP", "PrivateKey() of record %d of %d differs from the key its seed defines (%v)", i, n, err)
				return
			}
			if !bytes.Equal(buf, orig) {
				r.Fail("conversion-writes-into-caller-buffer/OKP", "after PrivateKey() of record %d the caller's record buffer changed\nbefore: %x\n after: %x", i, orig, buf)
				return
			}
			var s cose.Signer
			r.Lib(func() { s, err = keys[i].Signer() })
			if err != nil {
				r.Fail("signer-from-stored-key-fails/Ed25519", "%v", err)
				return
			}
			var sig []byte
			r.Lib(func() { sig, err = s.Sign(ent, []byte("record")) })
			if err != nil || !ed25519.Verify(privs[i].Public().(ed25519.PublicKey), []byte("record"), sig) {
				r.Fail("record-signer-signs-with-other-key/OKP", "the signer of record %d does not sign with that record's key (%v)", i, err)
				return
			}
		}
		if !bytes.Equal(buf, orig) {
			r.Check()
			r.Fail("conversion-writes-into-caller-buffer/OKP", "the caller's record buffer changed\nbefore: %x\n after: %x", orig, buf)
		}
		return
	}
	// EC2 records: x || y || d per key, minimal-length slices into one buffer
	var buf []byte
	type rec struct {
		priv       *ecdsa.PrivateKey
		xo, yo, do [2]int
	}
	var recs []rec
	for i := 0; i < n; i++ {
		k := freshECKey(t).Priv.(*ecdsa.PrivateKey)
		var rc rec
		rc.priv = k
		for j, b := range [][]byte{k.X.Bytes(), k.Y.Bytes(), k.D.Bytes()} {
			off := [2]int{len(buf), len(buf) + len(b)}
			buf = append(buf, b...)
			switch j {
			case 0:
				rc.xo = off
			case 1:
				rc.yo = off
			default:
				rc.do = off
			}
		}
		recs = append(recs, rc)
	}
	orig := append([]byte{}, buf...)
	r.Op("KEY_PUT", "%d EC2 records in one buffer", n)
	r.Outcome(fmt.Sprintf("records/ec2/n=%d", n))
	for i, rc := range recs {
		var k *cose.Key
		var err error
		alg := cose.Algorithm(algForCurve(rc.priv.Curve))
		r.Lib(func() {
			k, err = cose.NewKeyEC2(alg, buf[rc.xo[0]:rc.xo[1]], buf[rc.yo[0]:rc.yo[1]], buf[rc.do[0]:rc.do[1]])
		})
		if err != nil {
			r.Check()
			r.Fail("newkeyec2-fails", "NewKeyEC2 refused valid material: %v", err)
			return
		}
		if t.Bool(1, 3, "c14.noalg") {
			k.Algorithm = cose.AlgorithmReserved
		}
		b, back, ok := r.c14Store(k, rc.priv.Curve.Params().Name, nil)
		if !ok {
			return
		}
		c14CheckCoords(r, b, (rc.priv.Curve.Params().BitSize+7)/8, rc.priv.Curve.Params().Name+"/record")
		var got any
		r.Lib(func() { got, err = back.PrivateKey() })
		r.Check()
		if gp, ok := got.(*ecdsa.PrivateKey); err != nil || !ok || gp.D.Cmp(rc.priv.D) != 0 || !sameECPub(&gp.PublicKey, &rc.priv.PublicKey) {
			r.Fail("record-private-key-differs/EC2", "PrivateKey() of record %d differs (%v)", i, err)
			return
		}
		if !bytes.Equal(buf, orig) {
			r.Fail("conversion-writes-into-caller-buffer/EC2", "after handling record %d the caller's record buffer changed", i)
			return
		}
	}
}

func samePublic(a, b crypto.PublicKey) bool {
	switch x := a.(type) {
	case ed25519.PublicKey:
		y, ok := b.(ed25519.PublicKey)
		return b == nil || (ok && bytes.Equal(x, y))
	case *ecdsa.PublicKey:
		y, ok := b.(*ecdsa.PublicKey)
		return ok && sameECPub(x, y)
	}
	return false
}

// keyParamsDiffer compares the parameters of a stored key with those of its
// re-encoding: same labels, same values (compared in canonical form), except
// that EC2 x and y may gain leading zero bytes up to the field size.
func keyParamsDiffer(stored, reenc []byte, view *refcose.KeyView) string {
	a, err1 := refcbor.ParseOne(stored)
	b, err2 := refcbor.ParseOne(reenc)
	if err1 != nil || err2 != nil || a.Major != refcbor.MMap || b.Major != refcbor.MMap {
		return ""
	}
	index := func(m *refcbor.Item) (map[string]*refcbor.Item, []string) {
		out := map[string]*refcbor.Item{}
		var order []string
		for i := 0; i+1 < len(m.Elems); i += 2 {
			k := string(refcbor.CanonicalBytes(m.Elems[i]))
			out[k] = m.Elems[i+1]
			order = append(order, k)
		}
		return out, order
	}
	am, aorder := index(a)
	bm, border := index(b)
	for _, k := range border {
		if _, ok := am[k]; !ok {
			return fmt.Sprintf("invents a parameter (label %x) that the stored key does not have", k)
		}
	}
	isCoord := func(k string) bool {
		return view.Kty == refcose.KtyEC2 && (k == "\x21" || k == "\x22") // labels -2, -3
	}
	for _, k := range aorder {
		bv, ok := bm[k]
		av := am[k]
		if !ok {
			if v, isInt := av.Int64(); k == "\x03" && av.IsInt() && isInt && v == 0 {
				// alg 0 (reserved) is what go-cose's Key uses for "no alg"
				continue
			}
			return fmt.Sprintf("drops the parameter with label %x", k)
		}
		if isCoord(k) && av.Major == refcbor.MBstr && bv.Major == refcbor.MBstr {
			if !bytes.Equal(bytes.TrimLeft(av.Data, "\x00"), bytes.TrimLeft(bv.Data, "\x00")) {
				return fmt.Sprintf("changes coordinate %x beyond zero padding", k)
			}
			continue
		}
		// values: only the key material itself is compared (kty, crv, and the
		// parameters -1..-4 of EC2/OKP/symmetric keys).  Other values may be
		// respelt by the CBOR round trip without the statement being
		// concerned (operation names as integers, undefined as null, ...).
		material := k == "\x01" || k == "\x20" || k == "\x21" || k == "\x22" || k == "\x23"
		if material && (av.Major == refcbor.MBstr || av.IsInt()) && !itemsEquivalent(av, bv) {
			return fmt.Sprintf("changes the value of the key-material parameter with label %x", k)
		}
	}
	return ""
}

// itemsEquivalent: same data item up to encoding choices (head widths, map
// order, float width).
func itemsEquivalent(a, b *refcbor.Item) bool {
	af, aIsF := floatOf(a)
	bf, bIsF := floatOf(b)
	if aIsF || bIsF {
		return aIsF && bIsF && (af == bf || (af != af && bf != bf))
	}
	if a.Major != b.Major {
		return false
	}
	switch a.Major {
	case refcbor.MArray:
		if len(a.Elems) != len(b.Elems) {
			return false
		}
		for i := range a.Elems {
			if !itemsEquivalent(a.Elems[i], b.Elems[i]) {
				return false
			}
		}
		return true
	case refcbor.MTag:
		return a.Arg == b.Arg && itemsEquivalent(a.Elems[0], b.Elems[0])
	case refcbor.MMap:
		if len(a.Elems) != len(b.Elems) {
			return false
		}
		for i := 0; i+1 < len(a.Elems); i += 2 {
			found := false
			for j := 0; j+1 < len(b.Elems); j += 2 {
				if itemsEquivalent(a.Elems[i], b.Elems[j]) && itemsEquivalent(a.Elems[i+1], b.Elems[j+1]) {
					found = true
					break
				}
			}
			if !found {
				return false
			}
		}
		return true
	}
	return bytes.Equal(refcbor.CanonicalBytes(a), refcbor.CanonicalBytes(b))
}

func floatOf(it *refcbor.Item) (float64, bool) {
	if it.Major != refcbor.MSimple {
		return 0, false
	}
	switch it.Width {
	case 8:
		return math.Float64frombits(it.Arg), true
	case 4:
		return float64(math.Float32frombits(uint32(it.Arg))), true
	case 2:
		return halfToFloat(uint16(it.Arg)), true
	}
	return 0, false
}

func halfToFloat(h uint16) float64 {
	sign := 1.0
	if h&0x8000 != 0 {
		sign = -1
	}
	exp := int(h>>10) & 0x1f
	frac := float64(h & 0x3ff)
	switch exp {
	case 0:
		return sign * math.Ldexp(frac, -24)
	case 31:
		if frac == 0 {
			return sign * math.Inf(1)
		}
		return math.NaN()
	}
	return sign * math.Ldexp(frac+1024, exp-25)
}

func hasAnyTag(it *refcbor.Item) bool {
	if it == nil {
		return false
	}
	if it.Major == refcbor.MTag {
		return true
	}
	for _, e := range it.Elems {
		if hasAnyTag(e) {
			return true
		}
	}
	return false
}

// goOpsAllow: key_ops absent, or present and listing op.
func goOpsAllow(k *cose.Key, op cose.KeyOp) bool {
	if k.Ops == nil {
		return true
	}
	for _, o := range k.Ops {
		if o == op {
			return true
		}
	}
	return false
}

// foreignCurves: Go curve values that are none of P-256, P-384, P-521 - keys
// on them are unsupported keys, whatever their bit size.
func foreignCurves() []*elliptic.CurveParams {
	hex := func(s string) *big.Int { n, _ := new(big.Int).SetString(s, 16); return n }
	k1 := &elliptic.CurveParams{Name: "secp256k1", BitSize: 256,
		P:  hex("fffffffffffffffffffffffffffffffffffffffffffffffffffffffefffffc2f"),
		N:  hex("fffffffffffffffffffffffffffffffebaaedce6af48a03bbfd25e8cd0364141"),
		B:  big.NewInt(7),
		Gx: hex("79be667ef9dcbbac55a06295ce870b07029bfcdb2dce28d959f2815b16f81798"),
		Gy: hex("483ada7726a3c4655da4fbfc0e1108a8fd17b448a68554199c47d08ffb10d4b8")}
	out := []*elliptic.CurveParams{k1, elliptic.P224().Params()}
	// private parameter sets of the common sizes (brainpool-like: same
	// sizes as the NIST curves, other constants)
	for _, c := range []elliptic.Curve{elliptic.P256(), elliptic.P384(), elliptic.P521()} {
		p := *c.Params()
		p.Name = "private-" + p.Name
		p.B = new(big.Int).Add(p.B, big.NewInt(1))
		out = append(out, &p)
	}
	return out
}

// c15ForeignCurve: a Go key on a curve this library has no algorithm for is
// an unsupported key: whatever the constructors make of it, no signer and no
// verifier comes out.
func c15ForeignCurve(r *Run, t *tape.Tape) {
	cs := foreignCurves()
	c := cs[t.Choose(len(cs), "c15.foreign.curve")]
	// any point will do: the key is unsupported because of its curve
	x := new(big.Int).SetBytes(t.Bytes((c.BitSize+7)/8, "c15.foreign.x"))
	y := new(big.Int).SetBytes(t.Bytes((c.BitSize+7)/8, "c15.foreign.y"))
	if c.Name == "secp256k1" {
		x, y = c.Gx, c.Gy
	}
	x.Mod(x, c.P)
	y.Mod(y, c.P)
	priv := &ecdsa.PrivateKey{PublicKey: ecdsa.PublicKey{Curve: c, X: x, Y: y}, D: big.NewInt(int64(1 + t.Choose(1000, "c15.foreign.d")))}
	r.Op("KEY_PUT", "Go ECDSA key on %s (%d bits)", c.Name, c.BitSize)
	r.Outcome("foreign-curve/" + c.Name)
	var k1, k2 *cose.Key
	var e1, e2 error
	r.Lib(func() { k1, e1 = cose.NewKeyFromPrivate(priv) })
	r.Lib(func() { k2, e2 = cose.NewKeyFromPublic(&priv.PublicKey) })
	r.Check()
	if e1 == nil && k1 != nil {
		var s cose.Signer
		var err error
		r.Lib(func() { s, err = k1.Signer() })
		if err == nil && s != nil {
			r.Fail("signer-for-unsupported-key/go-curve-"+c.Name, "NewKeyFromPrivate made a COSE_Key (crv %v, alg %v) of a Go key on %s, and Key.Signer() yields a signer for %v", k1.Params[cose.KeyLabelEC2Curve], k1.Algorithm, c.Name, s.Algorithm())
			return
		}
	}
	if e2 == nil && k2 != nil {
		var v cose.Verifier
		var err error
		r.Lib(func() { v, err = k2.Verifier() })
		if err == nil && v != nil {
			r.Fail("verifier-for-unsupported-key/go-curve-"+c.Name, "NewKeyFromPublic made a COSE_Key (crv %v, alg %v) of a Go key on %s, and Key.Verifier() yields a verifier for %v", k2.Params[cose.KeyLabelEC2Curve], k2.Algorithm, c.Name, v.Algorithm())
			return
		}
	}
	r.Probe("foreign-go-curve-refused")
}
