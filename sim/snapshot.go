package sim

import (
	"fmt"
	"reflect"
	"sort"
	"strings"
)

// Snapshot renders a value deeply and deterministically: dynamic types,
// nil versus empty, map entries sorted by rendered key, pointers followed.
// Two values with equal snapshots are indistinguishable to any reader; the
// string is also what "unchanged" means for the read-only and atomicity
// properties (C12, C18, C19).
func Snapshot(v any) string {
	var b strings.Builder
	snap(&b, reflect.ValueOf(v), 0)
	return b.String()
}

func snap(b *strings.Builder, v reflect.Value, depth int) {
	if depth > 400 {
		b.WriteString("<deep>")
		return
	}
	if !v.IsValid() {
		b.WriteString("<nil>")
		return
	}
	switch v.Kind() {
	case reflect.Interface:
		if v.IsNil() {
			b.WriteString("iface(nil)")
			return
		}
		snap(b, v.Elem(), depth+1)
	case reflect.Ptr:
		if v.IsNil() {
			fmt.Fprintf(b, "(*%s)(nil)", v.Type().Elem())
			return
		}
		b.WriteString("&")
		snap(b, v.Elem(), depth+1)
	case reflect.Struct:
		fmt.Fprintf(b, "%s{", v.Type())
		for i := 0; i < v.NumField(); i++ {
			if i > 0 {
				b.WriteString(", ")
			}
			b.WriteString(v.Type().Field(i).Name)
			b.WriteString(":")
			snap(b, v.Field(i), depth+1)
		}
		b.WriteString("}")
	case reflect.Map:
		if v.IsNil() {
			fmt.Fprintf(b, "%s(nil)", v.Type())
			return
		}
		type kv struct{ k, v string }
		var es []kv
		it := v.MapRange()
		for it.Next() {
			var kb, vb strings.Builder
			snap(&kb, it.Key(), depth+1)
			snap(&vb, it.Value(), depth+1)
			es = append(es, kv{kb.String(), vb.String()})
		}
		sort.Slice(es, func(i, j int) bool {
			if es[i].k != es[j].k {
				return es[i].k < es[j].k
			}
			return es[i].v < es[j].v
		})
		fmt.Fprintf(b, "%s{", v.Type())
		for i, e := range es {
			if i > 0 {
				b.WriteString(", ")
			}
			b.WriteString(e.k)
			b.WriteString(": ")
			b.WriteString(e.v)
		}
		b.WriteString("}")
	case reflect.Slice:
		if v.IsNil() {
			fmt.Fprintf(b, "%s(nil)", v.Type())
			return
		}
		if v.Type().Elem().Kind() == reflect.Uint8 {
			fmt.Fprintf(b, "%s(h'%x')", v.Type(), v.Bytes())
			return
		}
		fmt.Fprintf(b, "%s[", v.Type())
		for i := 0; i < v.Len(); i++ {
			if i > 0 {
				b.WriteString(", ")
			}
			snap(b, v.Index(i), depth+1)
		}
		b.WriteString("]")
	case reflect.Array:
		fmt.Fprintf(b, "%s[", v.Type())
		for i := 0; i < v.Len(); i++ {
			if i > 0 {
				b.WriteString(", ")
			}
			snap(b, v.Index(i), depth+1)
		}
		b.WriteString("]")
	case reflect.String:
		fmt.Fprintf(b, "%s(%q)", v.Type(), v.String())
	case reflect.Bool:
		fmt.Fprintf(b, "%s(%v)", v.Type(), v.Bool())
	case reflect.Int, reflect.Int8, reflect.Int16, reflect.Int32, reflect.Int64:
		fmt.Fprintf(b, "%s(%d)", v.Type(), v.Int())
	case reflect.Uint, reflect.Uint8, reflect.Uint16, reflect.Uint32, reflect.Uint64, reflect.Uintptr:
		fmt.Fprintf(b, "%s(%d)", v.Type(), v.Uint())
	case reflect.Float32, reflect.Float64:
		fmt.Fprintf(b, "%s(%x)", v.Type(), v.Float())
	case reflect.Func, reflect.Chan, reflect.UnsafePointer:
		fmt.Fprintf(b, "%s(%v)", v.Type(), v.IsNil())
	default:
		fmt.Fprintf(b, "%s(?)", v.Type())
	}
}

// diffSnapshot shows where two snapshots first differ (for violation details).
func diffSnapshot(a, b string) string {
	i := 0
	for i < len(a) && i < len(b) && a[i] == b[i] {
		i++
	}
	lo := i - 80
	if lo < 0 {
		lo = 0
	}
	cut := func(s string) string {
		hi := i + 120
		if hi > len(s) {
			hi = len(s)
		}
		return s[lo:hi]
	}
	return fmt.Sprintf("before: ...%s...\n after: ...%s...", cut(a), cut(b))
}
