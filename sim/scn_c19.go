package sim

import (
	"bytes"
	"fmt"
	"reflect"

	cose "github.com/veraison/go-cose"

	"verif/refcbor"
	"verif/refcose"
	"verif/tape"
)

func init() {
	Scenarios["C19"] = scenarioC19
	Infos["C19"] = ScenarioInfo{
		Level: "exploration",
		Rule: "one run = a server that recycles structs and network buffers: one long-lived destination variable per decoder (Sign1Message, UntaggedSign1Message, SignMessage, Signature, Countersignature, ProtectedHeader, UnprotectedHeader), three reusable buffers, " +
			"a pool of byte strings (valid messages of every kind with nested countersignatures, stand-alone objects and buckets, damaged variants, other kinds' encodings, truncations) and a tape-chosen history of <= 16 operations LOAD(buffer <- bytes), DECODE(destination <- buffer), " +
			"SCRIBBLE(buffer or an earlier encoder output), ENCODE(destination -> new output), MUTATE(the application edits one decoded copy: no other destination, and no later decode of the same bytes, may be affected). Reference model per destination: the value obtained by decoding a pristine private copy of the last successfully decoded bytes into a fresh variable (zero value if none). " +
			"After every operation each destination's deep snapshot must equal the model's; after a failing DECODE it must also equal the snapshot taken just before; no byte slice reachable from a destination may point into a harness buffer or an earlier output (checked on addresses, independent of the scribble pattern). " +
			"One run in twelve is a CONCURRENT_DECODE block instead: 2-4 caller tasks (request handlers) each decode 1-3 byte strings of the pool (half of the blocks: plus a chain of 4-12 nested countersignatures; a third: every task the same inputs) from buffers and into destinations of their own, " +
			"under a schedule drawn from the tape before the tasks start (every statement of go-cose is a preemption point: explicit preemptions, seeded random with stickiness, or lock step); every result (verdict and deep snapshot of the value, input buffer untouched) must equal what the same bytes give when decoded alone afterwards - what other goroutines are decoding at that moment is history like any other. " +
			"Non-trivial = at least one successful and one further decode into the same destination, or a scribble after a decode; distinct = distinct (operation kinds, decoders, outcomes) sequence.",
		Assumptions: []string{"deep snapshots (types, nil vs empty, map contents, pointer graph) are what a reader can observe of a value"},
		Real:        []string{"github.com/veraison/go-cose decoders and encoders", "github.com/fxamacker/cbor/v2"},
		Stubs:       []string{"server loop reusing destinations and buffers", "wire traffic with fault injection", "foreign peer (reference model)", "entropy source", "caller tasks of the concurrent-decode blocks (serialised by the tape-driven scheduler)"},
		QuickRuns:   100000, ThoroughRuns: 2000000,
	}
}

type c19Dest struct {
	dec      *Decoder
	val      any    // long-lived destination
	model    []byte // pristine copy of the last successfully decoded bytes (nil: none yet)
	decodes  int
	failures int
	good     string // snapshot taken right after the last successful decode
	dirty    bool   // the application has edited its decoded copy since
}

type addrRange struct {
	lo, hi uintptr
	name   string
}

// aliasOf reports a byte slice reachable from v whose backing array lies in
// one of the ranges.
func aliasOf(v reflect.Value, ranges []addrRange, depth int, path string) string {
	if depth > 40 || !v.IsValid() {
		return ""
	}
	switch v.Kind() {
	case reflect.Interface, reflect.Ptr:
		if v.IsNil() {
			return ""
		}
		return aliasOf(v.Elem(), ranges, depth+1, path)
	case reflect.Struct:
		for i := 0; i < v.NumField(); i++ {
			if s := aliasOf(v.Field(i), ranges, depth+1, path+"."+v.Type().Field(i).Name); s != "" {
				return s
			}
		}
	case reflect.Map:
		it := v.MapRange()
		for it.Next() {
			if s := aliasOf(it.Key(), ranges, depth+1, path+"[key]"); s != "" {
				return s
			}
			if s := aliasOf(it.Value(), ranges, depth+1, path+"[...]"); s != "" {
				return s
			}
		}
	case reflect.Slice:
		if v.IsNil() {
			return ""
		}
		if v.Type().Elem().Kind() == reflect.Uint8 {
			if v.Cap() == 0 {
				return ""
			}
			p := v.Pointer()
			for _, r := range ranges {
				if p >= r.lo && p < r.hi {
					return fmt.Sprintf("%s points into %s", path, r.name)
				}
			}
			return ""
		}
		for i := 0; i < v.Len(); i++ {
			if s := aliasOf(v.Index(i), ranges, depth+1, fmt.Sprintf("%s[%d]", path, i)); s != "" {
				return s
			}
		}
	}
	return ""
}

func rangeOf(b []byte, name string) (addrRange, bool) {
	if cap(b) == 0 {
		return addrRange{}, false
	}
	p := reflect.ValueOf(b[:cap(b)]).Pointer()
	return addrRange{lo: p, hi: p + uintptr(cap(b)), name: name}, true
}

type c19Item struct {
	b   []byte
	dec string // decoder the bytes were made for (a hint for pairing, nothing else)
}

func c19Pool(r *Run, t *tape.Tape) []c19Item {
	ent := NewEntropy(uint64(t.U32("entropy.seed")))
	fm := GenFaultMix(t)
	var pool []c19Item
	nmsg := 2 + t.Choose(3, "c19.pool.msgs")
	for i := 0; i < nmsg; i++ {
		w := r.GenWire(t, TrafficOpts{Spec: SpecOpts{MaxExtra: 3, MaxSigner: 3, Cheap: true}, CsigDepth: 2, Abbrev: true, ForeignPct: 40, Detach: true}, ent)
		if w == nil {
			continue
		}
		pool = append(pool, c19Item{w.B, w.Dec})
		if t.Bool(1, 3, "c19.pool.stripped") {
			// the same message after a relay stripped unprotected buckets
			// (an empty map on the wire): the commonest bucket there is
			b := w.B
			for k := 0; k < 3; k++ {
				if out, _, ok := StructFault(t, b, "unprot-clear"); ok {
					b = out
				}
			}
			pool = append(pool, c19Item{b, w.Dec})
			r.Fired("unprot-clear")
		}
		objs := Objects(w)
		for j := 0; j < 3 && len(objs) > 0; j++ {
			o := objs[t.Choose(len(objs), "c19.pool.obj")]
			pool = append(pool, c19Item{o.B, o.Dec})
		}
	}
	if t.Bool(1, 6, "c19.pool.manysigners") {
		// a COSE_Sign with many signers (6-12 distinct COSE_Signature entries)
		w := r.GenWire(t, TrafficOpts{Spec: SpecOpts{Kinds: []refcose.Kind{refcose.KSignTagged}, MaxExtra: 1, MaxSigner: 12, Cheap: true}, ForeignPct: 50}, ent)
		if w != nil {
			pool = append(pool, c19Item{w.B, w.Dec})
			r.Probe("pool-holds-cose-sign-with-up-to-12-signers")
		}
	}
	if t.Bool(1, 4, "c19.pool.algonly") {
		// the commonest protected bucket there is - {1: alg} and nothing else -
		// in several of its values, of equal length, as stand-alone items: read
		// one after the other into the same buffer they differ in one octet
		algs := [][]byte{{0x43, 0xa1, 0x01, 0x26}, {0x43, 0xa1, 0x01, 0x27}, {0x43, 0xa1, 0x01, 0x40}, {0x43, 0xa1, 0x01, 0x20},
			{0x44, 0xa1, 0x01, 0x38, 0x22}, {0x44, 0xa1, 0x01, 0x38, 0x23}, {0x44, 0xa1, 0x01, 0x38, 0x24}, {0x44, 0xa1, 0x01, 0x38, 0x25}, {0x44, 0xa1, 0x01, 0x38, 0x26}}
		for i, k := 0, 2+t.Choose(3, "c19.pool.algonly.n"); i < k; i++ {
			pool = append(pool, c19Item{append([]byte{}, algs[t.Choose(len(algs), "c19.pool.algonly.v")]...), "ProtectedHeader"})
		}
		r.Probe("pool-holds-alg-only-protected-buckets")
	}
	n := len(pool)
	for i := 0; i < n && i < 6; i++ {
		src := pool[t.Choose(n, "c19.pool.src")]
		if out, k := fm.WireFault(t, src.b); k != "" {
			pool = append(pool, c19Item{out, src.dec})
			r.Fired(k)
		}
		if len(src.b) > 2 && t.Bool(1, 3, "c19.pool.trunc?") {
			pool = append(pool, c19Item{append([]byte{}, src.b[:1+t.Choose(len(src.b)-1, "c19.pool.trunc")]...), src.dec})
			r.Fired("truncate")
		}
	}
	return pool
}

// c19Twins: a message is decoded, then its near twin (twins.go): what the
// second decode returns is a function of the twin's own bytes.
func c19Twins(r *Run, t *tape.Tape) {
	tw := genTwins(t)
	r.Fired("history.near-twin/" + tw.how)
	var ma, mb cose.Sign1Message
	var ea, eb error
	r.Lib(func() { ea = ma.UnmarshalCBOR(append([]byte{}, tw.a...)) })
	r.Lib(func() { eb = mb.UnmarshalCBOR(append([]byte{}, tw.b...)) })
	r.Op("DECODE", "message -> %s, near twin (%s) -> %s", errTag(ea), tw.how, errTag(eb))
	r.Outcome("neartwin/" + tw.how + "/" + errTag(eb))
	r.Check()
	if ea != nil {
		r.Fail("conforming-message-refused/near-twin", "a conforming COSE_Sign1 is refused: %v\n%s", ea, hexShort(tw.a))
	}
	if tw.malformed {
		if eb == nil {
			r.Fail("verdict-depends-on-history/near-twin/"+tw.how, "a COSE_Sign1 whose protected bucket repeats label 3 is accepted after a message with a protected bucket of the same %s was decoded\nfirst:  %s\nsecond: %s", tw.how, hexShort(tw.a), hexShort(tw.b))
		}
		return
	}
	if eb != nil {
		r.Fail("verdict-depends-on-history/near-twin/"+tw.how, "a conforming COSE_Sign1 is refused (%v) after its near twin was decoded\nfirst:  %s\nsecond: %s", eb, hexShort(tw.a), hexShort(tw.b))
	}
	ct, _ := mb.Headers.Protected[int64(3)].(string)
	patch, _ := mb.Headers.Protected[int64(-70000)].([]byte)
	wantRaw := refcbor.Encode(refcbor.Bstr(tw.protB))
	if ct != tw.textB || !bytes.Equal(patch, tw.patchB) || !bytes.Equal(mb.Headers.RawProtected, wantRaw) {
		r.Fail("decoded-value-depends-on-history/near-twin/"+tw.how, "the second of two messages whose protected buckets share %s decodes to content type %q, -70000: %x, raw protected %x; its bytes say %q, %x, %x", tw.how, ct, patch, mb.Headers.RawProtected, tw.textB, tw.patchB, wantRaw)
	}
	cta, _ := ma.Headers.Protected[int64(3)].(string)
	if cta != tw.textA {
		r.Fail("earlier-decoded-value-changed-by-later-operation/near-twin", "the first message's content type reads %q after its twin was decoded, its bytes say %q", cta, tw.textA)
	}
}

// c19Concurrent: several request handlers decode at the same time, each from
// a buffer of its own into a destination of its own.  What another goroutine
// is decoding at that moment is history like any other: every result equals
// what the same bytes give when decoded alone.  The interleaving of the
// decoders (every statement of go-cose is a preemption point) is drawn from
// the tape before the tasks start.
func c19Concurrent(r *Run, t *tape.Tape) {
	pool := c19Pool(r, t)
	if t.Bool(1, 2, "c19.conc.deep") {
		// a long chain of nested countersignatures: decoders that call
		// themselves, so that several are in flight at different depths
		ent := NewEntropy(uint64(t.U32("entropy.seed")))
		spec := genSpec(t, SpecOpts{MaxExtra: 1, MaxSigner: 1, Cheap: true})
		depth := 4 + t.Choose(9, "c19.conc.depth")
		w := r.ForeignWire(t, spec, genKnobs(t), ent, false, depth, false)
		pool = append(pool, c19Item{w.B, decoderForKind(spec.Kind).Name})
		r.Probe("concurrent-decodes-of-deep-countersignature-chain")
	}
	if len(pool) == 0 {
		r.Outcome("no-traffic")
		return
	}
	type job struct {
		dec  *Decoder
		src  []byte
		buf  []byte
		val  any
		err  error
		lp   string
		done bool
	}
	ntasks := 2 + t.Choose(3, "c19.conc.tasks")
	herd := t.Bool(1, 3, "c19.conc.herd")
	pick := func() *job {
		it := pool[t.Choose(len(pool), "c19.conc.item")]
		var dec *Decoder
		for i := range WireDecoders {
			if WireDecoders[i].Name == it.dec {
				dec = &WireDecoders[i]
			}
		}
		if dec == nil || t.Bool(1, 5, "c19.conc.anydec") {
			dec = &WireDecoders[t.Choose(len(WireDecoders), "c19.conc.dec")]
		}
		return &job{dec: dec, src: it.b}
	}
	plans := make([][]*job, ntasks)
	var names []string
	for ti := range plans {
		n := 1 + t.Choose(3, "c19.conc.njobs")
		for j := 0; j < n; j++ {
			var jb *job
			if herd && ti > 0 && j < len(plans[0]) {
				jb = &job{dec: plans[0][j].dec, src: plans[0][j].src}
			} else {
				jb = pick()
			}
			jb.buf = append(make([]byte, 0, len(jb.src)+16), jb.src...)
			jb.val = jb.dec.New()
			plans[ti] = append(plans[ti], jb)
			names = append(names, fmt.Sprintf("%d:%s(%dB)", ti, jb.dec.Name, len(jb.src)))
		}
	}
	cfg := SchedConfig{Mode: t.Choose(2, "c19.sched.mode"), First: t.Choose(ntasks, "c19.sched.first"), CheckEvery: -1}
	if herd && t.Bool(1, 2, "c19.sched.lockstep") {
		cfg.Mode = 2
	}
	if cfg.Mode == 0 {
		np := 1 + t.Choose(8, "c19.sched.npre")
		at := int64(0)
		for i := 0; i < np; i++ {
			at += int64(1 + t.Choose(300, "c19.sched.at"))
			cfg.PreAt = append(cfg.PreAt, at)
			cfg.PreTo = append(cfg.PreTo, t.Choose(ntasks, "c19.sched.to"))
		}
	} else if cfg.Mode == 1 {
		cfg.Seed = uint64(t.U32("c19.sched.seed"))
		cfg.Stick = []uint32{0, 500, 900, 990}[t.Choose(4, "c19.sched.stick")]
	}
	r.Op("CONCURRENT_DECODE", "%d tasks %v, schedule mode=%d first=%d preemptions=%d herd=%v", ntasks, names, cfg.Mode, cfg.First, len(cfg.PreAt), herd)
	tasks := make([]func(), ntasks)
	for ti := range plans {
		jobs := plans[ti]
		tasks[ti] = func() {
			for _, jb := range jobs {
				jb := jb
				if lp := call(func() { jb.err = jb.dec.Into(jb.val, jb.buf) }); lp != nil {
					jb.lp = fmt.Sprintf("%v in %s", lp.Value, lp.Frame)
				}
				jb.done = true
			}
		}
	}
	SetPermHook(nil) // the tasks must not touch the tape: canonical map order inside the block and in the reference decodes
	res := RunConcurrent(cfg, tasks, func() string { return "" })
	if res.Aborted {
		r.Skip("schedule infeasible: a task blocked outside a yield point")
	}
	r.Steps += int(res.Steps)
	r.Logf("schedule hash %x steps %d switches %d", res.Hash, res.Steps, res.Switches)
	r.sched = append(r.sched, res.Hash)
	if res.Switches > 0 {
		r.Fired("preempt@site")
	}
	r.Fired("history.concurrent-decodes")
	r.Outcome(fmt.Sprintf("concurrent-decodes/tasks=%d/switches=%s", ntasks, bucket(res.Switches)))
	for ti, jobs := range plans {
		for j, jb := range jobs {
			r.Check()
			if jb.lp != "" {
				r.Fail("panic-in-concurrent-decode/"+jb.dec.Name, "task %d decode %d panicked: %s\n%s", ti, j, jb.lp, hexShort(jb.src))
				return
			}
			want := jb.dec.New()
			var werr error
			r.Lib(func() { werr = jb.dec.Into(want, append([]byte{}, jb.src...)) })
			if (werr == nil) != (jb.err == nil) {
				r.Fail("decode-depends-on-concurrent-decodes/"+jb.dec.Name, "task %d decode %d (%s, %d bytes): alone the decoder answers %v, while %d other tasks were decoding it answered %v\nschedule: mode=%d switches=%d hash=%x\n%s", ti, j, jb.dec.Name, len(jb.src), werr, ntasks-1, jb.err, cfg.Mode, res.Switches, res.Hash, hexShort(jb.src))
				return
			}
			if werr == nil {
				if a, b := Snapshot(want), Snapshot(jb.val); a != b {
					r.Fail("decode-depends-on-concurrent-decodes/"+jb.dec.Name, "task %d decode %d (%s): the value decoded while other tasks were decoding differs from the value the same bytes give alone\n%s", ti, j, jb.dec.Name, diffSnapshot(a, b))
					return
				}
			} else if a, b := Snapshot(jb.dec.New()), Snapshot(jb.val); a != b {
				r.Fail("failed-decode-modifies-destination/"+jb.dec.Name+"/concurrent", "task %d decode %d (%s) was refused and left something in its fresh destination\n%s", ti, j, jb.dec.Name, diffSnapshot(a, b))
				return
			}
			if !bytes.Equal(jb.buf, jb.src) {
				r.Fail("decoder-writes-to-input/"+jb.dec.Name+"/concurrent", "task %d decode %d (%s): the input buffer differs after the decode", ti, j, jb.dec.Name)
				return
			}
		}
	}
}

func scenarioC19(r *Run) {
	t := r.T
	if t.Bool(1, 20, "c19.neartwin") {
		c19Twins(r, t)
		return
	}
	if t.Bool(1, 12, "c19.concurrent") {
		c19Concurrent(r, t)
		return
	}
	if t.Bool(1, 10, "c19.algstream") {
		c19AlgStream(r, t)
		return
	}
	pool := c19Pool(r, t)
	if len(pool) == 0 {
		r.Outcome("no-traffic")
		return
	}
	dests := make([]*c19Dest, len(WireDecoders))
	for i := range WireDecoders {
		dests[i] = &c19Dest{dec: &WireDecoders[i], val: WireDecoders[i].New()}
	}
	// three reusable network buffers with spare capacity
	bufs := make([][]byte, 3)
	for i := range bufs {
		bufs[i] = make([]byte, 0, 4096)
	}
	loaded := make([][]byte, 3) // what each buffer currently holds (a view into bufs[i])
	hint := make([]string, 3)
	var outputs [][]byte
	var ranges func() []addrRange
	ranges = func() []addrRange {
		var rs []addrRange
		for i, b := range bufs {
			if ar, ok := rangeOf(b, fmt.Sprintf("network buffer %d", i)); ok {
				rs = append(rs, ar)
			}
		}
		for i, o := range outputs {
			if ar, ok := rangeOf(o, fmt.Sprintf("encoder output %d", i)); ok {
				rs = append(rs, ar)
			}
		}
		return rs
	}
	// values the application took out of a destination by plain assignment
	// (`job := *msg`, a shallow copy sharing slices and maps) before the
	// destination was decoded into again: an earlier result stays what it was
	type keptCopy struct {
		src  *c19Dest
		val  any
		snap string
	}
	var kept []*keptCopy
	checkAll := func(after string) bool {
		rs := ranges()
		for _, k := range kept {
			r.Check()
			if now := Snapshot(k.val); now != k.snap {
				r.Fail("earlier-decoded-value-changed-by-later-operation/"+k.src.dec.Name+"/after-"+opClass(after),
					"a value copied out of the %s destination (plain struct assignment) before that destination was used again differs after %s from what it was when it was taken\n%s", k.src.dec.Name, after, diffSnapshot(k.snap, now))
				return false
			}
		}
		for _, d := range dests {
			r.Check()
			want := d.dec.New()
			if d.model != nil {
				var err error
				pristine := append([]byte{}, d.model...)
				r.Lib(func() { err = d.dec.Into(want, pristine) })
				if err != nil {
					r.Fail("decode-not-a-function-of-input/"+d.dec.Name, "bytes that decoded before are refused when decoded into a fresh variable: %v\n%s", err, hexShort(d.model))
					return false
				}
			}
			if d.dirty {
				// the application edited this copy itself; it is judged again
				// after its next successful decode
				continue
			}
			got, exp := Snapshot(d.val), Snapshot(want)
			if d.model != nil && exp != d.good {
				r.Fail("decode-depends-on-history/"+d.dec.Name+"/after-"+opClass(after),
					"decoding the same bytes into a fresh variable gives another value now than it gave before (after %s)\n%s\ninput: %s", after, diffSnapshot(d.good, exp), hexShort(d.model))
				return false
			}
			if d.model != nil && got != d.good {
				r.Fail("decoded-value-changed-behind-its-back/"+d.dec.Name+"/after-"+opClass(after),
					"after %s the %s destination differs from what it held right after its own decode, although nothing operated on it\n%s", after, d.dec.Name, diffSnapshot(d.good, got))
				return false
			}
			if got != exp {
				r.Fail("destination-differs-from-fresh-decode/"+d.dec.Name+"/after-"+opClass(after),
					"after %s the long-lived %s destination (decodes so far: %d ok, %d failed) differs from decoding its last good input into a fresh variable\n%s\nlast good input: %s",
					after, d.dec.Name, d.decodes, d.failures, diffSnapshot(exp, got), hexShort(d.model))
				return false
			}
			if a := aliasOf(reflect.ValueOf(d.val), rs, 0, d.dec.Name); a != "" {
				r.Fail("decoded-value-aliases-buffer/"+d.dec.Name, "after %s: %s", after, a)
				return false
			}
		}
		return true
	}
	verdicts := map[string]bool{} // (decoder, bytes) -> accepted
	nops := 4 + t.Choose(13, "c19.nops")
	interesting := false
	for op := 0; op < nops; op++ {
		switch t.Pick([]int{3, 6, 3, 2, 2, 1}, "c19.op") {
		case 5: // CROSS: the same header map meets both bucket decoders
			var cands []int
			for i, it := range pool {
				if it.dec == "ProtectedHeader" || it.dec == "UnprotectedHeader" {
					cands = append(cands, i)
				}
			}
			if len(cands) == 0 {
				continue
			}
			item := pool[cands[t.Choose(len(cands), "c19.cross.src")]]
			x := item.b
			if item.dec == "ProtectedHeader" {
				if it, perr := refcbor.ParseOne(x); perr == nil && it.Major == refcbor.MBstr && len(it.Data) > 0 {
					x = it.Data
				} else {
					continue
				}
			}
			bx := refcbor.Encode(refcbor.Bstr(x))
			var pd, ud *Decoder
			for i := range WireDecoders {
				switch WireDecoders[i].Name {
				case "ProtectedHeader":
					pd = &WireDecoders[i]
				case "UnprotectedHeader":
					ud = &WireDecoders[i]
				}
			}
			first, other, fin, oin := ud, pd, x, bx
			if t.Bool(1, 2, "c19.cross.order") {
				first, other, fin, oin = pd, ud, bx, x
			}
			var e1, e2 error
			r.Lib(func() { e1 = first.Into(first.New(), append([]byte{}, fin...)) })
			r.Lib(func() { other.Into(other.New(), append([]byte{}, oin...)) })
			r.Lib(func() { e2 = first.Into(first.New(), append([]byte{}, fin...)) })
			r.Op("CROSS", "%s, then %s, then %s again on one header map (%dB)", first.Name, other.Name, first.Name, len(x))
			r.Fired("decode.same-map-in-both-buckets")
			r.Check()
			if (e1 == nil) != (e2 == nil) {
				r.Fail("decode-verdict-changes-over-time/"+first.Name+"/after-other-bucket", "%s.UnmarshalCBOR judged the same bytes differently after %s had decoded the same header map (accepted before: %v, now: %v)\nmap: %s", first.Name, other.Name, e1 == nil, e2 == nil, hexShort(x))
				return
			}
			interesting = true
		case 0: // LOAD
			bi := t.Choose(3, "c19.buf")
			item := pool[t.Choose(len(pool), "c19.src")]
			src := item.b
			if len(src) > cap(bufs[bi]) {
				bufs[bi] = make([]byte, 0, len(src)*2)
			}
			bufs[bi] = bufs[bi][:len(src)]
			copy(bufs[bi], src)
			loaded[bi], hint[bi] = bufs[bi], item.dec
			r.Op("LOAD", "buffer %d <- %dB (%s)", bi, len(src), item.dec)
			if !checkAll("LOAD") {
				return
			}
		case 1: // DECODE
			bi := t.Choose(3, "c19.buf")
			if loaded[bi] == nil {
				item := pool[t.Choose(len(pool), "c19.src")]
				src := item.b
				if len(src) > cap(bufs[bi]) {
					bufs[bi] = make([]byte, 0, len(src)*2)
				}
				bufs[bi] = bufs[bi][:len(src)]
				copy(bufs[bi], src)
				loaded[bi], hint[bi] = bufs[bi], item.dec
			}
			d := dests[t.Choose(len(dests), "c19.dest")]
			if t.Bool(2, 3, "c19.dest.match") {
				// pair the bytes with the decoder they were made for, so that
				// destinations are really reused by successful decodes
				for _, cand := range dests {
					if cand.dec.Name == hint[bi] {
						d = cand
					}
				}
			}
			before := Snapshot(d.val)
			input := loaded[bi]
			if d.dec.Name == "UnprotectedHeader" && t.Bool(1, 2, "c19.unwrap") {
				// the content of a protected bucket (a map inside a byte
				// string) offered to the unprotected-bucket decoder as it is,
				// and the other way round below: the same map bytes meet both
				// bucket decoders in one process
				if it, perr := refcbor.ParseOne(input); perr == nil && it.Major == refcbor.MBstr && len(it.Data) > 0 {
					input = append(bufs[bi][:0], it.Data...)
					bufs[bi], loaded[bi] = input, input
				}
			} else if d.dec.Name == "ProtectedHeader" && t.Bool(1, 3, "c19.wrap") {
				if it, perr := refcbor.ParseOne(input); perr == nil && it.Major == refcbor.MMap {
					wrapped := refcbor.Encode(refcbor.Bstr(input))
					input = append(bufs[bi][:0], wrapped...)
					bufs[bi], loaded[bi] = input, input
				}
			}
			pristine := append([]byte{}, input...)
			var err error
			r.Lib(func() { err = d.dec.Into(d.val, input) })
			// one decoder, one byte string, one verdict - today and later
			vk := d.dec.Name + "/" + string(pristine)
			if prev, seen := verdicts[vk]; seen && prev != (err == nil) {
				r.Check()
				r.Fail("decode-verdict-changes-over-time/"+d.dec.Name, "%s.UnmarshalCBOR judged the same bytes differently than earlier in this process (accepted before: %v, accepted now: %v)\ninput: %s", d.dec.Name, prev, err == nil, hexShort(pristine))
				return
			}
			verdicts[vk] = err == nil
			r.Op("DECODE", "%s <- buffer %d (%dB): %s", d.dec.Name, bi, len(input), errTag(err))
			if err == nil {
				// the decoded algorithm is the one THESE bytes name (judged by
				// the reference parser, not by another decode of the library: a
				// process-wide memory of earlier inputs misleads both alike)
				var protRaw []byte
				var libProt cose.ProtectedHeader
				switch v := d.val.(type) {
				case *cose.ProtectedHeader:
					protRaw, libProt = pristine, *v
				case *cose.Sign1Message:
					protRaw, libProt = v.Headers.RawProtected, v.Headers.Protected
				case *cose.UntaggedSign1Message:
					protRaw, libProt = v.Headers.RawProtected, v.Headers.Protected
				case *cose.Signature:
					protRaw, libProt = v.Headers.RawProtected, v.Headers.Protected
				case *cose.Countersignature:
					protRaw, libProt = v.Headers.RawProtected, v.Headers.Protected
				}
				if len(protRaw) > 0 {
					if wa, _, perr := protAlgOnWire(protRaw); perr == nil && untagged55799(protRaw) {
						la, lerr := libProt.Algorithm()
						r.Check()
						if wa == nil && lerr == nil {
							r.Fail("decoded-header-not-a-function-of-its-bytes/"+d.dec.Name, "the protected bytes carry no alg, the decoded header answers alg %d\nprotected: %x", int64(la), protRaw)
							return
						}
						if wa != nil && wa.IsInt() {
							if v, ok := wa.Int64(); ok && (lerr != nil || int64(la) != v) {
								r.Fail("decoded-header-not-a-function-of-its-bytes/"+d.dec.Name, "the protected bytes say alg %d, the decoded header answers (%d, %v)\nprotected: %x", v, int64(la), lerr, protRaw)
								return
							}
						}
					}
				}
				if d.decodes > 0 || d.failures > 0 {
					interesting = true
					r.Fired("dest.reuse.ok")
				}
				d.decodes++
				d.model = pristine
				d.good, d.dirty = Snapshot(d.val), false
				if len(kept) < 6 && t.Bool(1, 3, "c19.keep") {
					cp := reflect.New(reflect.TypeOf(d.val).Elem())
					cp.Elem().Set(reflect.ValueOf(d.val).Elem())
					kept = append(kept, &keptCopy{src: d, val: cp.Interface(), snap: Snapshot(cp.Interface())})
					r.Fired("app.keeps-shallow-copy")
				}
			} else {
				if d.decodes > 0 {
					interesting = true
					r.Fired("dest.reuse.fail")
				}
				d.failures++
				// refused for the bytes, not for the variable: a fresh
				// destination refuses them too
				fresh := d.dec.New()
				var ferr error
				r.Lib(func() { ferr = d.dec.Into(fresh, append([]byte{}, pristine...)) })
				r.Check()
				if ferr == nil {
					r.Fail("decode-verdict-depends-on-destination/"+d.dec.Name, "%s.UnmarshalCBOR refused bytes in a previously used destination (decodes so far: %d ok, %d failed) that it accepts in a fresh one: %v\ninput: %s", d.dec.Name, d.decodes, d.failures-1, err, hexShort(pristine))
					return
				}
				r.Check()
				if after := Snapshot(d.val); after != before {
					r.Fail("failed-decode-modifies-destination/"+d.dec.Name, "a failing %s.UnmarshalCBOR changed its destination\n%s\ninput: %s", d.dec.Name, diffSnapshot(before, after), hexShort(pristine))
					return
				}
			}
			if !checkAll("DECODE") {
				return
			}
		case 2: // SCRIBBLE
			if len(outputs) > 0 && t.Bool(1, 3, "c19.scribble.out") {
				o := outputs[t.Choose(len(outputs), "c19.out")]
				for i := range o {
					o[i] ^= 0xa5
				}
				r.Op("SCRIBBLE", "earlier encoder output (%dB)", len(o))
				r.Fired("out.scribble")
			} else {
				bi := t.Choose(3, "c19.buf")
				full := bufs[bi][:cap(bufs[bi])]
				pat := byte(t.Choose(256, "c19.pattern"))
				for i := range full {
					full[i] = pat ^ byte(i)
				}
				r.Op("SCRIBBLE", "buffer %d", bi)
				r.Fired("buf.scribble")
			}
			for _, d := range dests {
				if d.decodes > 0 {
					interesting = true
				}
			}
			if !checkAll("SCRIBBLE") {
				return
			}
		case 4: // MUTATE: the application edits ITS decoded copy
			var cands []*c19Dest
			for _, d := range dests {
				if d.decodes > 0 && !d.dirty {
					cands = append(cands, d)
				}
			}
			if len(cands) == 0 {
				continue
			}
			d := cands[t.Choose(len(cands), "c19.mutate.dest")]
			if c19Mutate(t, d.val) {
				// (copies taken from this destination share its maps and
				// slices: the application's own edit shows in them, by design)
				n := 0
				for _, k := range kept {
					if k.src != d {
						kept[n] = k
						n++
					}
				}
				kept = kept[:n]
				d.dirty = true
				interesting = true
				r.Op("MUTATE", "%s (application edits its decoded copy)", d.dec.Name)
				r.Fired("app.mutates-decoded-copy")
				if !checkAll("MUTATE") {
					return
				}
			}
		default: // ENCODE
			d := dests[t.Choose(len(dests), "c19.dest")]
			var out []byte
			var err error
			r.Lib(func() { out, err = d.dec.Encode(d.val) })
			r.Op("ENCODE", "%s -> %s", d.dec.Name, errTag(err))
			if err == nil && len(out) > 0 {
				outputs = append(outputs, out)
			}
			if !checkAll("ENCODE") {
				return
			}
		}
	}
	if !interesting {
		// the run made no second decode and no scribble after a decode
		r.Checks = 0
	}
}

func opClass(s string) string { return s }

var _ = tape.Mix

// c19Mutate edits a decoded value in place the way an application may (it owns
// its copy): drops and adds header entries, flips payload/signature bytes.
func c19Mutate(t *tape.Tape, v any) bool {
	editHeaders := func(h *cose.Headers) {
		for k := range h.Protected { // all of them: no choice may depend on map order
			delete(h.Protected, k)
		}
		if h.Protected != nil {
			h.Protected["verif-edit"] = int64(1)
		}
		for k := range h.Unprotected {
			delete(h.Unprotected, k)
		}
		if h.Unprotected != nil {
			h.Unprotected[int64(99999)] = []byte("edited")
		}
		for i := range h.RawProtected {
			h.RawProtected[i] ^= 0x01
		}
	}
	flip := func(b []byte) {
		for i := range b {
			b[i] ^= 0x80
		}
	}
	switch m := v.(type) {
	case *cose.Sign1Message:
		editHeaders(&m.Headers)
		flip(m.Payload)
		flip(m.Signature)
	case *cose.UntaggedSign1Message:
		editHeaders(&m.Headers)
		flip(m.Payload)
		flip(m.Signature)
	case *cose.SignMessage:
		editHeaders(&m.Headers)
		flip(m.Payload)
		for _, s := range m.Signatures {
			if s != nil {
				editHeaders(&s.Headers)
				flip(s.Signature)
			}
		}
	case *cose.Signature:
		editHeaders(&m.Headers)
		flip(m.Signature)
	case *cose.Countersignature:
		editHeaders(&m.Headers)
		flip(m.Signature)
	case *cose.ProtectedHeader:
		if *m == nil {
			return false
		}
		for k := range *m {
			delete(*m, k)
		}
		(*m)["verif-edit"] = int64(1)
	case *cose.UnprotectedHeader:
		if *m == nil {
			return false
		}
		for k := range *m {
			delete(*m, k)
		}
		(*m)[int64(99999)] = []byte("edited")
	default:
		return false
	}
	return true
}

// untagged55799: no tag 55799 anywhere in the item (known findings K1/K2: the
// CBOR library reads through that tag, the reference does not).
func untagged55799(b []byte) bool {
	_, n := strip55799(b)
	return n == 0
}

// c19AlgStream: a receiver reads a stream of stand-alone protected buckets -
// the commonest one there is, {1: alg}, in changing values - one after the
// other into ONE network buffer and decodes each from there (into a fresh or
// into the same header variable).  What each decode returns is what the
// buffer holds at that moment, judged by the reference parser.
func c19AlgStream(r *Run, t *tape.Tape) {
	algs := [][]byte{{0x43, 0xa1, 0x01, 0x26}, {0x43, 0xa1, 0x01, 0x27}, {0x43, 0xa1, 0x01, 0x20}, {0x43, 0xa1, 0x01, 0x40}, {0x43, 0xa1, 0x04, 0x26},
		{0x44, 0xa1, 0x01, 0x38, 0x22}, {0x44, 0xa1, 0x01, 0x38, 0x23}, {0x44, 0xa1, 0x01, 0x38, 0x24}, {0x44, 0xa1, 0x01, 0x38, 0x25}, {0x44, 0xa1, 0x01, 0x38, 0x26}}
	buf := make([]byte, 0, 64)
	var reused cose.ProtectedHeader
	r.Outcome("alg-stream")
	for i, n := 0, 2+t.Choose(5, "c19.algstream.n"); i < n; i++ {
		src := algs[t.Choose(len(algs), "c19.algstream.v")]
		buf = append(buf[:0], src...)
		dst := &reused
		if t.Bool(1, 2, "c19.algstream.fresh") {
			dst = new(cose.ProtectedHeader)
		}
		var err error
		r.Lib(func() { err = dst.UnmarshalCBOR(buf) })
		r.Op("DECODE", "ProtectedHeader <- the one buffer (%x): %s", src, errTag(err))
		r.Fired("buf.reuse")
		r.Check()
		wa, _, perr := protAlgOnWire(src)
		if perr != nil {
			continue
		}
		valid := refcose.WellFormedProtected(src) == nil
		if (err == nil) != valid {
			r.Fail("decode-verdict-depends-on-buffer-history/ProtectedHeader", "bucket %x read into a buffer that held other buckets before: accepted=%v, the reference says well-formed=%v", src, err == nil, valid)
			return
		}
		if err != nil {
			continue
		}
		la, lerr := dst.Algorithm()
		switch {
		case wa == nil && lerr == nil:
			r.Fail("decoded-header-not-a-function-of-its-bytes/ProtectedHeader", "bucket %x carries no alg; decoded from a buffer that held other buckets before, the header answers alg %d", src, int64(la))
			return
		case wa != nil && wa.IsInt():
			if v, ok := wa.Int64(); ok && (lerr != nil || int64(la) != v) {
				r.Fail("decoded-header-not-a-function-of-its-bytes/ProtectedHeader", "bucket %x says alg %d; decoded from a buffer that held other buckets before, the header answers (%d, %v)", src, v, int64(la), lerr)
				return
			}
		}
	}
	r.Probe("alg-only-buckets-streamed-through-one-buffer")
}
