//go:build !verifinstr

package sim

import "time"

// HaveInstr is false when the worker is built directly against /repo: no
// yield points, no control over map iteration order.
const HaveInstr = false

func SiteName(site int) string                      { return "?" }
func NumSites() int                                 { return 0 }
func LibSteps() uint64                              { return 0 }
func SitesHit() []int                               { return nil }
func SetPermHook(f func(n int) []int)               {}
func SetNowHook(f func() time.Time)                 {}
func ClockReads() uint64                            { return 0 }
func SetEnvHook(f func(name string) (string, bool)) {}
func EnvReads() uint64                              { return 0 }

type SchedConfig struct {
	Mode       int
	First      int
	PreAt      []int64
	PreTo      []int
	Seed       uint64
	Stick      uint32
	CheckEvery int64
}

type SchedResult struct {
	Steps       int64
	Switches    int64
	Hash        uint64
	SwitchSites []int
	Violation   string
	Aborted     bool
	// BlockedHandoffs: see the instrumented scheduler
	BlockedHandoffs int
}

// RunConcurrent without instrumentation runs the tasks one after the other
// (scenarios that need the scheduler refuse to run in this build).
func RunConcurrent(cfg SchedConfig, tasks []func(), monitor func() string) SchedResult {
	for _, f := range tasks {
		f()
	}
	return SchedResult{}
}
