package sim

import (
	"crypto"
	"crypto/ecdsa"
	"crypto/ed25519"
	"crypto/rsa"
	"fmt"

	cose "github.com/veraison/go-cose"

	"verif/refcbor"
	"verif/refcose"
	"verif/tape"
)

// SignerSpec is one COSE_Signature of a COSE_Sign in the making.
type SignerSpec struct {
	Layer
	Key *KeyPair
}

// MsgSpec is the abstract description of a message both the issuer (go-cose)
// and the foreign peer (reference model) can build.
type MsgSpec struct {
	Kind     refcose.Kind
	Layer    Layer
	Payload  []byte // never nil
	External []byte // nil, empty or non-empty
	Key      *KeyPair
	Signers  []*SignerSpec
}

var payloadLens = []int{0, 1, 23, 24, 255, 256}
var payloadLensBig = []int{65535, 65536}

func genPayload(t *tape.Tape, big bool) []byte {
	var n int
	switch t.Pick([]int{4, 4, 1}, "payload.kind") {
	case 0:
		n = payloadLens[t.Choose(len(payloadLens), "payload.b")]
	case 1:
		n = t.Choose(64, "payload.n")
	default:
		if big && t.Bool(1, 6, "payload.huge") {
			// around 1 MiB: where an implementation might switch to another
			// way of assembling the message
			n = []int{1<<20 - 1, 1 << 20, 1<<20 + 17}[t.Choose(3, "payload.huge.n")]
		} else if big {
			if t.Bool(1, 2, "payload.big.b") {
				n = payloadLensBig[t.Choose(2, "payload.bigb")]
			} else {
				n = t.Choose(70*1024, "payload.bign")
			}
		} else {
			n = t.Choose(4096, "payload.mid")
		}
	}
	b := t.Bytes(n, "payload")
	if b == nil {
		b = []byte{}
	}
	return b
}

func genExternal(t *tape.Tape) []byte {
	switch t.Pick([]int{3, 1, 3}, "ext.kind") {
	case 0:
		return nil
	case 1:
		return []byte{}
	default:
		return t.Bytes(1+genLen(t, 300), "ext")
	}
}

// SpecOpts steers message generation.
type SpecOpts struct {
	Kinds     []refcose.Kind // allowed kinds (nil: all three)
	MaxExtra  int
	MaxSigner int
	BigOK     bool
	Cheap     bool // avoid RSA / P-521 keys
	// AlgPresent: 0 = by rule (present unless external is non-empty and the
	// tape says otherwise), 1 = always, 2 = never.
	AlgPresent int
	// TaggedProtected: see LayerOpts.Tagged (foreign-issued messages only).
	TaggedProtected bool
}

func genKey(t *tape.Tape, cheap bool) *KeyPair {
	if cheap {
		return pickCheapKey(t)
	}
	return pickKey(t)
}

func genSpec(t *tape.Tape, o SpecOpts) *MsgSpec {
	kinds := o.Kinds
	if kinds == nil {
		kinds = []refcose.Kind{refcose.KSign1Tagged, refcose.KSign1Untagged, refcose.KSignTagged}
	}
	s := &MsgSpec{Kind: kinds[t.Choose(len(kinds), "spec.kind")]}
	s.Payload = genPayload(t, o.BigOK)
	s.External = genExternal(t)
	if o.BigOK && len(s.External) > 0 && t.Bool(1, 6, "ext.big") {
		// externally supplied data is the application's: a transcript, a
		// document - nothing bounds it
		s.External = t.Bytes([]int{65535, 65536, 65537, 1 << 17}[t.Choose(4, "ext.big.n")], "ext.big.b")
	}
	algIn := func() bool {
		switch o.AlgPresent {
		case 1:
			return true
		case 2:
			return false
		}
		if len(s.External) > 0 {
			return t.Bool(2, 3, "spec.alg.present")
		}
		return true
	}
	// where the protected alg is left out (external data), some issuers put
	// the algorithm into the unprotected bucket as a hint for the receiver
	hint := func(l *Layer, alg int64, had bool) {
		if !had && t.Bool(1, 3, "spec.alg.hint") && l.Unprot.lookup(refcose.LAlg) == nil {
			l.Unprot = append(l.Unprot, KV{refcbor.Uint(refcose.LAlg), refcbor.Int(alg)})
		}
	}
	lo := LayerOpts{MaxExtra: o.MaxExtra, Steer: true, Big: o.BigOK, Tagged: o.TaggedProtected}
	if s.Kind == refcose.KSignTagged {
		s.Layer = genLayer(t, lo) // body layer: usually no alg
		if t.Bool(1, 8, "spec.body.alg") {
			// nothing forbids an alg parameter in the body header of a
			// COSE_Sign (some issuers state a "default" there); it governs no
			// signature - each signer's own header and verifier do
			blo := lo
			a := []int64{-7, -8, -35, -36, -37}[t.Choose(5, "spec.body.alg.v")]
			blo.Alg = &a
			s.Layer = genLayer(t, blo)
		}
		n := 1 + t.Choose(max(1, o.MaxSigner), "spec.nsig")
		for i := 0; i < n; i++ {
			k := genKey(t, o.Cheap || n > 2)
			slo := LayerOpts{MaxExtra: min(o.MaxExtra, 3), Steer: t.Bool(1, 4, "spec.sig.steer"), Tagged: o.TaggedProtected}
			had := algIn()
			if had {
				a := k.Alg
				slo.Alg = &a
			}
			sl := genLayer(t, slo)
			hint(&sl, k.Alg, had)
			s.Signers = append(s.Signers, &SignerSpec{Layer: sl, Key: k})
		}
	} else {
		s.Key = genKey(t, o.Cheap)
		had := algIn()
		if had {
			a := s.Key.Alg
			lo.Alg = &a
		}
		s.Layer = genLayer(t, lo)
		hint(&s.Layer, s.Key.Alg, had)
	}
	return s
}

func max(a, b int) int {
	if a > b {
		return a
	}
	return b
}

func (s *MsgSpec) String() string {
	ext := "nil"
	if s.External != nil {
		ext = fmt.Sprintf("%dB", len(s.External))
	}
	d := fmt.Sprintf("%s prot=%s unprot=%s payload=%dB ext=%s", s.Kind, diagBucket(s.Layer.Prot), diagBucket(s.Layer.Unprot), len(s.Payload), ext)
	if s.Key != nil {
		d += " key=" + s.Key.Name
	}
	for i, sg := range s.Signers {
		d += fmt.Sprintf(" signer%d{key=%s prot=%s unprot=%s}", i, sg.Key.Name, diagBucket(sg.Prot), diagBucket(sg.Unprot))
	}
	return d
}

func diagBucket(b Bucket) string {
	s := refcbor.Diag(bucketItem(b, nil))
	if len(s) > 160 {
		s = s[:160] + "..}"
	}
	return s
}

// ---------------------------------------------------------------------------
// Issuer side: go-cose values from a spec

func libHeaders(l Layer, sp Spelling, typedAlg bool) cose.Headers {
	h := cose.Headers{}
	// nil vs empty maps: both occur
	if len(l.Prot) > 0 || (sp.T != nil && sp.T.Bool(1, 2, "hdr.prot.emptymap")) {
		h.Protected = cose.ProtectedHeader(bucketToGo(l.Prot, sp, typedAlg))
	}
	if len(l.Unprot) > 0 || (sp.T != nil && sp.T.Bool(1, 2, "hdr.unprot.emptymap")) {
		h.Unprotected = cose.UnprotectedHeader(bucketToGo(l.Unprot, sp, false))
	}
	return h
}

// LibSign1 builds an unsigned Sign1Message.
func (s *MsgSpec) LibSign1(sp Spelling, typedAlg bool) *cose.Sign1Message {
	return &cose.Sign1Message{Headers: libHeaders(s.Layer, sp, typedAlg), Payload: append([]byte{}, s.Payload...)}
}

// LibSign builds an unsigned SignMessage with one empty slot per signer.
func (s *MsgSpec) LibSign(sp Spelling, typedAlg bool) *cose.SignMessage {
	m := &cose.SignMessage{Headers: libHeaders(s.Layer, sp, typedAlg), Payload: append([]byte{}, s.Payload...)}
	for _, sg := range s.Signers {
		m.Signatures = append(m.Signatures, &cose.Signature{Headers: libHeaders(sg.Layer, sp, typedAlg)})
	}
	return m
}

// ---------------------------------------------------------------------------
// Foreign peer: an independent COSE stack built on the reference model

// Knobs are the encoder freedoms of a peer.
type Knobs struct {
	T       *tape.Tape
	Rewidth int // probability (in 1/16) that an item head is wider than necessary
	Reorder bool
	A0      bool // spell an empty protected header h'a0' instead of h''
	// SignCanonical makes the peer byzantine in one specific, plausible way:
	// it signs over the deterministic re-encoding of its protected headers
	// while sending them in whatever encoding the other knobs chose.  Such a
	// signature is NOT valid over the received bytes.
	SignCanonical bool
	// PSSSalt, when non-zero, makes an RSA peer byzantine: it signs RSASSA-PSS
	// with this salt length instead of the hash length RFC 8230 fixes (-1:
	// the maximum that fits).  Such a signature is not a valid COSE signature.
	PSSSalt int
}

func genKnobs(t *tape.Tape) Knobs {
	return Knobs{T: t, Rewidth: []int{0, 2, 6, 16}[t.Choose(4, "knob.rewidth")], Reorder: t.Bool(2, 3, "knob.reorder"), A0: t.Bool(1, 2, "knob.a0")}
}

var widths = []int{0, 1, 2, 4, 8}

func widen(t *tape.Tape, it *refcbor.Item) bool {
	if it.Major == refcbor.MSimple {
		return false
	}
	minW := it.Width
	var cands []int
	for _, w := range widths {
		if w > minW {
			cands = append(cands, w)
		}
	}
	if len(cands) == 0 {
		return false
	}
	it.Width = cands[t.Choose(len(cands), "knob.width")]
	return true
}

// applyKnobs re-encodes freedoms in place over a whole subtree (not
// descending into byte strings).  It returns how many heads were widened and
// maps reordered.
func applyKnobs(k Knobs, it *refcbor.Item) (widened, reordered int) {
	if k.T == nil {
		return 0, 0
	}
	if k.Rewidth > 0 && k.T.Choose(16, "knob.widen?") < k.Rewidth {
		if widen(k.T, it) {
			widened++
		}
	}
	if it.Major == refcbor.MMap && k.Reorder && len(it.Elems) >= 4 {
		n := len(it.Elems) / 2
		perm := k.T.Perm(n, "knob.perm")
		els := make([]*refcbor.Item, 0, len(it.Elems))
		moved := false
		for i, p := range perm {
			if i != p {
				moved = true
			}
			els = append(els, it.Elems[2*p], it.Elems[2*p+1])
		}
		it.Elems = els
		if moved {
			reordered++
		}
	}
	for _, e := range it.Elems {
		w, r := applyKnobs(k, e)
		widened += w
		reordered += r
	}
	return
}

// ForeignLayer is a layer as the foreign peer put it on the wire.
type ForeignLayer struct {
	ProtContent []byte        // content of the protected bstr
	SignContent []byte        // what the peer puts into its Sig_structure (== ProtContent unless byzantine)
	ProtBstr    *refcbor.Item // the bstr item (head width knob applied)
	Unprot      *refcbor.Item
}

func (r *Run) foreignLayer(l Layer, k Knobs) ForeignLayer {
	var fl ForeignLayer
	if len(l.Prot) == 0 {
		if k.A0 {
			fl.ProtContent = []byte{0xa0}
			r.Probe("foreign-empty-protected-a0")
		} else {
			fl.ProtContent = []byte{}
		}
	} else {
		pm := bucketItem(l.Prot.clone(), nil)
		pm = refcbor.Canonical(pm)
		w, ro := applyKnobs(k, pm)
		if w > 0 || ro > 0 {
			r.Probe("foreign-protected-noncanonical")
		}
		fl.ProtContent = refcbor.Encode(pm)
	}
	fl.SignContent = fl.ProtContent
	if k.SignCanonical && len(l.Prot) > 0 {
		fl.SignContent = refcbor.CanonicalBytes(bucketItem(l.Prot.clone(), nil))
	} else if k.SignCanonical {
		fl.SignContent = []byte{}
	}
	fl.ProtBstr = refcbor.Bstr(fl.ProtContent)
	if k.T != nil && k.Rewidth > 0 && k.T.Choose(16, "knob.prot.head") < k.Rewidth {
		if widen(k.T, fl.ProtBstr) {
			r.Probe("foreign-protected-head-wide")
		}
	}
	um := refcbor.Canonical(bucketItem(l.Unprot.clone(), nil))
	applyKnobs(k, um)
	fl.Unprot = um
	return fl
}

// foreignSign signs with the standard library only.
func foreignSign(k *KeyPair, tbs []byte, ent *Entropy) []byte {
	return foreignSignSalt(k, tbs, ent, 0)
}

func foreignSignSalt(k *KeyPair, tbs []byte, ent *Entropy, salt int) []byte {
	switch priv := k.Priv.(type) {
	case *ecdsa.PrivateKey:
		h := refcose.HashFor(k.Alg)
		rr, ss, err := ecdsa.Sign(ent, priv, refcose.Digest(h, tbs))
		if err != nil {
			panic(err)
		}
		return refcose.ECDSASigBytes(priv.Curve, rr, ss)
	case *rsa.PrivateKey:
		h := refcose.HashFor(k.Alg)
		sl := h.Size()
		switch {
		case salt == -1:
			sl = priv.Size() - h.Size() - 2
		case salt > 0:
			sl = salt
		}
		sig, err := rsa.SignPSS(ent, priv, h, refcose.Digest(h, tbs), &rsa.PSSOptions{SaltLength: sl, Hash: h})
		if err != nil {
			panic(err)
		}
		return sig
	case ed25519.PrivateKey:
		return ed25519.Sign(priv, tbs)
	}
	panic("foreignSign: unknown key type")
}

func bstrKnob(k Knobs, b []byte) *refcbor.Item {
	it := refcbor.Bstr(b)
	if k.T != nil && k.Rewidth > 0 && k.T.Choose(16, "knob.bstr.head") < k.Rewidth {
		widen(k.T, it)
	}
	return it
}

// ForeignMsg is a message as issued by the foreign peer.
type ForeignMsg struct {
	Spec  *MsgSpec
	Bytes []byte
	Tree  *refcbor.Item
}

// ForeignIssue lets the foreign peer encode and sign the spec over its own
// wire bytes.  detached sends nil as payload.  csigs asks for nested
// countersignatures (see foreignCountersign).
func (r *Run) ForeignIssue(s *MsgSpec, k Knobs, ent *Entropy, detached bool, csig func(parent *ForeignParent) *refcbor.Item) *ForeignMsg {
	body := r.foreignLayer(s.Layer, k)
	var payloadItem *refcbor.Item
	if detached {
		payloadItem = refcbor.Nil()
	} else {
		payloadItem = bstrKnob(k, s.Payload)
	}
	var arr *refcbor.Item
	if s.Kind == refcose.KSignTagged {
		var sigs []*refcbor.Item
		for _, sg := range s.Signers {
			sl := r.foreignLayer(sg.Layer, k)
			tbs := refcose.SigStructure(body.SignContent, sl.SignContent, s.External, s.Payload)
			sig := foreignSignSalt(sg.Key, tbs, ent, k.PSSSalt)
			if csig != nil {
				if c := csig(&ForeignParent{Kind: refcose.PSignature, Prot: sl.ProtContent, Payload: sig}); c != nil {
					sl.Unprot.Elems = append(sl.Unprot.Elems, c.Elems...)
				}
			}
			sigs = append(sigs, refcbor.Array(sl.ProtBstr, sl.Unprot, bstrKnob(k, sig)))
		}
		sa := refcbor.Array(sigs...)
		if k.T != nil && k.Rewidth > 0 && k.T.Choose(16, "knob.sigs.head") < k.Rewidth {
			widen(k.T, sa)
		}
		if csig != nil {
			if c := csig(&ForeignParent{Kind: refcose.PSign, Prot: body.ProtContent, Payload: s.Payload}); c != nil {
				body.Unprot.Elems = append(body.Unprot.Elems, c.Elems...)
			}
		}
		arr = refcbor.Array(body.ProtBstr, body.Unprot, payloadItem, sa)
	} else {
		tbs := refcose.SigStructure1(body.SignContent, s.External, s.Payload)
		sig := foreignSignSalt(s.Key, tbs, ent, k.PSSSalt)
		if csig != nil {
			if c := csig(&ForeignParent{Kind: refcose.PSign1, Prot: body.ProtContent, Payload: s.Payload, Sig: sig}); c != nil {
				body.Unprot.Elems = append(body.Unprot.Elems, c.Elems...)
			}
		}
		arr = refcbor.Array(body.ProtBstr, body.Unprot, payloadItem, bstrKnob(k, sig))
	}
	tree := arr
	switch s.Kind {
	case refcose.KSign1Tagged:
		tree = refcbor.Tag(18, arr)
	case refcose.KSignTagged:
		tree = refcbor.Tag(98, arr)
	}
	return &ForeignMsg{Spec: s, Bytes: refcbor.Encode(tree), Tree: tree}
}

// ForeignParent is what the foreign peer countersigns.
type ForeignParent struct {
	Kind    refcose.ParentKind
	Prot    []byte // content of the parent's protected bstr
	Payload []byte // payload (message parents) or signature (signature parents)
	Sig     []byte // Sign1 parents: the parent's signature
}

// publicOf returns the verification key of a pair.
func publicOf(k *KeyPair) crypto.PublicKey { return k.Pub }

// bigOK decides whether a run may use the 64 KiB boundary sizes (payloads and
// protected headers of 65535/65536 bytes): one run in 60 in the quick tier,
// one in 8 in the thorough tier.
func bigOK(r *Run, label string) bool {
	if r.Thorough() {
		return r.T.Bool(1, 8, label)
	}
	return r.T.Bool(1, 60, label)
}
