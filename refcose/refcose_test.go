package refcose

import (
	"bytes"
	"crypto"
	"crypto/ecdsa"
	"crypto/elliptic"
	"crypto/rsa"
	"encoding/base64"
	"encoding/hex"
	"encoding/json"
	"math/big"
	"os"
	"path/filepath"
	"testing"
)

type vector struct {
	Key  map[string]string `json:"key"`
	Alg  string            `json:"alg"`
	Sign *struct {
		Payload   string `json:"payload"`
		Protected struct {
			CBORHex string `json:"cborHex"`
		} `json:"protectedHeaders"`
		TBS struct {
			CBORHex string `json:"cborHex"`
		} `json:"tbsHex"`
		External string `json:"external"`
		Expected struct {
			CBORHex string `json:"cborHex"`
		} `json:"expectedOutput"`
	} `json:"sign1::sign"`
	Verify *struct {
		Tagged struct {
			CBORHex string `json:"cborHex"`
		} `json:"taggedCOSESign1"`
		External     string `json:"external"`
		ShouldVerify bool   `json:"shouldVerify"`
	} `json:"sign1::verify"`
}

func b64(s string) *big.Int {
	b, err := base64.RawURLEncoding.DecodeString(s)
	if err != nil {
		panic(err)
	}
	return new(big.Int).SetBytes(b)
}

func pubOf(v *vector) crypto.PublicKey {
	switch v.Key["kty"] {
	case "EC":
		var c elliptic.Curve
		switch v.Key["crv"] {
		case "P-256":
			c = elliptic.P256()
		case "P-384":
			c = elliptic.P384()
		case "P-521":
			c = elliptic.P521()
		}
		return &ecdsa.PublicKey{Curve: c, X: b64(v.Key["x"]), Y: b64(v.Key["y"])}
	case "RSA":
		return &rsa.PublicKey{N: b64(v.Key["n"]), E: int(b64(v.Key["e"]).Int64())}
	}
	return nil
}

var algIDs = map[string]int64{"ES256": AlgES256, "ES384": AlgES384, "ES512": AlgES512, "PS256": AlgPS256, "PS384": AlgPS384, "PS512": AlgPS512}

// The reference Sig_structure builder and verdict agree with the 18 test
// vectors shipped with the repository.
func TestVectors(t *testing.T) {
	files, _ := filepath.Glob("/repo/testdata/*.json")
	if len(files) == 0 {
		t.Skip("no testdata")
	}
	n := 0
	for _, f := range files {
		b, _ := os.ReadFile(f)
		var v vector
		if err := json.Unmarshal(b, &v); err != nil {
			t.Fatal(err)
		}
		if v.Sign != nil {
			payload, _ := hex.DecodeString(v.Sign.Payload)
			prot, _ := hex.DecodeString(v.Sign.Protected.CBORHex)
			ext, _ := hex.DecodeString(v.Sign.External)
			want, _ := hex.DecodeString(v.Sign.TBS.CBORHex)
			if got := SigStructure1(prot, ext, payload); !bytes.Equal(got, want) {
				t.Errorf("%s: tbs %x want %x", f, got, want)
			}
			n++
		}
		if v.Verify != nil {
			wire, _ := hex.DecodeString(v.Verify.Tagged.CBORHex)
			ext, _ := hex.DecodeString(v.Verify.External)
			n++
			m, err := ParseMsg(KSign1Tagged, wire)
			if err != nil {
				if v.Verify.ShouldVerify {
					t.Errorf("%s: %v", f, err)
				}
				continue
			}
			tbs := SigStructure1(m.ProtBstr.Data, ext, m.Payload.Data)
			got := ValidSignature(algIDs[v.Alg], pubOf(&v), tbs, m.Signature.Data)
			if got != v.Verify.ShouldVerify {
				t.Errorf("%s: verdict %v want %v", f, got, v.Verify.ShouldVerify)
			}
			if v.Verify.ShouldVerify {
				if err := WellFormed(KSign1Tagged, wire); err != nil {
					t.Errorf("%s: valid vector judged malformed: %v", f, err)
				}
			}
		}
	}
	if n < 18 {
		t.Errorf("only %d vectors checked", n)
	}
}

// RFC 9338 Appendix A.1.1 style structure: hand-computed expectations for the
// four contexts.
func TestCountersignContexts(t *testing.T) {
	for _, c := range []struct {
		pk     ParentKind
		abbrev bool
		ctx    string
		n      int
	}{
		{PSign1, false, "CounterSignatureV2", 6}, {PSign1, true, "CounterSignature0V2", 6},
		{PSign, false, "CounterSignature", 5}, {PSignature, true, "CounterSignature0", 5}, {PCountersignature, false, "CounterSignature", 5},
	} {
		bs := CountersignStructures(c.pk, c.abbrev, []byte{0xa0}, []byte{0xa1, 1, 0x26}, nil, []byte("p"), []byte("s"))
		it := mustParse(t, bs[0])
		if string(it.Elems[0].Data) != c.ctx || len(it.Elems) != c.n {
			t.Errorf("%v/%v: %s with %d elements", c.pk, c.abbrev, it.Elems[0].Data, len(it.Elems))
		}
		if c.abbrev && len(bs) != 2 {
			t.Errorf("abbreviated form must offer both variants")
		}
	}
}

func TestWellFormedRejects(t *testing.T) {
	bad := map[string]string{
		"trailing":           "d28440a0f64100" + "00",
		"tag inside":         "d28440a0c0f64100",
		"empty sig":          "d28440a0f640",
		"payload int":        "d28440a0014100",
		"prot not bstr":      "d284a0a0f64100",
		"prot wraps array":   "d2844180a0f64100",
		"prot trailing":      "d28442a000a0f64100",
		"unprot not map":     "d2844080f64100",
		"dup label":          "d28440a2010001 00f64100",
		"dup label widths":   "d28440a20100180100f64100",
		"bstr label":         "d28440a1410000f64100",
		"big label":          "d28440a11bffffffffffffffff00f64100",
		"alg bstr":           "d28443a10140a0f64100",
		"crit unprotected":   "d28440a1028101f64100",
		"crit empty":         "d28443a10280a0f64100",
		"crit missing label": "d28444a1028104a0f64100",
		"kid not bstr":       "d28440a10400f64100",
		"iv and piv":         "d28440a2054100064100f64100",
		"iv piv across":      "d28444a1054100a1064100f64100",
		"csig protected":     "d28447a107834 0a04100a0f64100",
		"csig null":          "d28440a107f6f64100",
		"csig empty list":    "d28440a10780f64100",
		"csig list of null":  "d28440a10781f6f64100",
		"csig0 not bstr":     "d28440a10900f64100",
		"indefinite array":   "d29f40a0f64100ff",
		"indefinite inside":  "d28440a1189f9ffff64100",
		"wrong tag":          "d38440a0f64100",
		"untagged as tagged": "8440a0f64100",
		"ct negative":        "d28440a10320f64100",
		"ct text no slash":   "d28440a103616af64100",
	}
	for name, h := range bad {
		b, err := hex.DecodeString(stripSpaces(h))
		if err != nil {
			t.Fatalf("%s: %v", name, err)
		}
		if err := WellFormed(KSign1Tagged, b); err == nil {
			t.Errorf("%s accepted by the reference predicate", name)
		}
	}
	good := []string{
		"d28440a0f64100", "d28441a0a0f64100", "d28440a0404100", "d28443a10126a104423131f64100",
		"d28440a1078340a04100f64100", "d28440a107818340a04100f64100", "d28440a10b828340a041008340a04100f64100",
		"d28447a2028104044100a0f64100", "d28440a1094100f64100",
	}
	for _, h := range good {
		b, _ := hex.DecodeString(h)
		if err := WellFormed(KSign1Tagged, b); err != nil {
			t.Errorf("%s rejected: %v", h, err)
		}
	}
	if err := WellFormed(KSignTagged, unhex("d8628440a0f6818340a04100")); err != nil {
		t.Error(err)
	}
	if err := WellFormed(KSignTagged, unhex("d8628440a0f680")); err == nil {
		t.Error("COSE_Sign with no signatures accepted")
	}
	if err := WellFormed(KSignature, unhex("8340a04100")); err != nil {
		t.Error(err)
	}
	if err := WellFormed(KSign1Untagged, unhex("d28440a0f64100")); err == nil {
		t.Error("tagged accepted as untagged")
	}
}

func unhex(s string) []byte {
	b, err := hex.DecodeString(s)
	if err != nil {
		panic(err)
	}
	return b
}

func stripSpaces(s string) string {
	return string(bytes.ReplaceAll([]byte(s), []byte(" "), nil))
}

func mustParse(t *testing.T, b []byte) *itemAlias {
	it, err := parseOne(b)
	if err != nil {
		t.Fatal(err)
	}
	return it
}
