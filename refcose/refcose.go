// Package refcose is the reference model of COSE signing structures used as the
// oracle by the simulator.  It is written from the RFC texts (RFC 9052, 9053,
// 9338, 8230, draft-ietf-cose-hash-envelope-05) and from the wording of the
// properties in /verif/properties.jsonl; it imports neither go-cose nor
// fxamacker/cbor.  Constants below are the registry values from the RFCs.
package refcose

import (
	"errors"
	"fmt"
	"strings"

	"verif/refcbor"
)

// Kind names the wire shape a decoder is responsible for.
type Kind int

const (
	KSign1Tagged   Kind = iota // #6.18([protected, unprotected, payload, signature])
	KSign1Untagged             // [protected, unprotected, payload, signature]
	KSignTagged                // #6.98([protected, unprotected, payload, [+ COSE_Signature]])
	KSignature                 // [protected, unprotected, signature]  (COSE_Signature and COSE_Countersignature)
)

func (k Kind) String() string {
	switch k {
	case KSign1Tagged:
		return "Sign1Tagged"
	case KSign1Untagged:
		return "Sign1Untagged"
	case KSignTagged:
		return "SignTagged"
	case KSignature:
		return "Signature"
	}
	return "?"
}

// Registered header labels (IANA COSE Header Parameters).
const (
	LAlg        = 1
	LCrit       = 2
	LContentTyp = 3
	LKid        = 4
	LIV         = 5
	LPartialIV  = 6
	LCsig       = 7
	LCsig0      = 9
	LCsigV2     = 11
	LCsig0V2    = 12
	LCWTClaims  = 15
	LTyp        = 16
	LHashAlg    = 258
	LPreimageCT = 259
	LPayloadLoc = 260
)

// Layer is one header layer of a parsed structure.
type Layer struct {
	ProtBstr *refcbor.Item // the protected bucket as it appears on the wire (a bstr item)
	ProtMap  *refcbor.Item // the map inside it; nil when the bstr is empty
	Unprot   *refcbor.Item // the unprotected map
}

// Sig is one COSE_Signature / COSE_Countersignature.
type Sig struct {
	Layer
	Item      *refcbor.Item
	Signature *refcbor.Item
}

// Msg is a loosely parsed COSE message: enough structure to compute the
// signing input over the received bytes.
type Msg struct {
	Kind Kind
	Layer
	Array     *refcbor.Item
	Payload   *refcbor.Item // bstr or nil item
	Signature *refcbor.Item // Sign1 only
	Sigs      []*Sig        // Sign only
}

// ParseLayer extracts the two header buckets from the first two elements of
// an array.  It checks only what is needed to navigate.
func parseLayer(prot, unprot *refcbor.Item) (Layer, error) {
	var l Layer
	if prot.Major != refcbor.MBstr {
		return l, errors.New("protected header is not a byte string")
	}
	l.ProtBstr = prot
	if len(prot.Data) > 0 {
		m, err := refcbor.ParseOne(prot.Data)
		if err != nil {
			return l, fmt.Errorf("protected header content: %w", err)
		}
		if m.Major != refcbor.MMap {
			return l, errors.New("protected header content is not a map")
		}
		l.ProtMap = m
	}
	if unprot.Major != refcbor.MMap {
		return l, errors.New("unprotected header is not a map")
	}
	l.Unprot = unprot
	return l, nil
}

// ParseSig parses a 3-array [protected, unprotected, signature].
func ParseSig(it *refcbor.Item) (*Sig, error) {
	if it.Major != refcbor.MArray || len(it.Elems) != 3 {
		return nil, errors.New("not a 3-element array")
	}
	l, err := parseLayer(it.Elems[0], it.Elems[1])
	if err != nil {
		return nil, err
	}
	if it.Elems[2].Major != refcbor.MBstr {
		return nil, errors.New("signature is not a byte string")
	}
	return &Sig{Layer: l, Item: it, Signature: it.Elems[2]}, nil
}

// ParseSigBytes parses b as one COSE_Signature.
func ParseSigBytes(b []byte) (*Sig, error) {
	it, err := refcbor.ParseOne(b)
	if err != nil {
		return nil, err
	}
	return ParseSig(it)
}

// ParseMsg parses b as a message of the given kind.
func ParseMsg(kind Kind, b []byte) (*Msg, error) {
	it, err := refcbor.ParseOne(b)
	if err != nil {
		return nil, err
	}
	arr := it
	switch kind {
	case KSign1Tagged:
		if it.Major != refcbor.MTag || it.Arg != 18 {
			return nil, errors.New("not tag 18")
		}
		arr = it.Elems[0]
	case KSignTagged:
		if it.Major != refcbor.MTag || it.Arg != 98 {
			return nil, errors.New("not tag 98")
		}
		arr = it.Elems[0]
	case KSign1Untagged:
	default:
		return nil, errors.New("ParseMsg: not a message kind")
	}
	if arr.Major != refcbor.MArray || len(arr.Elems) != 4 {
		return nil, errors.New("not a 4-element array")
	}
	l, err := parseLayer(arr.Elems[0], arr.Elems[1])
	if err != nil {
		return nil, err
	}
	m := &Msg{Kind: kind, Layer: l, Array: arr, Payload: arr.Elems[2]}
	if !(m.Payload.Major == refcbor.MBstr || m.Payload.IsNil()) {
		return nil, errors.New("payload is neither bstr nor nil")
	}
	if kind == KSignTagged {
		sa := arr.Elems[3]
		if sa.Major != refcbor.MArray {
			return nil, errors.New("signatures is not an array")
		}
		for _, s := range sa.Elems {
			ps, err := ParseSig(s)
			if err != nil {
				return nil, fmt.Errorf("signature element: %w", err)
			}
			m.Sigs = append(m.Sigs, ps)
		}
	} else {
		if arr.Elems[3].Major != refcbor.MBstr {
			return nil, errors.New("signature is not a byte string")
		}
		m.Signature = arr.Elems[3]
	}
	return m, nil
}

// ---------------------------------------------------------------------------
// Header parameter rules (RFC 9052 section 3.1, RFC 9338 section 3), as the
// properties word them.

func labelOK(k *refcbor.Item) bool {
	if k.Major == refcbor.MTstr {
		return true
	}
	if k.IsInt() {
		_, ok := k.Int64()
		return ok
	}
	return false
}

// Lookup returns the value stored under an integer label in a map item.
func Lookup(m *refcbor.Item, label int64) *refcbor.Item {
	if m == nil {
		return nil
	}
	for i := 0; i+1 < len(m.Elems); i += 2 {
		if v, ok := m.Elems[i].Int64(); ok && m.Elems[i].IsInt() && v == label {
			return m.Elems[i+1]
		}
	}
	return nil
}

func hasKey(m *refcbor.Item, k *refcbor.Item) bool {
	if m == nil {
		return false
	}
	id := refcbor.KeyIdentity(k)
	for i := 0; i+1 < len(m.Elems); i += 2 {
		if refcbor.KeyIdentity(m.Elems[i]) == id {
			return true
		}
	}
	return false
}

func contentTypeOK(v *refcbor.Item) bool {
	if v.Major == refcbor.MUint {
		return true
	}
	if v.Major == refcbor.MTstr {
		// "uint or a type/subtype string"
		return strings.Contains(string(v.Data), "/")
	}
	return false
}

// CheckBucket checks one header bucket.
func CheckBucket(m *refcbor.Item, protected bool, depth int) error {
	if m == nil {
		return nil
	}
	if m.Major != refcbor.MMap {
		return errors.New("header bucket is not a map")
	}
	if refcbor.HasIndefinite(m) {
		return errors.New("indefinite length inside header bucket")
	}
	if r := refcbor.DuplicateKey(m); r != "" {
		return errors.New("header bucket: " + r)
	}
	for i := 0; i+1 < len(m.Elems); i += 2 {
		k, v := m.Elems[i], m.Elems[i+1]
		if !labelOK(k) {
			return errors.New("header label is not int-within-int64 / tstr")
		}
		if !k.IsInt() {
			continue
		}
		lbl, _ := k.Int64()
		switch lbl {
		case LAlg:
			if !(v.IsInt() || v.Major == refcbor.MTstr) {
				return errors.New("alg is not int / tstr")
			}
		case LCrit:
			if !protected {
				return errors.New("crit outside the protected bucket")
			}
			if v.Major != refcbor.MArray || len(v.Elems) == 0 {
				return errors.New("crit is not a non-empty array")
			}
			for _, l := range v.Elems {
				if !(l.IsInt() || l.Major == refcbor.MTstr) {
					return errors.New("crit entry is not a label")
				}
				if !hasKey(m, l) {
					return errors.New("crit names a label absent from the protected bucket")
				}
			}
		case LContentTyp:
			if !contentTypeOK(v) {
				return errors.New("content type is not uint / type-subtype string")
			}
		case LTyp:
			if !contentTypeOK(v) {
				return errors.New("typ is not uint / type-subtype string")
			}
		case LKid, LIV, LPartialIV:
			if v.Major != refcbor.MBstr {
				return fmt.Errorf("label %d is not a byte string", lbl)
			}
		case LCsig0, LCsig0V2:
			if protected {
				return errors.New("abbreviated countersignature in the protected bucket")
			}
			if v.Major != refcbor.MBstr {
				return errors.New("abbreviated countersignature is not a byte string")
			}
		case LCsig, LCsigV2:
			if protected {
				return errors.New("countersignature in the protected bucket")
			}
			if err := checkCountersigValue(v, depth+1); err != nil {
				return err
			}
		}
	}
	if Lookup(m, LIV) != nil && Lookup(m, LPartialIV) != nil {
		return errors.New("IV and Partial IV in one bucket")
	}
	return nil
}

func checkCountersigValue(v *refcbor.Item, depth int) error {
	if depth > 64 {
		return errors.New("countersignatures nested too deep")
	}
	if v.Major != refcbor.MArray {
		return errors.New("countersignature value is not an array")
	}
	// One COSE_Countersignature: [bstr, map, bstr]; otherwise a non-empty
	// list of them.
	if len(v.Elems) == 3 && v.Elems[0].Major == refcbor.MBstr {
		return CheckSigItem(v, depth)
	}
	if len(v.Elems) == 0 {
		return errors.New("countersignature list is empty")
	}
	for _, e := range v.Elems {
		if err := CheckSigItem(e, depth); err != nil {
			return err
		}
	}
	return nil
}

// CheckLayer checks both buckets of one layer and the cross-bucket IV rule.
func CheckLayer(prot, unprot *refcbor.Item, depth int) error {
	if prot.Major != refcbor.MBstr || prot.Indef {
		return errors.New("protected header is not a definite byte string")
	}
	var pm *refcbor.Item
	if len(prot.Data) > 0 {
		m, err := refcbor.ParseOne(prot.Data)
		if err != nil {
			return fmt.Errorf("protected header does not wrap exactly one item: %w", err)
		}
		if m.Major != refcbor.MMap {
			return errors.New("protected header does not wrap a map")
		}
		pm = m
		if err := CheckBucket(pm, true, depth); err != nil {
			return fmt.Errorf("protected: %w", err)
		}
	}
	if unprot.Major != refcbor.MMap {
		return errors.New("unprotected header is not a map")
	}
	if err := CheckBucket(unprot, false, depth); err != nil {
		return fmt.Errorf("unprotected: %w", err)
	}
	if (Lookup(pm, LIV) != nil && Lookup(unprot, LPartialIV) != nil) ||
		(Lookup(pm, LPartialIV) != nil && Lookup(unprot, LIV) != nil) {
		return errors.New("IV and Partial IV in one layer")
	}
	return nil
}

// CheckSigItem checks a COSE_Signature / COSE_Countersignature item.
func CheckSigItem(it *refcbor.Item, depth int) error {
	if it.Major != refcbor.MArray || it.Indef || len(it.Elems) != 3 {
		return errors.New("signature object is not a definite 3-element array")
	}
	if err := CheckLayer(it.Elems[0], it.Elems[1], depth); err != nil {
		return err
	}
	s := it.Elems[2]
	if s.Major != refcbor.MBstr || s.Indef || len(s.Data) == 0 {
		return errors.New("signature is not a non-empty byte string")
	}
	return nil
}

// WellFormed implements the acceptance predicate of property C05 for one
// decoder kind: nil means b is a message the decoder of that kind may accept.
func WellFormed(kind Kind, b []byte) error {
	it, err := refcbor.ParseOne(b)
	if err != nil {
		return err
	}
	if refcbor.HasIndefinite(it) {
		return errors.New("indefinite-length item")
	}
	arr := it
	switch kind {
	case KSign1Tagged:
		if it.Major != refcbor.MTag || it.Arg != 18 {
			return errors.New("not tag 18")
		}
		arr = it.Elems[0]
	case KSignTagged:
		if it.Major != refcbor.MTag || it.Arg != 98 {
			return errors.New("not tag 98")
		}
		arr = it.Elems[0]
	}
	if arr.Major != refcbor.MArray {
		return errors.New("not an array")
	}
	if refcbor.HasTag(arr) {
		return errors.New("tag inside the envelope")
	}
	if kind == KSignature {
		return CheckSigItem(arr, 0)
	}
	if len(arr.Elems) != 4 {
		return errors.New("not a 4-element array")
	}
	if err := CheckLayer(arr.Elems[0], arr.Elems[1], 0); err != nil {
		return err
	}
	p := arr.Elems[2]
	if !(p.Major == refcbor.MBstr || p.IsNil()) {
		return errors.New("payload is neither bstr nor nil")
	}
	if kind == KSignTagged {
		sa := arr.Elems[3]
		if sa.Major != refcbor.MArray || len(sa.Elems) == 0 {
			return errors.New("signatures is not a non-empty array")
		}
		for _, s := range sa.Elems {
			if err := CheckSigItem(s, 0); err != nil {
				return err
			}
		}
		return nil
	}
	s := arr.Elems[3]
	if s.Major != refcbor.MBstr || len(s.Data) == 0 {
		return errors.New("signature is not a non-empty byte string")
	}
	return nil
}

// ---------------------------------------------------------------------------
// Signing inputs (RFC 9052 section 4.4, RFC 9338 section 3.3)

func bstrOrEmpty(b []byte) *refcbor.Item {
	if b == nil {
		b = []byte{}
	}
	return refcbor.Bstr(b)
}

// SigStructure1 is the ToBeSigned of a COSE_Sign1: the deterministic encoding
// of ["Signature1", body_protected, external_aad, payload].  bodyProt is the
// content of the protected bstr as it appears on the wire.
func SigStructure1(bodyProt, external, payload []byte) []byte {
	return refcbor.Encode(refcbor.Array(
		refcbor.Tstr("Signature1"),
		bstrOrEmpty(bodyProt),
		bstrOrEmpty(external),
		bstrOrEmpty(payload),
	))
}

// SigStructure is the ToBeSigned of one signer of a COSE_Sign.
func SigStructure(bodyProt, signProt, external, payload []byte) []byte {
	return refcbor.Encode(refcbor.Array(
		refcbor.Tstr("Signature"),
		bstrOrEmpty(bodyProt),
		bstrOrEmpty(signProt),
		bstrOrEmpty(external),
		bstrOrEmpty(payload),
	))
}

// ParentKind is what a countersignature is made over.
type ParentKind int

const (
	PSign1 ParentKind = iota
	PSign
	PSignature
	PCountersignature
)

// CountersignStructures returns the acceptable ToBeSigned values of a
// countersignature.  For the full form there is exactly one.  For the
// abbreviated form the property fixes the context and the parent fields
// only; RFC 9338 section 3.3 omits sign_protected there while an empty
// sign_protected slot is what some implementations sign, so both are
// returned (first the variant with the empty slot).
//
// parentProt is the content of the parent's protected bstr; parentPayload is
// the parent's payload for message parents and the parent's signature for
// Signature / Countersignature parents; parentSig is used only for Sign1
// parents (other_fields).
func CountersignStructures(pk ParentKind, abbreviated bool, parentProt, signProt, external, parentPayload, parentSig []byte) [][]byte {
	ctx := "CounterSignature"
	if abbreviated {
		ctx = "CounterSignature0"
	}
	if pk == PSign1 {
		ctx += "V2"
	}
	build := func(withSignProt bool) []byte {
		els := []*refcbor.Item{refcbor.Tstr(ctx), bstrOrEmpty(parentProt)}
		if withSignProt {
			els = append(els, bstrOrEmpty(signProt))
		}
		els = append(els, bstrOrEmpty(external), bstrOrEmpty(parentPayload))
		if pk == PSign1 {
			els = append(els, refcbor.Array(bstrOrEmpty(parentSig)))
		}
		return refcbor.Encode(refcbor.Array(els...))
	}
	if abbreviated {
		return [][]byte{build(true), build(false)}
	}
	return [][]byte{build(true)}
}

// ---------------------------------------------------------------------------
// Re-encoding predictor (property C09)

// PredictReencode returns what decoding an accepted message and encoding it
// again untouched must produce: every header bucket byte-for-byte, payload
// and signature byte strings and the signatures array re-headed to shortest
// form.
func PredictReencode(kind Kind, b []byte) ([]byte, error) {
	it, err := refcbor.ParseOne(b)
	if err != nil {
		return nil, err
	}
	c := it.Clone()
	arr := c
	if kind == KSign1Tagged || kind == KSignTagged {
		if c.Major != refcbor.MTag {
			return nil, errors.New("not tagged")
		}
		arr = c.Elems[0]
	}
	shortest := func(x *refcbor.Item) { x.Width = 0 }
	if kind == KSignature {
		if arr.Major != refcbor.MArray || len(arr.Elems) != 3 {
			return nil, errors.New("not a 3-array")
		}
		shortest(arr.Elems[2])
		return refcbor.Encode(c), nil
	}
	if arr.Major != refcbor.MArray || len(arr.Elems) != 4 {
		return nil, errors.New("not a 4-array")
	}
	shortest(arr.Elems[2])
	shortest(arr.Elems[3])
	if kind == KSignTagged {
		for _, s := range arr.Elems[3].Elems {
			if s.Major == refcbor.MArray && len(s.Elems) == 3 {
				shortest(s.Elems[2])
			}
		}
	}
	return refcbor.Encode(c), nil
}

// ---------------------------------------------------------------------------
// Bucket decoders (ProtectedHeader.UnmarshalCBOR / UnprotectedHeader.UnmarshalCBOR)

// WellFormedProtected is the acceptance predicate for a stand-alone protected
// bucket: one definite byte string that is empty or wraps exactly one map
// obeying the section 3.1 rules of the protected bucket.
func WellFormedProtected(b []byte) error {
	it, err := refcbor.ParseOne(b)
	if err != nil {
		return err
	}
	if it.Major != refcbor.MBstr || it.Indef {
		return errors.New("not a definite byte string")
	}
	if len(it.Data) == 0 {
		return nil
	}
	m, err := refcbor.ParseOne(it.Data)
	if err != nil {
		return fmt.Errorf("content is not exactly one item: %w", err)
	}
	if m.Major != refcbor.MMap {
		return errors.New("content is not a map")
	}
	return CheckBucket(m, true, 0)
}

// WellFormedUnprotected is the acceptance predicate for a stand-alone
// unprotected bucket.
func WellFormedUnprotected(b []byte) error {
	it, err := refcbor.ParseOne(b)
	if err != nil {
		return err
	}
	if it.Major != refcbor.MMap {
		return errors.New("not a map")
	}
	return CheckBucket(it, false, 0)
}
