package refcose

import "verif/refcbor"

type itemAlias = refcbor.Item

func parseOne(b []byte) (*refcbor.Item, error) { return refcbor.ParseOne(b) }
