package refcose

import (
	"crypto"
	"crypto/ecdsa"
	"crypto/ed25519"
	"crypto/elliptic"
	"crypto/rsa"
	"crypto/sha256"
	"crypto/sha512"
	"math/big"
)

// COSE algorithm identifiers (IANA COSE Algorithms registry; RFC 9053 table 1,
// RFC 8230 table 1).
const (
	AlgES256 int64 = -7
	AlgEdDSA int64 = -8
	AlgES384 int64 = -35
	AlgES512 int64 = -36
	AlgPS256 int64 = -37
	AlgPS384 int64 = -38
	AlgPS512 int64 = -39
	// RFC 9054 hash algorithm identifiers.
	AlgSHA256 int64 = -16
	AlgSHA384 int64 = -43
	AlgSHA512 int64 = -44
)

// HashFor returns the hash of a built-in signature algorithm (0 for EdDSA and
// for unknown identifiers).
func HashFor(alg int64) crypto.Hash {
	switch alg {
	case AlgES256, AlgPS256:
		return crypto.SHA256
	case AlgES384, AlgPS384:
		return crypto.SHA384
	case AlgES512, AlgPS512:
		return crypto.SHA512
	}
	return 0
}

// Digest hashes data with the given hash (SHA-2 only).
func Digest(h crypto.Hash, data []byte) []byte {
	switch h {
	case crypto.SHA256:
		d := sha256.Sum256(data)
		return d[:]
	case crypto.SHA384:
		d := sha512.Sum384(data)
		return d[:]
	case crypto.SHA512:
		d := sha512.Sum512(data)
		return d[:]
	}
	return nil
}

// HashLen returns the digest length RFC 9054 fixes for a hash algorithm id
// (0 when the id is not one of SHA-256/384/512).
func HashLen(alg int64) int {
	switch alg {
	case AlgSHA256:
		return 32
	case AlgSHA384:
		return 48
	case AlgSHA512:
		return 64
	}
	return 0
}

// OrderLen is the byte length of the order of the curve.
func OrderLen(c elliptic.Curve) int { return (c.Params().N.BitLen() + 7) / 8 }

// ValidSignature decides whether sig is a valid signature by pub under alg
// over tbs, by the letter of RFC 9053 section 2.1 (ECDSA: r||s, each exactly
// the byte length of the curve order), RFC 8230 section 2 (RSASSA-PSS, salt
// length = hash length, MGF1 with the same hash) and RFC 9053 section 2.2
// (pure Ed25519).  Any key/algorithm family mismatch is "not valid".
func ValidSignature(alg int64, pub crypto.PublicKey, tbs, sig []byte) bool {
	switch alg {
	case AlgES256, AlgES384, AlgES512:
		k, ok := pub.(*ecdsa.PublicKey)
		if !ok {
			return false
		}
		n := OrderLen(k.Curve)
		if len(sig) != 2*n {
			return false
		}
		r := new(big.Int).SetBytes(sig[:n])
		s := new(big.Int).SetBytes(sig[n:])
		return ecdsa.Verify(k, Digest(HashFor(alg), tbs), r, s)
	case AlgPS256, AlgPS384, AlgPS512:
		k, ok := pub.(*rsa.PublicKey)
		if !ok {
			return false
		}
		h := HashFor(alg)
		return rsa.VerifyPSS(k, h, Digest(h, tbs), sig, &rsa.PSSOptions{SaltLength: h.Size(), Hash: h}) == nil
	case AlgEdDSA:
		k, ok := pub.(ed25519.PublicKey)
		if !ok || len(k) != ed25519.PublicKeySize {
			return false
		}
		return ed25519.Verify(k, tbs, sig)
	}
	return false
}

// ECDSASigBytes is r||s per RFC 9053 section 2.1: each integer big-endian,
// left-padded with zeros to the byte length of the curve order.
func ECDSASigBytes(c elliptic.Curve, r, s *big.Int) []byte {
	n := OrderLen(c)
	out := make([]byte, 2*n)
	rb, sb := r.Bytes(), s.Bytes()
	copy(out[n-len(rb):n], rb)
	copy(out[2*n-len(sb):], sb)
	return out
}
