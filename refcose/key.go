package refcose

import (
	"errors"
	"fmt"

	"verif/refcbor"
)

// COSE_Key registry values (RFC 9052 section 7, RFC 9053 section 7).
const (
	KtyOKP       = 1
	KtyEC2       = 2
	KtySymmetric = 4

	CrvP256    = 1
	CrvP384    = 2
	CrvP521    = 3
	CrvX25519  = 4
	CrvX448    = 5
	CrvEd25519 = 6
	CrvEd448   = 7

	KeyOpSign   = 1
	KeyOpVerify = 2
)

// KeyView is what the reference model reads from a COSE_Key map.
type KeyView struct {
	Map     *refcbor.Item
	Kty     int64
	HasAlg  bool
	Alg     int64
	HasOps  bool
	Ops     []*refcbor.Item
	Crv     *refcbor.Item
	X, Y, D *refcbor.Item
}

// CoordSize is the field size in bytes of an EC2 curve (0 if not P-256/384/521).
func CoordSize(crv int64) int {
	switch crv {
	case CrvP256:
		return 32
	case CrvP384:
		return 48
	case CrvP521:
		return 66
	}
	return 0
}

// AlgForCurve is the signature algorithm RFC 9053 pairs with a curve (0 if none).
func AlgForCurve(kty, crv int64) int64 {
	switch {
	case kty == KtyEC2 && crv == CrvP256:
		return AlgES256
	case kty == KtyEC2 && crv == CrvP384:
		return AlgES384
	case kty == KtyEC2 && crv == CrvP521:
		return AlgES512
	case kty == KtyOKP && crv == CrvEd25519:
		return AlgEdDSA
	}
	return 0
}

// ViewKey parses a COSE_Key (a map, possibly wrapped in tags, which the
// property does not speak about) into a KeyView.
func ViewKey(b []byte) (*KeyView, error) {
	it, err := refcbor.ParseOne(b)
	if err != nil {
		return nil, err
	}
	for it.Major == refcbor.MTag {
		it = it.Elems[0]
	}
	if it.Major != refcbor.MMap {
		return nil, errors.New("COSE_Key is not a map")
	}
	v := &KeyView{Map: it}
	kty := Lookup(it, 1)
	if kty == nil {
		return nil, errors.New("kty missing")
	}
	n, ok := kty.Int64()
	if !ok || !kty.IsInt() {
		return nil, errors.New("kty is not an integer")
	}
	v.Kty = n
	if a := Lookup(it, 3); a != nil {
		if av, ok := a.Int64(); ok && a.IsInt() {
			v.HasAlg, v.Alg = true, av
		} else {
			return nil, errors.New("alg is not an integer")
		}
	}
	if o := Lookup(it, 4); o != nil {
		if o.Major != refcbor.MArray {
			return nil, errors.New("key_ops is not an array")
		}
		v.HasOps, v.Ops = true, o.Elems
	}
	v.Crv = Lookup(it, -1)
	v.X = Lookup(it, -2)
	v.Y = Lookup(it, -3)
	v.D = Lookup(it, -4)
	return v, nil
}

// KeyConsistent implements the acceptance half of property C15: nil means
// the accepted key is consistent.
func KeyConsistent(b []byte) error {
	v, err := ViewKey(b)
	if err != nil {
		return err
	}
	if v.Kty == 0 {
		return errors.New("reserved key type 0")
	}
	if r := refcbor.DuplicateKey(v.Map); r != "" {
		return errors.New(r)
	}
	for i := 0; i+1 < len(v.Map.Elems); i += 2 {
		if !labelOK(v.Map.Elems[i]) {
			return errors.New("key label is not int / tstr")
		}
	}
	if v.Kty != KtyEC2 && v.Kty != KtyOKP {
		return nil
	}
	if v.Crv == nil || !v.Crv.IsInt() {
		return errors.New("curve missing or not an integer")
	}
	crv, ok := v.Crv.Int64()
	if !ok || crv == 0 {
		return errors.New("curve reserved / out of range")
	}
	bstrLen := func(it *refcbor.Item, name string) (int, error) {
		if it == nil {
			return 0, nil
		}
		if it.Major != refcbor.MBstr {
			// the property bounds the size of coordinates; a parameter of
			// another type is not a coordinate and is not judged here
			_ = name
			return 0, nil
		}
		return len(it.Data), nil
	}
	if v.Kty == KtyEC2 {
		switch crv {
		case CrvX25519, CrvX448, CrvEd25519, CrvEd448:
			return errors.New("OKP curve on an EC2 key")
		}
		if size := CoordSize(crv); size > 0 {
			for _, c := range []struct {
				it   *refcbor.Item
				name string
			}{{v.X, "x"}, {v.D, "d"}} {
				n, err := bstrLen(c.it, c.name)
				if err != nil {
					return err
				}
				if n > size {
					return fmt.Errorf("%s longer than the curve's field size", c.name)
				}
			}
			// y may be a bool (compressed point, RFC 9053 section 7.1.1) or bstr
			if v.Y != nil && v.Y.Major == refcbor.MBstr && len(v.Y.Data) > size {
				return errors.New("y longer than the curve's field size")
			}
		}
	} else {
		switch crv {
		case CrvP256, CrvP384, CrvP521:
			return errors.New("EC2 curve on an OKP key")
		}
		if crv == CrvEd25519 || crv == CrvX25519 {
			if n, err := bstrLen(v.X, "x"); err != nil {
				return err
			} else if n > 32 {
				return errors.New("x longer than 32 bytes")
			}
			if n, err := bstrLen(v.D, "d"); err != nil {
				return err
			} else if n > 32 {
				return errors.New("d longer than 32 bytes")
			}
		}
	}
	if v.HasAlg && v.Alg != 0 {
		if want := AlgForCurve(v.Kty, crv); want == 0 || want != v.Alg {
			return fmt.Errorf("alg %d does not match curve %d", v.Alg, crv)
		}
	}
	return nil
}

// OpsAllow reports whether key_ops (when present) contains op, reading
// entries either as integers or as the RFC 7517 names.
func (v *KeyView) OpsAllow(op int64) bool {
	if !v.HasOps {
		return true
	}
	name := map[int64]string{KeyOpSign: "sign", KeyOpVerify: "verify"}[op]
	for _, e := range v.Ops {
		if e.IsInt() {
			if n, ok := e.Int64(); ok && n == op {
				return true
			}
		}
		if e.Major == refcbor.MTstr && string(e.Data) == name {
			return true
		}
	}
	return false
}

// FixedAlg is the algorithm a key determines: its alg when present,
// otherwise the one paired with its curve (0 when there is none).
func (v *KeyView) FixedAlg() int64 {
	if v.HasAlg && v.Alg != 0 {
		return v.Alg
	}
	if v.Crv != nil && v.Crv.IsInt() {
		crv, _ := v.Crv.Int64()
		return AlgForCurve(v.Kty, crv)
	}
	return 0
}

func nonEmptyBstr(it *refcbor.Item) bool {
	return it != nil && it.Major == refcbor.MBstr && len(it.Data) > 0
}

// MaySign: private material present, ops allow sign, supported signing key.
func (v *KeyView) MaySign() bool {
	if v.Kty != KtyEC2 && v.Kty != KtyOKP {
		return false
	}
	return nonEmptyBstr(v.D) && v.OpsAllow(KeyOpSign) && v.FixedAlg() != 0
}

// MayVerify: public point present, ops allow verify, supported key.
func (v *KeyView) MayVerify() bool {
	switch v.Kty {
	case KtyEC2:
		if !(nonEmptyBstr(v.X) && nonEmptyBstr(v.Y)) {
			return false
		}
	case KtyOKP:
		if !nonEmptyBstr(v.X) {
			return false
		}
	default:
		return false
	}
	return v.OpsAllow(KeyOpVerify) && v.FixedAlg() != 0
}

// ---------------------------------------------------------------------------
// Hash envelope rules (draft-ietf-cose-hash-envelope-05 section 4, as worded
// by property C12).

// EnvelopeRules checks the header placement/type rules and the digest length
// on a parsed COSE_Sign1.
func EnvelopeRules(m *Msg) error {
	ha := Lookup(m.ProtMap, LHashAlg)
	if ha == nil {
		return errors.New("258 (payload hash alg) absent from protected")
	}
	if !ha.IsInt() {
		return errors.New("258 is not an integer")
	}
	if v := Lookup(m.ProtMap, LPreimageCT); v != nil && !(v.Major == refcbor.MUint || v.Major == refcbor.MTstr) {
		return errors.New("259 is not uint / tstr")
	}
	if v := Lookup(m.ProtMap, LPayloadLoc); v != nil && v.Major != refcbor.MTstr {
		return errors.New("260 is not tstr")
	}
	for _, l := range []int64{LHashAlg, LPreimageCT, LPayloadLoc} {
		if Lookup(m.Unprot, l) != nil {
			return fmt.Errorf("%d present in unprotected", l)
		}
	}
	if Lookup(m.ProtMap, LContentTyp) != nil || Lookup(m.Unprot, LContentTyp) != nil {
		return errors.New("content type (3) present")
	}
	if alg, ok := ha.Int64(); ok {
		if n := HashLen(alg); n > 0 {
			if m.Payload.Major != refcbor.MBstr || len(m.Payload.Data) != n {
				return fmt.Errorf("payload is not a %d-byte digest", n)
			}
		}
	}
	return nil
}
